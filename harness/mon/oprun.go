package mon

import (
	"fmt"
	"reflect"
	"strings"

	"github.com/advancedclimatesystems/gonnx"
	"github.com/advancedclimatesystems/gonnx/onnx"
	"github.com/advancedclimatesystems/gonnx/ops/opset13"
	"google.golang.org/protobuf/proto"
	"gorgonia.org/tensor"

	"verif/harness/ref"
)

// OpReq is one request to one operator.
type OpReq struct {
	Op       string
	Attrs    []*onnx.AttributeProto
	Inputs   []*ref.T // nil entry = optional input absent
	NOutputs int      // number of outputs requested (names o0, o1, …)
	OutNames []string // optional explicit output names
}

func (r OpReq) outNames() []string {
	if r.OutNames != nil {
		return r.OutNames
	}
	n := r.NOutputs
	if n == 0 {
		n = 1
	}
	names := make([]string, n)
	for i := range names {
		names[i] = fmt.Sprintf("o%d", i)
	}
	return names
}

// Describe renders the request for samples and replays.
func (r OpReq) Describe() string {
	var sb strings.Builder
	sb.WriteString(r.Op)
	sb.WriteString("(")
	for i, in := range r.Inputs {
		if i > 0 {
			sb.WriteString(", ")
		}
		sb.WriteString(in.String())
	}
	sb.WriteString(")")
	if len(r.Attrs) > 0 {
		sb.WriteString(" attrs{")
		for i, a := range r.Attrs {
			if i > 0 {
				sb.WriteString(" ")
			}
			sb.WriteString(AttrString(a))
		}
		sb.WriteString("}")
	}
	return sb.String()
}

// AttrString renders an attribute.
func AttrString(a *onnx.AttributeProto) string {
	switch a.Type {
	case onnx.AttributeProto_INT:
		return fmt.Sprintf("%s=%d", a.Name, a.I)
	case onnx.AttributeProto_FLOAT:
		return fmt.Sprintf("%s=%g", a.Name, a.F)
	case onnx.AttributeProto_STRING:
		return fmt.Sprintf("%s=%q", a.Name, string(a.S))
	case onnx.AttributeProto_INTS:
		return fmt.Sprintf("%s=%v", a.Name, a.Ints)
	case onnx.AttributeProto_FLOATS:
		return fmt.Sprintf("%s=%v", a.Name, a.Floats)
	case onnx.AttributeProto_STRINGS:
		s := make([]string, len(a.Strings))
		for i, b := range a.Strings {
			s[i] = string(b)
		}
		return fmt.Sprintf("%s=%q", a.Name, s)
	case onnx.AttributeProto_TENSOR:
		return fmt.Sprintf("%s=tensor(type=%d dims=%v raw=%d f=%d i32=%d i64=%d d=%d u64=%d)", a.Name, a.T.GetDataType(), a.T.GetDims(), len(a.T.GetRawData()), len(a.T.GetFloatData()), len(a.T.GetInt32Data()), len(a.T.GetInt64Data()), len(a.T.GetDoubleData()), len(a.T.GetUint64Data()))
	}
	return a.Name + "=?"
}

// InputMutation describes an input tensor whose fingerprint changed during a call.
type InputMutation struct {
	Index int
	What  string
}

// RunOpAPI executes a request through the operator API
// (GetOperator -> Init -> ValidateInputs -> Apply). It also reports which of the
// supplied input tensors were modified by the call (diagnostic).
func RunOpAPI(r OpReq) (Outcome, []InputMutation) {
	ins := ToTensors(r.Inputs)
	before := make([]Fingerprint, len(ins))
	for i, t := range ins {
		before[i] = Fp(t)
	}
	o := runOpOn(r, ins)
	var muts []InputMutation
	for i, t := range ins {
		if ok, what := before[i].Equal(Fp(t)); !ok {
			muts = append(muts, InputMutation{Index: i, What: what})
		}
	}
	return o, muts
}

// RunOpAPISpare executes the request with an input list that is a prefix of a longer
// array: behind its length the array holds other tensors (a caller's scratch buffer,
// a list re-filled per call). What lies behind len is not part of the list.
func RunOpAPISpare(r OpReq) Outcome {
	ins := ToTensors(r.Inputs)
	full := make([]tensor.Tensor, len(ins)+4)
	copy(full, ins)
	for j := len(ins); j < len(full); j++ {
		switch j % 2 {
		case 0:
			full[j] = tensor.New(tensor.WithShape(2, 2), tensor.WithBacking([]float32{100, 200, 300, 400}))
		default:
			full[j] = tensor.New(tensor.WithShape(2), tensor.WithBacking([]bool{true, false}))
		}
	}
	return runOpOn(r, full[:len(ins)])
}

// RunOpOnEditedNode initialises a first operator instance from a NodeProto object holding
// the attributes of `prev`, applies it (outcome ignored), then the owner of the node edits it
// in place - its attribute list is replaced by the request's - and a FRESH operator instance
// is initialised from the same node object and applied to the request's inputs. What an
// operator reads at Init is what the node says at that moment.
func RunOpOnEditedNode(prev, r OpReq) Outcome {
	node := &onnx.NodeProto{OpType: r.Op, Name: "n0", Attribute: append([]*onnx.AttributeProto{}, prev.Attrs...), Output: prev.outNames()}
	for i := range prev.Inputs {
		if prev.Inputs[i] == nil {
			node.Input = append(node.Input, "")
		} else {
			node.Input = append(node.Input, fmt.Sprintf("i%d", i))
		}
	}
	_ = Capture(nil, func() ([]tensor.Tensor, error) {
		op, err := opset13.GetOperator(r.Op)
		if err != nil {
			return nil, err
		}
		if err := op.Init(node); err != nil {
			return nil, err
		}
		vin, err := op.ValidateInputs(ToTensors(prev.Inputs))
		if err != nil {
			return nil, err
		}
		return op.Apply(vin)
	})
	node.Attribute = append(node.Attribute[:0], r.Attrs...)
	node.Input, node.Output = nil, r.outNames()
	for i := range r.Inputs {
		if r.Inputs[i] == nil {
			node.Input = append(node.Input, "")
		} else {
			node.Input = append(node.Input, fmt.Sprintf("i%d", i))
		}
	}
	phase := "lookup"
	return Capture(&phase, func() ([]tensor.Tensor, error) {
		op, err := opset13.GetOperator(r.Op)
		if err != nil {
			return nil, err
		}
		phase = "init"
		if err := op.Init(node); err != nil {
			return nil, err
		}
		phase = "validate"
		vin, err := op.ValidateInputs(ToTensors(r.Inputs))
		if err != nil {
			return nil, err
		}
		phase = "apply"
		return op.Apply(vin)
	})
}

// RunOpAPIClones executes the request twice (a fresh operator each) on operands that are
// Clone()s of the caller's tensors - as a caller does that keeps its originals. A clone
// differs from a tensor built with tensor.New in hidden ways (its shape and stride slices
// come from append and may have spare capacity); none of that is part of its value. The
// second call sees the same objects again: whatever the first did to them shows there.
func RunOpAPIClones(r OpReq) (first, second Outcome) {
	ins := ToTensors(r.Inputs)
	seen := map[tensor.Tensor]tensor.Tensor{}
	for i, t := range ins {
		if t == nil {
			continue
		}
		if c, ok := seen[t]; ok {
			ins[i] = c
			continue
		}
		if c, ok := t.Clone().(tensor.Tensor); ok {
			seen[t] = c
			ins[i] = c
		}
	}
	first = runOpOn(r, ins)
	second = runOpOn(r, ins)
	return first, second
}

// runOpOn executes the request through the operator API on the given tensor objects.
func runOpOn(r OpReq, ins []tensor.Tensor) Outcome {
	phase := "lookup"
	slot := -1 // a slot of the list handed to Apply that holds another object afterwards
	o := Capture(&phase, func() ([]tensor.Tensor, error) {
		op, err := opset13.GetOperator(r.Op)
		if err != nil {
			return nil, err
		}
		phase = "init"
		node := &onnx.NodeProto{OpType: r.Op, Name: "n0", Attribute: r.Attrs, Output: r.outNames()}
		for i := range r.Inputs {
			if r.Inputs[i] == nil {
				node.Input = append(node.Input, "")
			} else {
				node.Input = append(node.Input, fmt.Sprintf("i%d", i))
			}
		}
		if err := op.Init(node); err != nil {
			return nil, err
		}
		phase = "validate"
		vin, err := op.ValidateInputs(ins)
		if err != nil {
			return nil, err
		}
		phase = "apply"
		before := append([]tensor.Tensor{}, vin...)
		out, err := op.Apply(vin)
		for i := range before {
			if i < len(vin) && vin[i] != before[i] && slot < 0 {
				slot = i
			}
		}
		return out, err
	})
	if slot >= 0 && o.Kind == Value && o.ReadErr == "" {
		// the list belongs to the caller (who may use it for its next call): Apply reads it
		o.ReadErr = fmt.Sprintf("Apply replaced entry %d of the input list it was handed", slot)
	}
	return o
}

// RunOpReused initialises ONE operator instance with the request's attributes,
// applies it to the request's inputs (outcome `first`; skipped with warmFirst), then to every warm-up
// input list (outcomes ignored, panics recovered) and then to the request's
// inputs again (outcome `last`). An operator instance carries only its
// attributes, so what it was applied to before must not matter; and what it
// returned earlier belongs to the caller: stale reports an output of the first
// call whose contents changed during the later calls.
func RunOpReused(r OpReq, warm [][]*ref.T, warmFirst bool) (last Outcome, first Outcome, stale string) {
	phase := "lookup"
	last = Capture(&phase, func() ([]tensor.Tensor, error) {
		op, err := opset13.GetOperator(r.Op)
		if err != nil {
			return nil, err
		}
		phase = "init"
		node := &onnx.NodeProto{OpType: r.Op, Name: "n0", Attribute: r.Attrs, Output: r.outNames()}
		for i := range r.Inputs {
			if r.Inputs[i] == nil {
				node.Input = append(node.Input, "")
			} else {
				node.Input = append(node.Input, fmt.Sprintf("i%d", i))
			}
		}
		if err := op.Init(node); err != nil {
			return nil, err
		}
		var firstFps []Fingerprint
		if !warmFirst { // (with warmFirst the instance meets the other input lists before it meets the request)
			first = Capture(nil, func() ([]tensor.Tensor, error) {
				vin, err := op.ValidateInputs(ToTensors(r.Inputs))
				if err != nil {
					return nil, err
				}
				return op.Apply(vin)
			})
		}
		for _, t := range first.Raw {
			firstFps = append(firstFps, Fp(t))
		}
		for _, w := range warm {
			ins := ToTensors(w)
			_ = Capture(nil, func() ([]tensor.Tensor, error) {
				vin, err := op.ValidateInputs(ins)
				if err != nil {
					return nil, err
				}
				res, err := op.Apply(vin)
				// the returned list is the caller's: it takes the tensors out and clears the list
				// (as a caller that recycles the list for its next call does)
				out := append([]tensor.Tensor{}, res...)
				for i := range res {
					res[i] = nil
				}
				return out, err
			})
		}
		phase = "validate"
		vin, err := op.ValidateInputs(ToTensors(r.Inputs))
		if err != nil {
			return nil, err
		}
		phase = "apply"
		out, err := op.Apply(vin)
		for i, t := range first.Raw {
			if ok, what := firstFps[i].Equal(Fp(t)); !ok && stale == "" {
				stale = fmt.Sprintf("output %d returned by the first call changed while the instance served later calls: %s", i, what)
			}
		}
		return out, err
	})
	return last, first, stale
}

// RunOpUpdatedInPlace applies one operator instance twice to the SAME tensor
// objects: first holding other values of the same shapes and types (the
// request's values rotated by one element), then - after the caller has
// overwritten the tensors' contents in place - holding the request's values.
// The outcome of the second call is returned: what an operator computes may
// depend on the current contents of its operands only, not on which objects
// they are or what they held before.
func RunOpUpdatedInPlace(r OpReq, reshaped bool) (Outcome, bool, string) {
	stale := ""
	ins := make([]tensor.Tensor, len(r.Inputs))
	touched := false
	for i, in := range r.Inputs {
		if in == nil {
			continue
		}
		w := in.Clone()
		if n := len(w.Bits); n > 1 {
			first := w.Bits[0]
			copy(w.Bits, w.Bits[1:])
			w.Bits[n-1] = first
			touched = true
		}
		ins[i] = ToTensor(w)
	}
	if !touched {
		return Outcome{}, false, ""
	}
	phase := "lookup"
	o := Capture(&phase, func() ([]tensor.Tensor, error) {
		op, err := opset13.GetOperator(r.Op)
		if err != nil {
			return nil, err
		}
		phase = "init"
		node := &onnx.NodeProto{OpType: r.Op, Name: "n0", Attribute: r.Attrs, Output: r.outNames()}
		for i := range r.Inputs {
			if r.Inputs[i] == nil {
				node.Input = append(node.Input, "")
			} else {
				node.Input = append(node.Input, fmt.Sprintf("i%d", i))
			}
		}
		if err := op.Init(node); err != nil {
			return nil, err
		}
		orig := append([]tensor.Tensor{}, ins...)
		// with `reshaped`, the first call sees operand 0 under another shape of the same rank (its
		// extents in reverse order); the owner reshapes the object back in place before the second
		var back []int
		if reshaped && r.Inputs[0] != nil && len(r.Inputs[0].Shape) >= 2 && orig[0] != nil {
			sh := r.Inputs[0].Shape
			rev := make([]int, len(sh))
			same := true
			for i := range sh {
				rev[i] = sh[len(sh)-1-i]
				if rev[i] != sh[i] {
					same = false
				}
			}
			if !same && orig[0].Reshape(rev...) == nil {
				back = append([]int{}, sh...)
			}
		}
		firstCall := Capture(nil, func() ([]tensor.Tensor, error) {
			vin, err := op.ValidateInputs(ins)
			if err != nil {
				return nil, err
			}
			return op.Apply(vin)
		})
		var firstFps []Fingerprint
		for _, t := range firstCall.Raw {
			firstFps = append(firstFps, Fp(t))
		}
		defer func() {
			// what the first call returned belongs to the caller: it must not change when the
			// instance is applied again (unless it IS one of the operands the caller overwrote)
			for i, t := range firstCall.Raw {
				alias := false
				for _, o := range orig {
					if o != nil && o == t {
						alias = true
					}
				}
				if ok, what := firstFps[i].Equal(Fp(t)); !ok && !alias && stale == "" {
					stale = fmt.Sprintf("output %d returned by the first call changed during the second call: %s", i, what)
				}
			}
		}()
		if back != nil {
			if err := orig[0].Reshape(back...); err != nil {
				return nil, fmt.Errorf("harness: cannot reshape operand 0 back in place: %v", err)
			}
		}
		// the caller overwrites the contents of ITS tensors (the objects it created) and
		// passes the very same list again
		for i, in := range r.Inputs {
			if in == nil || len(in.Bits) == 0 {
				continue
			}
			if !Overwrite(orig[i], in) {
				return nil, fmt.Errorf("harness: cannot overwrite operand %d in place", i)
			}
		}
		phase = "validate"
		vin, err := op.ValidateInputs(ins)
		if err != nil {
			return nil, err
		}
		phase = "apply"
		return op.Apply(vin)
	})
	if o.Kind == Error && strings.HasPrefix(o.Err.Error(), "harness:") {
		return o, false, ""
	}
	return o, true, stale
}

// Overwrite copies the values of v into the existing backing of t (same type,
// same number of elements); false when t cannot be written that way.
func Overwrite(t tensor.Tensor, v *ref.T) (ok bool) {
	defer func() {
		if recover() != nil {
			ok = false
		}
	}()
	src := reflect.ValueOf(backing(v))
	if len(v.Shape) == 0 { // a scalar tensor has no slice to write into: set the element
		return t.SetAt(src.Index(0).Interface()) == nil
	}
	dst := reflect.ValueOf(t.Data())
	if dst.Kind() != reflect.Slice || dst.Len() != src.Len() || dst.Type() != src.Type() {
		return false
	}
	reflect.Copy(dst, src)
	return true
}

// SharedRunner executes requests through the operator API (a fresh operator
// each). Operands that are the same *ref.T in several requests are converted
// once: every call receives the same tensor object, as a caller that builds a
// parameter tensor once and uses it for several calls would pass it.
type SharedRunner struct{ cache map[*ref.T]tensor.Tensor }

// NewSharedRunner returns a runner with an empty operand cache.
func NewSharedRunner() *SharedRunner { return &SharedRunner{cache: map[*ref.T]tensor.Tensor{}} }

// Run executes one request on the cached operand objects.
func (s *SharedRunner) Run(r OpReq) Outcome {
	ins := make([]tensor.Tensor, len(r.Inputs))
	for i, in := range r.Inputs {
		if in == nil {
			continue
		}
		t, ok := s.cache[in]
		if !ok {
			t = ToTensor(in)
			s.cache[in] = t
		}
		ins[i] = t
	}
	return runOpOn(r, ins)
}

// RunOpsShared executes the requests one after another on one SharedRunner.
func RunOpsShared(reqs []OpReq) []Outcome {
	sr := NewSharedRunner()
	outs := make([]Outcome, len(reqs))
	for j, r := range reqs {
		outs[j] = sr.Run(r)
	}
	return outs
}

// BuildOpsSharedModel renders the requests as one graph with one node per
// request; operands that are the same *ref.T become one graph input or (when
// isInit says so) one initializer consumed by several nodes. outNames[j] lists
// the graph output names of request j.
func BuildOpsSharedModel(reqs []OpReq, isInit func(*ref.T) bool, raw bool) (g *Graph, feed map[string]*ref.T, outNames [][]string) {
	g = &Graph{}
	feed = map[string]*ref.T{}
	names := map[*ref.T]string{}
	for j, r := range reqs {
		node := GNode{Op: r.Op, Attrs: r.Attrs}
		for _, in := range r.Inputs {
			if in == nil {
				node.Inputs = append(node.Inputs, "")
				continue
			}
			name, ok := names[in]
			if !ok {
				name = fmt.Sprintf("t%d", len(names))
				names[in] = name
				if isInit != nil && isInit(in) {
					g.Inits = append(g.Inits, GInit{Name: name, T: in, Raw: raw})
				} else {
					g.Inputs = append(g.Inputs, GInput{Name: name, DT: in.DT, Dims: FixedDims(in.Shape)})
					feed[name] = in
				}
			}
			node.Inputs = append(node.Inputs, name)
		}
		var outs []string
		for _, o := range r.outNames() {
			if o == "" {
				node.Outputs = append(node.Outputs, "")
				continue
			}
			n := fmt.Sprintf("n%d_%s", j, o)
			node.Outputs = append(node.Outputs, n)
			outs = append(outs, n)
			g.Outputs = append(g.Outputs, GInput{Name: n, NoType: true})
		}
		outNames = append(outNames, outs)
		g.Nodes = append(g.Nodes, node)
	}
	return g, feed, outNames
}

// RunOpsSharedModel runs the graph of BuildOpsSharedModel `runs` times on one
// loaded model (the same caller tensors every time) and returns, per run, the
// outcome of each request. A failing Run gives every request of that run the error.
func RunOpsSharedModel(reqs []OpReq, isInit func(*ref.T) bool, raw bool, runs int) [][]Outcome {
	g, feed, outNames := BuildOpsSharedModel(reqs, isInit, raw)
	res := make([][]Outcome, 0, runs)
	var m *gonnx.Model
	phase := "load"
	lo := Capture(&phase, func() ([]tensor.Tensor, error) {
		var err error
		m, err = gonnx.NewModelFromBytes(g.Bytes())
		return nil, err
	})
	if lo.Kind != Value {
		per := make([]Outcome, len(reqs))
		for j := range per {
			per[j] = lo
		}
		return append(res, per)
	}
	in := gonnx.Tensors{}
	for k, v := range feed {
		in[k] = ToTensor(v)
	}
	for n := 0; n < runs; n++ {
		var out gonnx.Tensors
		phase = "run"
		ro := Capture(&phase, func() ([]tensor.Tensor, error) {
			var err error
			out, err = m.Run(in)
			return nil, err
		})
		per := make([]Outcome, len(reqs))
		for j := range reqs {
			if ro.Kind != Value {
				per[j] = ro
				continue
			}
			names := outNames[j]
			per[j] = Capture(&phase, func() ([]tensor.Tensor, error) {
				ts := make([]tensor.Tensor, len(names))
				for i, nm := range names {
					ts[i] = out[nm]
				}
				return ts, nil
			})
		}
		res = append(res, per)
	}
	return res
}

// ModelOpts selects how a single-node model is laid out.
type ModelOpts struct {
	InitMask     uint64 // bit i set: input i is an initializer instead of a graph input
	RawInits     bool   // initializers use raw_data
	Truncate     bool   // drop trailing absent inputs instead of naming them ""
	DynamicIn    bool   // declare graph inputs with symbolic dimensions
	IR           int64  // ir_version of the model (0 = the usual one, < 0 = absent)
	NoNames      bool   // the node carries no name
	SpellDomains bool   // the node carries its domain explicitly
}

// BuildOpModel renders the request as a single-node model.
func BuildOpModel(r OpReq, mo ModelOpts) (*Graph, map[string]*ref.T) {
	g := &Graph{IR: mo.IR, NoNames: mo.NoNames, SpellDomains: mo.SpellDomains}
	feed := map[string]*ref.T{}
	node := GNode{Op: r.Op, Attrs: r.Attrs, Outputs: r.outNames()}
	names := map[*ref.T]string{} // one operand object at several positions = one graph value read twice
	last := len(r.Inputs)
	if mo.Truncate {
		for last > 0 && r.Inputs[last-1] == nil {
			last--
		}
	}
	for i := 0; i < last; i++ {
		in := r.Inputs[i]
		if in == nil {
			node.Inputs = append(node.Inputs, "")
			continue
		}
		if prev, ok := names[in]; ok {
			node.Inputs = append(node.Inputs, prev)
			continue
		}
		name := fmt.Sprintf("i%d", i)
		names[in] = name
		node.Inputs = append(node.Inputs, name)
		if mo.InitMask&(1<<uint(i)) != 0 {
			g.Inits = append(g.Inits, GInit{Name: name, T: in, Raw: mo.RawInits})
			continue
		}
		dims := FixedDims(in.Shape)
		if mo.DynamicIn {
			for k := range dims {
				dims[k] = Dim{Param: fmt.Sprintf("d%d", k)}
			}
		}
		g.Inputs = append(g.Inputs, GInput{Name: name, DT: in.DT, Dims: dims})
		feed[name] = in
	}
	g.Nodes = []GNode{node}
	for _, o := range node.Outputs {
		if o != "" {
			g.Outputs = append(g.Outputs, GInput{Name: o, NoType: true})
		}
	}
	return g, feed
}

// RunOpModel executes a request as a single-node model through
// NewModelFromBytes + Run. Outputs are returned in the order of the node's
// (non-empty) output names.
func RunOpModel(r OpReq, mo ModelOpts) Outcome {
	g, feed := BuildOpModel(r, mo)
	return RunGraph(g, feed)
}

// RunGraph loads the graph from its bytes and runs it once; outputs are in the
// order of g.Outputs.
func RunGraph(g *Graph, feed map[string]*ref.T) Outcome {
	bytes := g.Bytes()
	phase := "load"
	malformed := ""
	o := Capture(&phase, func() ([]tensor.Tensor, error) {
		m, err := gonnx.NewModelFromBytes(bytes)
		if err != nil {
			return nil, err
		}
		phase = "run"
		in := gonnx.Tensors{}
		for k, v := range feed {
			in[k] = ToTensor(v)
		}
		res, err := m.Run(in)
		if err != nil {
			return nil, err
		}
		out := make([]tensor.Tensor, len(g.Outputs))
		for i, o := range g.Outputs {
			t, ok := res[o.Name]
			if !ok {
				malformed = fmt.Sprintf("declared output %q missing from the result map (no error reported)", o.Name)
			}
			out[i] = t
		}
		if len(res) != len(uniqueNames(g.Outputs)) {
			malformed = fmt.Sprintf("result map has %d entries for %d declared outputs", len(res), len(g.Outputs))
		}
		return out, nil
	})
	if malformed != "" && o.Kind == Value {
		o.ReadErr = malformed
	}
	return o
}

func uniqueNames(ins []GInput) map[string]bool {
	m := map[string]bool{}
	for _, i := range ins {
		m[i.Name] = true
	}
	return m
}

// Traced is the result of a proxied Run.
type Traced struct {
	Outcome Outcome
	Events  []Event
	Model   *gonnx.Model
	LoadErr error
	Prior   int // proxy events produced by earlier Runs on the same model (RunGraphTracedAfter)
}

// RunGraphTraced loads the graph from its bytes, attaches the operator proxy
// (configure may set Inject/Yield) and runs it once.
func RunGraphTraced(g *Graph, feed map[string]*ref.T, configure func(*Proxy)) Traced {
	return RunGraphTracedAfter(g, feed, nil, configure)
}

// RunGraphTracedAfter is RunGraphTraced on a model that has already executed the given
// earlier Runs (their outcomes are ignored); Traced.Prior is the number of proxy events
// those earlier Runs produced.
func RunGraphTracedAfter(g *Graph, feed map[string]*ref.T, earlier []map[string]*ref.T, configure func(*Proxy)) Traced {
	bytes := g.Bytes()
	var tr Traced
	var px *Proxy
	phase := "load"
	malformed := ""
	tr.Outcome = Capture(&phase, func() ([]tensor.Tensor, error) {
		m, err := gonnx.NewModelFromBytes(bytes)
		if err != nil {
			tr.LoadErr = err
			return nil, err
		}
		tr.Model = m
		px = Attach(m)
		if configure != nil {
			configure(px)
		}
		phase = "earlier run"
		for _, f := range earlier {
			ein := gonnx.Tensors{}
			for k, v := range f {
				ein[k] = ToTensor(v)
			}
			_, _ = m.Run(ein)
		}
		tr.Prior = len(px.Events())
		phase = "run"
		in := gonnx.Tensors{}
		for k, v := range feed {
			in[k] = ToTensor(v)
		}
		res, err := m.Run(in)
		if err != nil {
			return nil, err
		}
		out := make([]tensor.Tensor, len(g.Outputs))
		for i, o := range g.Outputs {
			t, ok := res[o.Name]
			if !ok {
				malformed = fmt.Sprintf("declared output %q missing from the result map (no error reported)", o.Name)
			}
			out[i] = t
		}
		if len(res) != len(uniqueNames(g.Outputs)) {
			malformed = fmt.Sprintf("result map has %d entries for %d declared outputs", len(res), len(g.Outputs))
		}
		return out, nil
	})
	if malformed != "" && tr.Outcome.Kind == Value {
		tr.Outcome.ReadErr = malformed
	}
	if px != nil {
		tr.Events = px.Events()
	}
	return tr
}

// RunModelProto marshals mp, loads the bytes and runs the model with the given feed.
func RunModelProto(mp *onnx.ModelProto, feed map[string]*ref.T, outputs []string) Outcome {
	phase := "marshal"
	malformed := ""
	o := Capture(&phase, func() ([]tensor.Tensor, error) {
		b, err := proto.Marshal(mp)
		if err != nil {
			return nil, fmt.Errorf("verif: cannot marshal: %w", err)
		}
		phase = "load"
		m, err := gonnx.NewModelFromBytes(b)
		if err != nil {
			return nil, err
		}
		phase = "run"
		in := gonnx.Tensors{}
		for k, v := range feed {
			in[k] = ToTensor(v)
		}
		res, err := m.Run(in)
		if err != nil {
			return nil, err
		}
		out := make([]tensor.Tensor, len(outputs))
		for i, name := range outputs {
			t, ok := res[name]
			if !ok {
				malformed = fmt.Sprintf("declared output %q missing from the result map", name)
			}
			out[i] = t
		}
		return out, nil
	})
	if malformed != "" && o.Kind == Value {
		o.ReadErr = malformed
	}
	return o
}

// RunModelProtoDirect is RunModelProto through gonnx.NewModel on the proto object itself
// (no serialisation in between).
func RunModelProtoDirect(mp *onnx.ModelProto, feed map[string]*ref.T, outputs []string) Outcome {
	phase := "marshal"
	malformed := ""
	o := Capture(&phase, func() ([]tensor.Tensor, error) {
		phase = "load"
		m, err := gonnx.NewModel(mp)
		if err != nil {
			return nil, err
		}
		phase = "run"
		in := gonnx.Tensors{}
		for k, v := range feed {
			in[k] = ToTensor(v)
		}
		res, err := m.Run(in)
		if err != nil {
			return nil, err
		}
		out := make([]tensor.Tensor, len(outputs))
		for i, name := range outputs {
			t, ok := res[name]
			if !ok {
				malformed = fmt.Sprintf("declared output %q missing from the result map", name)
			}
			out[i] = t
		}
		return out, nil
	})
	if malformed != "" && o.Kind == Value {
		o.ReadErr = malformed
	}
	return o
}

// RunBytes loads model bytes and runs them once; outputs in the given order.
func RunBytes(b []byte, feed map[string]*ref.T, outputs []string) Outcome {
	phase := "load"
	malformed := ""
	o := Capture(&phase, func() ([]tensor.Tensor, error) {
		m, err := gonnx.NewModelFromBytes(b)
		if err != nil {
			return nil, err
		}
		phase = "run"
		in := gonnx.Tensors{}
		for k, v := range feed {
			in[k] = ToTensor(v)
		}
		res, err := m.Run(in)
		if err != nil {
			return nil, err
		}
		out := make([]tensor.Tensor, len(outputs))
		for i, name := range outputs {
			t, ok := res[name]
			if !ok {
				malformed = fmt.Sprintf("declared output %q missing from the result map", name)
			}
			out[i] = t
		}
		return out, nil
	})
	if malformed != "" && o.Kind == Value {
		o.ReadErr = malformed
	}
	return o
}

// Session is one loaded model that is run several times (histories).
type Session struct {
	M   *gonnx.Model
	Err error
}

// NewSession loads model bytes once.
func NewSession(b []byte) *Session {
	s := &Session{}
	o := Capture(nil, func() ([]tensor.Tensor, error) {
		var err error
		s.M, err = gonnx.NewModelFromBytes(b)
		return nil, err
	})
	if o.Kind == Panic {
		s.Err = fmt.Errorf("panic: %s", o.Panic)
	} else {
		s.Err = o.Err
	}
	return s
}

// RunTensors runs the session's model once on the given tensor objects (a caller that
// keeps its input buffers between Runs).
func (s *Session) RunTensors(in gonnx.Tensors, outputs []string) Outcome {
	return Capture(nil, func() ([]tensor.Tensor, error) {
		res, err := s.M.Run(in)
		if err != nil {
			return nil, err
		}
		out := make([]tensor.Tensor, len(outputs))
		for i, name := range outputs {
			out[i] = res[name]
		}
		return out, nil
	})
}

// Run runs the session's model once with fresh tensors built from feed.
func (s *Session) Run(feed map[string]*ref.T, outputs []string) Outcome {
	return Capture(nil, func() ([]tensor.Tensor, error) {
		in := gonnx.Tensors{}
		for k, v := range feed {
			in[k] = ToTensor(v)
		}
		res, err := s.M.Run(in)
		if err != nil {
			return nil, err
		}
		out := make([]tensor.Tensor, len(outputs))
		for i, name := range outputs {
			out[i] = res[name]
		}
		return out, nil
	})
}

// ProtoFingerprint hashes the numeric payloads held by the model's decoded proto
// (hook VerifModelProto): every initializer message and every node attribute
// that carries a tensor or floats (Constant values, Scaler/LinearRegressor
// coefficients). Operators wrap these protobuf slices into tensors without
// copying, so an in-place write on such a tensor alters the model's weights and
// shows up here. Integer attributes and names are not included.
func ProtoFingerprint(m *gonnx.Model) uint64 {
	h := uint64(1469598103934665603)
	mix := func(msg proto.Message) {
		b, err := proto.MarshalOptions{Deterministic: true}.Marshal(msg)
		if err != nil {
			return
		}
		for _, x := range b {
			h ^= uint64(x)
			h *= 1099511628211
		}
		h ^= 0xff
		h *= 1099511628211
	}
	g := m.VerifModelProto().GetGraph()
	for _, t := range g.GetInitializer() {
		mix(t)
	}
	for _, n := range g.GetNode() {
		for _, a := range n.GetAttribute() {
			switch a.GetType() {
			case onnx.AttributeProto_TENSOR, onnx.AttributeProto_TENSORS, onnx.AttributeProto_FLOATS, onnx.AttributeProto_FLOAT:
				mix(a)
			}
		}
	}
	return h
}

// RunOpOnWrapped executes the request through the operator API with every operand
// passed through wrap (e.g. into a caller's own type that implements tensor.Tensor by
// embedding *tensor.Dense).
func RunOpOnWrapped(r OpReq, wrap func(tensor.Tensor) tensor.Tensor) Outcome {
	ins := ToTensors(r.Inputs)
	for i, t := range ins {
		if t != nil {
			ins[i] = wrap(t)
		}
	}
	return runOpOn(r, ins)
}
