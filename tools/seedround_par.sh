#!/bin/bash
# seedround_par.sh <out-root> <lanes> [A B ...] — tools/seedround.sh on <lanes> private copies:
# lane k has its own worktree of /repo (/tmp/ev/k/repo) and its own copy of /verif's working tree
# (/tmp/ev/k/verif, harness go.mod replace pointing at the lane's repo), so that changes can be
# evaluated side by side. EVALUATION ONLY: evidence and registered checks always come from /verif
# against /repo itself; a change the lanes report as missed is re-run with tools/seedtest.sh on /repo.
ROOT=${1:-/tmp/sb/out}; LANES=${2:-4}; shift 2
VARS=${@:-A B}
rm -rf /tmp/ev; mkdir -p /tmp/ev
items=()
for d in $(ls -d $ROOT/C*); do for v in $VARS; do items+=("$(basename $d)/$v"); done; done
for k in $(seq 1 $LANES); do
  mkdir -p /tmp/ev/$k/verif
  git -C /repo worktree add -q --detach /tmp/ev/$k/repo HEAD
  rsync -a --exclude .git --exclude seeded --exclude bin --exclude .work --exclude replays --exclude evidence /verif/ /tmp/ev/$k/verif/
  sed -i "s#=> /repo#=> /tmp/ev/$k/repo#" /tmp/ev/$k/verif/harness/go.mod
done
lane() {
  k=$1; i=$((k-1))
  while [ $i -lt ${#items[@]} ]; do
    it=${items[$i]}; p=${it%/*}; v=${it#*/}; d=$ROOT/$p
    if [ ! -f $d/$v/patch.diff ]; then echo "$p/$v no deliverable"; else
    out=$(REPO=/tmp/ev/$k/repo CHECK_SH=/tmp/ev/$k/verif/check.sh /verif/tools/seedtest.sh $p $d/$v 2>&1)
    echo "$out" > /tmp/ev/$p-$v.out
    before=$(echo "$out" | sed -n '/demo WITHOUT/,/applying patch/p' | grep -c "^--- FAIL\|DATA RACE\|^FAIL")
    with=$(echo "$out" | sed -n '/demo WITH the change/,/my checks/p' | grep -c "^--- FAIL\|DATA RACE")
    suite=$(echo "$out" | sed -n '/suite WITH/,/demo WITH/p' | grep "^--- FAIL" | grep -vc TestOps)
    apply=$(echo "$out" | grep -c "DOES NOT APPLY")
    rc=$(echo "$out" | grep -m1 "^check " | sed 's/.*exit=//')
    sig=$(echo "$out" | grep -v KNOWN | grep -m1 "signature=" | sed 's/^ *signature=//' | cut -d' ' -f1 | cut -c1-90)
    echo "$p/$v before=$([ $before -eq 0 ] && echo pass || echo FAIL) suite=$([ $suite -eq 0 ] && echo ok || echo BROKEN) with=$([ $with -gt 0 ] && echo FAIL || echo pass) apply=$([ $apply -eq 0 ] && echo ok || echo NO) check=$rc $sig"
    fi
    i=$((i+LANES))
  done
}
for k in $(seq 1 $LANES); do lane $k & done
wait
for k in $(seq 1 $LANES); do git -C /repo worktree remove --force /tmp/ev/$k/repo; done
rm -rf /tmp/ev/[0-9]*
git -C /repo status --short | head -3
