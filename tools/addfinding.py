#!/usr/bin/env python3
"""addfinding.py fixed <prop> <commit> <what>   |   addfinding.py known <prop> <signature> <what>"""
import json, sys
p = '/verif/known_findings.json'
d = json.load(open(p))
kind, prop = sys.argv[1], sys.argv[2]
if kind == 'fixed':
    d['findings'].append({"status": "fixed", "property": prop, "commit": sys.argv[3], "what": sys.argv[4]})
else:
    d['findings'].append({"status": "known", "property": prop, "signature": sys.argv[3], "what": sys.argv[4]})
json.dump(d, open(p, 'w'), indent=1)
