package ref

import "math"

// less reports element ordering for ReduceMax/Min/ArgMax in the type's own order.
func (t *T) less(i, j int) bool {
	switch {
	case t.DT.IsFloat():
		return t.F(i) < t.F(j)
	case t.DT.IsUnsigned():
		return t.Bits[i] < t.Bits[j]
	default:
		return t.I(i) < t.I(j)
	}
}

// HasNaN reports whether a float tensor contains a NaN.
func (t *T) HasNaN() bool {
	if !t.DT.IsFloat() {
		return false
	}
	for i := range t.Bits {
		if v := t.F(i); v != v {
			return true
		}
	}
	return false
}

// reduceShape returns the output shape and, per output element, nothing else;
// red[d] marks reduced axes.
func reduceShape(shape []int, red []bool, keep bool) []int {
	var out []int
	for d, e := range shape {
		switch {
		case !red[d]:
			out = append(out, e)
		case keep:
			out = append(out, 1)
		}
	}
	if out == nil {
		out = []int{}
	}
	return out
}

// forEachReduce calls fn(outIndex, inIndex) for every input element, where
// outIndex is the flat index into the reduced (keepdims-independent) output.
func forEachReduce(shape []int, red []bool, fn func(o, i int)) int {
	r := len(shape)
	oshape := make([]int, r)
	for d := range shape {
		if red[d] {
			oshape[d] = 1
		} else {
			oshape[d] = shape[d]
		}
	}
	c := make([]int, r)
	oc := make([]int, r)
	n := NumElems(shape)
	for i := 0; i < n; i++ {
		Unravel(i, shape, c)
		for d := range c {
			if red[d] {
				oc[d] = 0
			} else {
				oc[d] = c[d]
			}
		}
		fn(Ravel(oc, oshape), i)
	}
	return NumElems(oshape)
}

// ArgMax implements ONNX ArgMax (first occurrence, int64).
func ArgMax(t *T, axis int, keepdims bool) (*T, error) {
	r := t.Rank()
	ax, ok := NormAxis(axis, r)
	if !ok {
		return nil, invalid("argmax axis %d for rank %d", axis, r)
	}
	red := make([]bool, r)
	red[ax] = true
	best := map[int]int{}
	c := make([]int, r)
	nOut := forEachReduce(t.Shape, red, func(o, i int) {
		b, seen := best[o]
		if !seen || t.less(b, i) {
			best[o] = i
		}
	})
	out := New(I64, reduceShape(t.Shape, red, keepdims)...)
	for o := 0; o < nOut; o++ {
		Unravel(best[o], t.Shape, c)
		out.Bits[o] = uint64(int64(c[ax]))
	}
	return out, nil
}

// ReduceMaxMin implements ONNX ReduceMax / ReduceMin (axes nil = all axes).
func ReduceMaxMin(t *T, axes []int64, keepdims bool, max bool) (*T, error) {
	r := t.Rank()
	red := make([]bool, r)
	if axes == nil {
		for i := range red {
			red[i] = true
		}
	} else {
		na, err := normAxes(axes, r)
		if err != nil {
			return nil, err
		}
		for _, a := range na {
			red[a] = true
		}
	}
	best := map[int]int{}
	nOut := forEachReduce(t.Shape, red, func(o, i int) {
		b, seen := best[o]
		if !seen {
			best[o] = i
			return
		}
		if (max && t.less(b, i)) || (!max && t.less(i, b)) {
			best[o] = i
		}
	})
	out := New(t.DT, reduceShape(t.Shape, red, keepdims)...)
	for o := 0; o < nOut; o++ {
		out.Bits[o] = t.Bits[best[o]]
	}
	return out, nil
}

// Softmax implements ONNX Softmax-13 / LogSoftmax-13 along one axis, in float64
// with max-subtraction; the tolerance is the one of DESIGN §2.4.3.
func Softmax(t *T, axis int, log bool) (*Approx, error) {
	r := t.Rank()
	ax, ok := NormAxis(axis, r)
	if !ok {
		return nil, invalid("softmax axis %d for rank %d", axis, r)
	}
	red := make([]bool, r)
	red[ax] = true
	k := t.Shape[ax]
	mx := map[int]float64{}
	forEachReduce(t.Shape, red, func(o, i int) {
		v := t.F(i)
		if b, seen := mx[o]; !seen || v > b || b != b {
			mx[o] = v
		}
		if v != v {
			mx[o] = v
		}
	})
	sum := map[int]float64{}
	forEachReduce(t.Shape, red, func(o, i int) { sum[o] += math.Exp(t.F(i) - mx[o]) })
	out := New(t.DT, t.Shape...)
	tol := make([]float64, len(out.Bits))
	u := unitRoundoff(t.DT)
	forEachReduce(t.Shape, red, func(o, i int) {
		x := t.F(i)
		var y float64
		if log {
			y = x - mx[o] - math.Log(sum[o])
			tol[i] = 16*u*(1+math.Abs(x)+math.Abs(mx[o])+math.Log(float64(k))) + smallestNormal(t.DT)
		} else {
			y = math.Exp(x-mx[o]) / sum[o]
			// relative error of exp(x-m) evaluated in precision u grows with |x-m|
			tol[i] = 16*u*(1+math.Abs(x-mx[o]))*y + 16*u*math.Min(math.Abs(x)+math.Abs(mx[o]), 128)*y + 4*smallestNormal(t.DT)
			if t.DT == F32 {
				tol[i] += 0x1p-140 // results below the smallest subnormal may flush
			}
		}
		out.Bits[i] = EncF(t.DT, y)
	})
	return &Approx{T: out, Tol: tol}, nil
}
