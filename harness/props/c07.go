package props

import (
	"fmt"
	"math"

	"verif/harness/gen"
	"verif/harness/mon"
	"verif/harness/ref"
)

// C07 — Reshape, Flatten, Squeeze, Unsqueeze, Shape.

func init() {
	Register(&Property{
		ID:    "C07",
		Title: "Reshape, Flatten, Squeeze, Unsqueeze, Shape keep element order, give ONNX shape",
		Cases: func(tier string) int {
			switch tier {
			case "thorough":
				return len(c07Enum) + 8000000
			case "race":
				return 60000
			}
			return 1500000
		},
		Run:            c07Run,
		Floor:          func(tier string) int { return 5000 },
		Rule:           "(Unsqueeze inputs up to rank 9) generated requests for Reshape (targets built from factorisations of the element count with 0 and -1 inserted at every position; invalid: count mismatch, two -1, entry < -1, 0 beyond the input rank, non-dividing -1), Flatten (axis over [-rank-2, rank+2]), Squeeze (axes absent / every subset of extent-1 axes in any order and sign spelling; invalid: out of range, duplicates incl. via negative spelling, extent != 1), Unsqueeze (any set of output positions, any order and sign; invalid: duplicates, out of range), Shape; input ranks 0..5, all 14 element types, unique-valued inputs so element order is identified; through the operator API and every 4th case through Run. Both tiers first enumerate completely, for every shape of rank 0..3 with extents {1,2}: every Flatten axis in [-rank-2, rank+2], every non-empty axis subset for Squeeze and every set of 1..2 output positions for Unsqueeze, each in every order and every sign spelling. Valid => exact tensor (MUST_EQUAL), ONNX-invalid => error (MUST_ERROR). Non-trivial = the request changes the shape or is invalid; distinct = (operator, dtype, input shape, parameters)." + ruleShared + ruleReused,
		RaceInThorough: true,
		Technique:      "runtime monitoring: differential execution against the reference shape algebra with exact comparison; invalid requests must produce an error",
		Assumptions:    []string{"ONNX validity rules as written in DESIGN.md Appendix A.7"},
	})
	validGens["Reshape"] = func(r *gen.R, _ bool) (mon.OpReq, Expect, bool) { return genReshape(r, true) }
	validGens["Flatten"] = func(r *gen.R, _ bool) (mon.OpReq, Expect, bool) { return genFlatten(r, true) }
	validGens["Squeeze"] = func(r *gen.R, _ bool) (mon.OpReq, Expect, bool) { return genSqueeze(r, true) }
	validGens["Unsqueeze"] = func(r *gen.R, _ bool) (mon.OpReq, Expect, bool) { return genUnsqueeze(r, true) }
	validGens["Shape"] = func(r *gen.R, _ bool) (mon.OpReq, Expect, bool) { return genShape(r) }
}

// c07Enum is the bounded-exhaustive part (both tiers): every axis set for Squeeze and
// Unsqueeze on inputs of rank <= 3 - every subset of the valid axes, in every order and in
// every sign spelling - plus every Flatten axis in [-rank-2, rank+2] for those shapes.
type c07EnumCase struct {
	op    string
	shape []int
	axes  []int64
	axis  int
}

var c07Enum = func() []c07EnumCase {
	var out []c07EnumCase
	var shapes [][]int
	var rec func(p []int, rank int)
	rec = func(p []int, rank int) {
		if len(p) == rank {
			shapes = append(shapes, append([]int{}, p...))
			return
		}
		for _, e := range []int{1, 2} {
			rec(append(p, e), rank)
		}
	}
	for r := 0; r <= 3; r++ {
		rec(nil, r)
	}
	var orderings func(items []int) [][]int
	orderings = func(items []int) [][]int {
		if len(items) <= 1 {
			return [][]int{append([]int{}, items...)}
		}
		var res [][]int
		for i := range items {
			rest := append(append([]int{}, items[:i]...), items[i+1:]...)
			for _, o := range orderings(rest) {
				res = append(res, append([]int{items[i]}, o...))
			}
		}
		return res
	}
	spellings := func(axes []int, rank int, emit func([]int64)) {
		for mask := 0; mask < 1<<uint(len(axes)); mask++ {
			sp := make([]int64, len(axes))
			for i, a := range axes {
				sp[i] = int64(a)
				if mask&(1<<uint(i)) != 0 {
					sp[i] = int64(a - rank)
				}
			}
			emit(sp)
		}
	}
	for _, sh := range shapes {
		r := len(sh)
		for a := -r - 2; a <= r+2; a++ {
			out = append(out, c07EnumCase{op: "Flatten", shape: sh, axis: a})
		}
		// Squeeze: non-empty subsets of ALL axes (axes of extent 2 make the request invalid)
		for sub := 1; sub < 1<<uint(r); sub++ {
			var items []int
			for d := 0; d < r; d++ {
				if sub&(1<<uint(d)) != 0 {
					items = append(items, d)
				}
			}
			for _, o := range orderings(items) {
				spellings(o, r, func(sp []int64) { out = append(out, c07EnumCase{op: "Squeeze", shape: sh, axes: sp}) })
			}
		}
		// Unsqueeze: k = 1..2 new axes at every set of output positions
		for k := 1; k <= 2; k++ {
			R := r + k
			for sub := 1; sub < 1<<uint(R); sub++ {
				var items []int
				for d := 0; d < R; d++ {
					if sub&(1<<uint(d)) != 0 {
						items = append(items, d)
					}
				}
				if len(items) != k {
					continue
				}
				for _, o := range orderings(items) {
					spellings(o, R, func(sp []int64) { out = append(out, c07EnumCase{op: "Unsqueeze", shape: sh, axes: sp}) })
				}
			}
		}
	}
	return out
}()

func c07RunEnum(c *Ctx, e c07EnumCase) {
	dt := gen.Data13[c.Idx%len(gen.Data13)]
	x := c.R.Tensor(dt, e.shape, gen.FillUnique, 0)
	var req mon.OpReq
	var exp Expect
	switch e.op {
	case "Flatten":
		req = mon.OpReq{Op: "Flatten", Inputs: []*ref.T{x}, Attrs: []*mon.Attr{mon.AttrI("axis", int64(e.axis))}}
		exp = expFrom(ref.Flatten(x, e.axis))
	case "Squeeze":
		req = mon.OpReq{Op: "Squeeze", Inputs: []*ref.T{x, gen.I64s(e.axes...)}}
		exp = expFrom(ref.Squeeze(x, e.axes, true))
	default:
		req = mon.OpReq{Op: "Unsqueeze", Inputs: []*ref.T{x, gen.I64s(e.axes...)}}
		exp = expFrom(ref.Unsqueeze(x, e.axes))
	}
	c.SetCase("[enumerated] %s", req.Describe())
	c.Nontrivial(fmt.Sprintf("enum|%s|%v|%v|%d", e.op, e.shape, e.axes, e.axis))
	c.Count("enumerated:"+e.op, 1)
	exotic := dt == ref.C64 || dt == ref.C128 // cannot be stored in (or loaded from) a model file
	CheckOp(c, req, exp, c.Idx%8 == 0 && !exotic, mon.ModelOpts{InitMask: uint64(c.R.Intn(4)), RawInits: c.R.Bool()}, c07Known)
}

func c07Input(r *gen.R, minRank int) *ref.T {
	dt := gen.Data13[r.Intn(len(gen.Data13))]
	if r.Chance(0.5) {
		dt = r.PickDT(ref.F32, ref.F32, ref.I64, ref.F64, ref.Bool)
	}
	shape := r.Shape(minRank, 5, 4, 120)
	return r.Tensor(dt, shape, gen.FillUnique, 0)
}

func expFrom(t *ref.T, err error) Expect {
	if err != nil {
		return Expect{Kind: MustError, Why: err.Error()}
	}
	return Expect{Kind: MustEqual, Want: Exact(t), Mode: CmpBits, Why: "valid request"}
}

// factorise splits n into k factors (random).
func factorise(r *gen.R, n, k int) []int64 {
	if k == 0 {
		return []int64{}
	}
	out := make([]int64, k)
	rem := n
	for i := 0; i < k-1; i++ {
		var divs []int
		for d := 1; d <= rem; d++ {
			if rem%d == 0 {
				divs = append(divs, d)
			}
		}
		d := divs[r.Intn(len(divs))]
		if r.Chance(0.4) {
			d = 1
		}
		out[i] = int64(d)
		rem /= d
	}
	out[k-1] = int64(rem)
	p := r.Perm(k)
	sh := make([]int64, k)
	for i, j := range p {
		sh[i] = out[j]
	}
	return sh
}

func genReshape(r *gen.R, validOnly bool) (mon.OpReq, Expect, bool) {
	x := c07Input(r, 0)
	total := len(x.Bits)
	k := r.Range(0, 5)
	if total != 1 && k == 0 {
		k = 1
	}
	target := factorise(r, total, k)
	// spell some entries as 0 (copy input dim) where that is equivalent
	for i := range target {
		if i < x.Rank() && int64(x.Shape[i]) == target[i] && r.Chance(0.4) {
			target[i] = 0
		}
	}
	if k > 0 && r.Chance(0.45) {
		target[r.Intn(k)] = -1
	}
	if !validOnly && r.Chance(0.3) {
		switch r.Intn(7) {
		case 0: // count mismatch
			if k > 0 {
				target[r.Intn(k)] += int64(r.Range(1, 3))
			}
		case 1: // two -1
			if k >= 2 {
				p := r.Perm(k)
				target[p[0]], target[p[1]] = -1, -1
			}
		case 2: // entry < -1
			if k > 0 {
				target[r.Intn(k)] = int64(-r.Range(2, 5))
			}
		case 3: // 0 beyond the input rank
			target = append(target, 0)
			for len(target) <= x.Rank() {
				target = append(target, 0)
			}
		case 4: // -1 that does not divide
			if k >= 2 {
				p := r.Perm(k)
				target[p[0]] = -1
				target[p[1]] = int64(total + 1 + r.Intn(3))
			}
		case 6: // a -1 next to entries whose product overflows int64 (to 0 or to a divisor of the count)
			huge := [][]int64{{1 << 32, 1 << 32}, {1 << 62, 4}, {3, 6148914691236517206}, {math.MaxInt64, math.MaxInt64}, {1 << 33, 1 << 31}, {5, 3689348814741910324}, {1<<63 - 1, 2}}[r.Intn(7)]
			target = append([]int64{-1}, huge...)
			if r.Bool() {
				target = append(huge, -1)
			}
			if r.Chance(0.3) {
				target = append(target, int64(total))
			}
			if r.Chance(0.3) { // no -1 at all: a product that wraps around to the element count
				target = [][]int64{{int64(total), math.MaxInt64, math.MaxInt64}, {1 << 32, 1 << 32, int64(total)}, {math.MaxInt64, int64(total), math.MaxInt64}}[r.Intn(3)]
			}
		case 5: // 0 copies a dim that breaks the count
			if x.Rank() > 0 && k > 0 {
				target[0] = 0
				if k > 1 {
					target[1] = int64(total)
				}
			}
		}
	}
	want, err := ref.Reshape(x, target)
	req := mon.OpReq{Op: "Reshape", Inputs: []*ref.T{x, gen.I64s(target...)}}
	if !validOnly && len(target) == 1 && r.Chance(0.25) {
		// the shape given as a rank-0 tensor holding the one extent (not a 1-D tensor, as ONNX
		// asks): refused, or read as the list of that one extent - never as "no extents"
		req.Inputs[1] = ref.FromI(ref.I64, []int{}, []int64{target[0]})
		exp := expFrom(want, err)
		if exp.Kind == MustEqual {
			exp.Kind, exp.Why = MayRefuse, "the shape operand has rank 0"
		}
		return req, exp, true
	}
	return req, expFrom(want, err), true
}

func genFlatten(r *gen.R, validOnly bool) (mon.OpReq, Expect, bool) {
	x := c07Input(r, 0)
	rank := x.Rank()
	axis := r.Range(-rank-2, rank+2)
	if validOnly {
		axis = r.Range(-rank, rank)
	} else if r.Chance(0.03) {
		axis = int(extremeAxis(r))
	}
	req := mon.OpReq{Op: "Flatten", Inputs: []*ref.T{x}}
	if axis != 1 || r.Bool() {
		req.Attrs = append(req.Attrs, mon.AttrI("axis", int64(axis)))
	}
	want, err := ref.Flatten(x, axis)
	return req, expFrom(want, err), true
}

func spell(r *gen.R, axis, rank int) int64 {
	if r.Bool() {
		return int64(axis - rank)
	}
	return int64(axis)
}

func genSqueeze(r *gen.R, validOnly bool) (mon.OpReq, Expect, bool) {
	// inputs with several extent-1 axes
	rank := r.Range(0, 5)
	shape := make([]int, rank)
	n := 1
	for i := range shape {
		if r.Chance(0.55) {
			shape[i] = 1
		} else {
			shape[i] = r.Range(2, 4)
		}
		n *= shape[i]
	}
	if n > 120 {
		return mon.OpReq{}, Expect{}, false
	}
	dt := gen.Data13[r.Intn(len(gen.Data13))]
	x := r.Tensor(dt, shape, gen.FillUnique, 0)
	req := mon.OpReq{Op: "Squeeze", Inputs: []*ref.T{x}}
	if r.Chance(0.25) {
		if r.Bool() {
			req.Inputs = append(req.Inputs, nil) // explicitly skipped
		}
		want, err := ref.Squeeze(x, nil, false)
		return req, expFrom(want, err), true
	}
	var ones []int
	for i, e := range shape {
		if e == 1 {
			ones = append(ones, i)
		}
	}
	var axes []int64
	for _, i := range r.Perm(len(ones)) {
		if r.Chance(0.6) {
			axes = append(axes, spell(r, ones[i], rank))
		}
	}
	if !validOnly && r.Chance(0.35) {
		switch r.Intn(4) {
		case 0: // out of range
			axes = append(axes, int64(r.PickInt(rank, rank+1, -rank-1, -rank-2, 7)))
			if r.Chance(0.15) {
				axes[len(axes)-1] = extremeAxis(r)
			}
		case 1: // literal duplicate
			if len(axes) > 0 {
				axes = append(axes, axes[r.Intn(len(axes))])
			}
		case 2: // duplicate via the other sign spelling
			if len(axes) > 0 {
				a := axes[r.Intn(len(axes))]
				if a < 0 {
					axes = append(axes, a+int64(rank))
				} else {
					axes = append(axes, a-int64(rank))
				}
			}
		case 3: // extent != 1
			for i, e := range shape {
				if e != 1 {
					axes = append(axes, spell(r, i, rank))
					break
				}
			}
		}
	}
	if len(axes) == 0 {
		// an empty axes tensor has no agreed meaning (squeeze nothing vs. squeeze all): outside the domain
		return mon.OpReq{}, Expect{}, false
	}
	req.Inputs = append(req.Inputs, gen.I64s(axes...))
	want, err := ref.Squeeze(x, axes, true)
	return req, expFrom(want, err), true
}

func genUnsqueeze(r *gen.R, validOnly bool) (mon.OpReq, Expect, bool) {
	x := c07Input(r, 0)
	if r.Chance(0.08) { // ranks 6..9, mostly extent 1
		shape := make([]int, r.Range(6, 9))
		for i := range shape {
			shape[i] = 1
			if r.Chance(0.3) {
				shape[i] = r.Range(2, 3)
			}
		}
		x = r.Tensor(x.DT, shape, gen.FillUnique, 0)
	}
	k := r.Range(1, 3)
	if r.Chance(0.03) {
		k = r.Range(4, 8)
	}
	R := x.Rank() + k
	p := r.Perm(R)[:k]
	axes := make([]int64, k)
	for i, a := range p {
		axes[i] = spell(r, a, R)
	}
	if !validOnly && r.Chance(0.3) {
		switch r.Intn(3) {
		case 0:
			axes[r.Intn(k)] = int64(r.PickInt(R, R+1, -R-1, -R-3))
			if r.Chance(0.15) {
				axes[r.Intn(k)] = extremeAxis(r)
			}
		case 1:
			axes = append(axes, axes[r.Intn(k)])
		case 2:
			a := axes[r.Intn(k)]
			Rn := int64(R + 1)
			if a < 0 {
				axes = append(axes, a+Rn)
			} else {
				axes = append(axes, a-Rn)
			}
		}
	}
	req := mon.OpReq{Op: "Unsqueeze", Inputs: []*ref.T{x, gen.I64s(axes...)}}
	want, err := ref.Unsqueeze(x, axes)
	return req, expFrom(want, err), true
}

func genShape(r *gen.R) (mon.OpReq, Expect, bool) {
	x := c07Input(r, 0)
	return mon.OpReq{Op: "Shape", Inputs: []*ref.T{x}}, expFrom(ref.ShapeOf(x), nil), true
}

func c07Run(c *Ctx) {
	if c.Idx == 0 {
		c07StringProbe(c)
	}
	if c.Tier != "race" && c.Idx < len(c07Enum) {
		c07RunEnum(c, c07Enum[c.Idx])
		return
	}
	if c.Idx%16 == 9 {
		c07Shared(c)
		return
	}
	var req mon.OpReq
	var exp Expect
	ok := false
	switch c.R.Intn(10) {
	case 0, 1, 2:
		req, exp, ok = genReshape(c.R, false)
	case 3, 4:
		req, exp, ok = genFlatten(c.R, false)
	case 5, 6:
		req, exp, ok = genSqueeze(c.R, false)
	case 7, 8:
		req, exp, ok = genUnsqueeze(c.R, false)
	default:
		req, exp, ok = genShape(c.R)
	}
	if !ok {
		c.Skip("generator rejected the draw")
		return
	}
	c.SetCase("%s", req.Describe())
	x := req.Inputs[0]
	if exp.Kind == MustError || (len(exp.Want) > 0 && !ref.ShapeEq(exp.Want[0].T.Shape, x.Shape)) || req.Op == "Shape" {
		params := ""
		if len(req.Inputs) > 1 && req.Inputs[1] != nil {
			params = fmt.Sprint(req.Inputs[1].Ints())
		}
		for _, a := range req.Attrs {
			params += mon.AttrString(a)
		}
		c.Nontrivial(fmt.Sprintf("%s|%v|%v|%s", req.Op, x.DT, x.Shape, params))
	}
	c.Distinct("operator-dtype", req.Op+"/"+x.DT.String())
	mo := mon.ModelOpts{InitMask: uint64(c.R.Intn(4)), RawInits: c.R.Bool(), Truncate: c.R.Bool()}
	if x.DT == ref.C64 || x.DT == ref.C128 || x.DT == ref.Str {
		mo.InitMask &^= 1 // these types cannot be stored as initializers
	}
	viaModel := c.Idx%4 == 0 && !(x.DT == ref.C64 || x.DT == ref.C128 || x.DT == ref.Str)
	CheckOp(c, req, exp, viaModel, mo, c07Known)
	if c.Idx%9000 == 3 {
		s := map[string]any{"request": trunc(req.Describe(), 300), "expectation": exp.Kind.String(), "why": exp.Why}
		if len(exp.Want) > 0 && exp.Want[0] != nil {
			s["expected"] = trunc(exp.Want[0].T.String(), 160)
		}
		c.Sample(s)
	}
}

func c07Known(req mon.OpReq, exp Expect, o mon.Outcome, v Verdict) string { return "" }
