package ref

import (
	"errors"
	"math"
)

// ErrUndefined marks a request outside the domain of the property (e.g. integer
// division by zero, which ONNX leaves undefined). Such cases are skipped.
var ErrUndefined = errors.New("undefined per ONNX (outside the property's domain)")

// BinaryOps lists the twelve elementwise binary operators of C03.
var BinaryOps = []string{"Add", "Sub", "Mul", "Div", "Equal", "Greater", "GreaterOrEqual", "Less", "LessOrEqual", "And", "Or", "Xor"}

// IsArith reports whether op is one of Add/Sub/Mul/Div.
func IsArith(op string) bool { return op == "Add" || op == "Sub" || op == "Mul" || op == "Div" }

// IsLogic reports whether op is And/Or/Xor.
func IsLogic(op string) bool { return op == "And" || op == "Or" || op == "Xor" }

// Binary evaluates an elementwise binary operator with multidirectional
// broadcasting. Both operands must have the same element type.
func Binary(op string, a, b *T) (*T, error) {
	if a.DT != b.DT {
		return nil, invalid("operand types differ: %v vs %v", a.DT, b.DT)
	}
	shape, err := BroadcastShape(a.Shape, b.Shape)
	if err != nil {
		return nil, err
	}
	outDT := a.DT
	if !IsArith(op) {
		outDT = Bool
	}
	out := New(outDT, shape...)
	for i := range out.Bits {
		x := a.Bits[SrcIndex(i, shape, a.Shape)]
		y := b.Bits[SrcIndex(i, shape, b.Shape)]
		v, err := scalarBinary(op, a.DT, x, y)
		if err != nil {
			return nil, err
		}
		out.Bits[i] = v
	}
	return out, nil
}

func b2u(b bool) uint64 {
	if b {
		return 1
	}
	return 0
}

func scalarBinary(op string, dt DType, x, y uint64) (uint64, error) {
	switch {
	case IsLogic(op):
		if dt != Bool {
			return 0, invalid("%s on %v", op, dt)
		}
		p, q := x != 0, y != 0
		switch op {
		case "And":
			return b2u(p && q), nil
		case "Or":
			return b2u(p || q), nil
		default:
			return b2u(p != q), nil
		}
	case dt == F32:
		p, q := math.Float32frombits(uint32(x)), math.Float32frombits(uint32(y))
		switch op {
		case "Add":
			return uint64(math.Float32bits(p + q)), nil
		case "Sub":
			return uint64(math.Float32bits(p - q)), nil
		case "Mul":
			return uint64(math.Float32bits(p * q)), nil
		case "Div":
			return uint64(math.Float32bits(p / q)), nil
		}
		return cmpF(op, float64(p), float64(q)), nil
	case dt == F64:
		p, q := math.Float64frombits(x), math.Float64frombits(y)
		switch op {
		case "Add":
			return math.Float64bits(p + q), nil
		case "Sub":
			return math.Float64bits(p - q), nil
		case "Mul":
			return math.Float64bits(p * q), nil
		case "Div":
			return math.Float64bits(p / q), nil
		}
		return cmpF(op, p, q), nil
	case dt.IsSigned():
		p, q := int64(x), int64(y)
		switch op {
		case "Add":
			return WrapI(dt, p+q), nil
		case "Sub":
			return WrapI(dt, p-q), nil
		case "Mul":
			return WrapI(dt, p*q), nil
		case "Div":
			if q == 0 {
				return 0, ErrUndefined
			}
			if q == -1 { // min / -1 wraps; avoid the Go runtime trap on int64
				return WrapI(dt, -p), nil
			}
			return WrapI(dt, p/q), nil
		case "Equal":
			return b2u(p == q), nil
		case "Greater":
			return b2u(p > q), nil
		case "GreaterOrEqual":
			return b2u(p >= q), nil
		case "Less":
			return b2u(p < q), nil
		case "LessOrEqual":
			return b2u(p <= q), nil
		}
	case dt.IsUnsigned():
		p, q := x, y
		switch op {
		case "Add":
			return WrapU(dt, p+q), nil
		case "Sub":
			return WrapU(dt, p-q), nil
		case "Mul":
			return WrapU(dt, p*q), nil
		case "Div":
			if q == 0 {
				return 0, ErrUndefined
			}
			return WrapU(dt, p/q), nil
		case "Equal":
			return b2u(p == q), nil
		case "Greater":
			return b2u(p > q), nil
		case "GreaterOrEqual":
			return b2u(p >= q), nil
		case "Less":
			return b2u(p < q), nil
		case "LessOrEqual":
			return b2u(p <= q), nil
		}
	case dt == Bool:
		// comparisons on bool: false < true
		p, q := x&1, y&1
		switch op {
		case "Equal":
			return b2u(p == q), nil
		case "Greater":
			return b2u(p > q), nil
		case "GreaterOrEqual":
			return b2u(p >= q), nil
		case "Less":
			return b2u(p < q), nil
		case "LessOrEqual":
			return b2u(p <= q), nil
		}
	}
	return 0, invalid("%s on %v", op, dt)
}

func cmpF(op string, p, q float64) uint64 {
	switch op {
	case "Equal":
		return b2u(p == q)
	case "Greater":
		return b2u(p > q)
	case "GreaterOrEqual":
		return b2u(p >= q)
	case "Less":
		return b2u(p < q)
	case "LessOrEqual":
		return b2u(p <= q)
	}
	panic("cmpF: " + op)
}
