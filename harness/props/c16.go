package props

import (
	"fmt"
	"github.com/advancedclimatesystems/gonnx"
	"math"
	"sort"
	"strings"

	"verif/harness/gen"
	"verif/harness/mon"
	"verif/harness/ref"
)

// C16 — samples in a batch do not influence one another.

func init() {
	Register(&Property{
		ID:    "C16",
		Title: "Samples in a batch do not influence one another",
		Cases: func(tier string) int {
			switch tier {
			case "thorough":
				return 400000
			case "race":
				return 1500
			}
			return 40000
		},
		Run:            c16Run,
		Floor:          func(tier string) int { return 800 },
		Rule:           "(batches may hold samples of NaN / infinities / huge values / zeros throughout, models one non-finite weight - NaN results compare equal; a per-sample statistic (N,1) is combined with the sample it came from) (also Gemm with the batch as the transposed second operand - one column per sample - and, on one loaded model, the permuted batch written into the input tensor objects of the first Run) models built from per-sample operators along a tracked batch axis: (A) dense chains on [N,F] (Gemm/MatMul against weights, elementwise with per-feature weights, one column per sample stretched against a weight vector whose length may coincide with the batch size, Relu/Tanh/Sigmoid, PRelu, Softmax/LogSoftmax over the feature axis, Scaler, LinearRegressor, Concat/Gather/Slice on the feature axis, Flatten/Unsqueeze/Squeeze/Reshape that keep the batch axis), (B) Conv on [N,C,H,W] followed by Flatten and Gemm, (D) multi-head MatMul X[N,heads,m,k] x W[heads,k,n] (weights broadcast over the batch axis), (C) RNN/GRU/LSTM on [S,N,I] (batch on axis 1) followed by Squeeze and elementwise operators; plus the sample models mlp, gru, scaler, ndm. For batch sizes 2..6 (2 % of the cases 17..65, 0.2 % 257..513) the real code is its own reference: Run(batch)[i] ~ Run(sample i alone), Run(permuted batch) ~ permuted Run(batch), Run(sub-selection) ~ the selected rows; in half of the cases the batch and its parts run on ONE loaded model (alternating batch sizes), otherwise on freshly loaded models (tolerance 2e-4 abs+rel: BLAS blocking may differ with the batch size; a row-mixing defect changes results by O(1)); success/failure must agree between the batch and its parts. Non-trivial = batch >= 2 with rows that differ; distinct = (model structure, batch size, relation).",
		RaceInThorough: true,
		Technique:      "runtime monitoring: metamorphic relations on the real code (batch decomposition, permutation, sub-selection)",
		Assumptions:    []string{"the generator only emits operators that act per sample along the tracked batch axis"},
	})
}

// batchModel is a model with named inputs/outputs and their batch axes.
type batchModel struct {
	spec *modelSpec
	desc string
}

// genBatchModel builds a per-sample model of family A, B or C.
func genBatchModel(r *gen.R) *batchModel {
	p := newProgram(r)
	var extraInputs []batchedInput
	fam := r.Intn(4)
	var cur string
	axis := 0
	N0 := 2
	switch fam {
	case 0:
		cur = "x"
		p.addInput(cur, uniformT(r, ref.F32, []int{N0, r.Range(1, 5)}, 1), nil)
	case 1:
		cur = "img"
		p.addInput(cur, uniformT(r, ref.F32, []int{N0, r.Range(1, 3), r.Range(3, 6), r.Range(3, 6)}, 1), nil)
	case 3:
		cur = "heads"
		if r.Chance(0.4) { // two stacking axes in front of the matrices (rank 5)
			p.addInput(cur, uniformT(r, ref.F32, []int{N0, r.Range(2, 3), r.Range(2, 3), r.Range(1, 3), r.Range(1, 4)}, 1), nil)
		} else {
			p.addInput(cur, uniformT(r, ref.F32, []int{N0, r.Range(2, 3), r.Range(1, 3), r.Range(1, 4)}, 1), nil)
		}
	default:
		cur = "seq"
		axis = 1
		p.addInput(cur, uniformT(r, ref.F32, []int{r.Range(1, 5), N0, r.Range(1, 4)}, 1), nil)
	}
	p.Inputs[0].Dims = make([]mon.Dim, p.Values[cur].Rank())
	for i, e := range p.Values[cur].Shape {
		p.Inputs[0].Dims[i] = mon.Dim{Value: int64(e)}
	}
	p.Inputs[0].Dims[axis] = mon.Dim{Param: "N"}
	if r.Chance(0.35) {
		// the batch axis - and, for sequences, the time axis - declared open without a name
		// (dim {}): unnamed open axes are independent of one another
		p.Inputs[0].Dims[axis] = mon.Dim{Unset: true}
		if fam == 2 {
			p.Inputs[0].Dims[0] = mon.Dim{Unset: true}
		}
	}
	p.BatchAxis[cur] = axis
	last := func() string { n := p.Nodes[len(p.Nodes)-1]; return n.G.Outputs[0] }
	add := func(n progNode, newAxis int) bool {
		if _, ok := p.addNode(n); !ok {
			return false
		}
		cur = last()
		axis = newAxis
		p.BatchAxis[cur] = axis
		return true
	}
	outs := []string{}
	if fam == 1 { // Conv -> Relu -> Flatten(1)
		xv := p.Values[cur]
		M := r.Range(1, 3)
		ks := []int{r.Range(1, 3), r.Range(1, 3)}
		pads := []int{r.Range(0, 1), r.Range(0, 1), r.Range(0, 1), r.Range(0, 1)}
		strides := []int{r.Range(1, 3), r.Range(1, 3)}
		w := p.addInit("K", p.smallWeights([]int{M, xv.Shape[1], ks[0], ks[1]}, 1))
		at := ref.ConvAttrs{Pads: pads, Strides: strides}
		node := mon.GNode{Op: "Conv", Inputs: []string{cur, w}, Attrs: []*mon.Attr{mon.AttrIntsI("strides", strides)}}
		if r.Chance(0.45) { // paddings derived from the spatial extents instead of explicit ones
			at.Pads, at.AutoPad = nil, r.PickStr("SAME_UPPER", "SAME_LOWER")
			node.Attrs = append(node.Attrs, mon.AttrS("auto_pad", at.AutoPad))
		} else {
			node.Attrs = append(node.Attrs, mon.AttrIntsI("pads", pads))
		}
		if r.Chance(0.3) {
			at.Dilations = []int{r.Range(1, 2), r.Range(1, 2)}
			node.Attrs = append(node.Attrs, mon.AttrIntsI("dilations", at.Dilations))
		}
		if r.Chance(0.3) {
			node.Attrs = append(node.Attrs, mon.AttrIntsI("kernel_shape", ks))
		}
		if r.Bool() {
			node.Inputs = append(node.Inputs, p.addInit("cb", p.smallWeights([]int{M}, 1)))
		}
		add(progNode{G: node, Mode: CmpTol, Eval: approxEval(func(in []*ref.T) (*ref.Approx, error) {
			var b *ref.T
			if len(in) > 2 {
				b = in[2]
			}
			return ref.Conv(in[0], in[1], b, at)
		})}, 0)
		outs = append(outs, cur)
		add(progNode{G: mon.GNode{Op: "Relu", Inputs: []string{cur}}, Mode: CmpTol, Eval: approxEval(func(in []*ref.T) (*ref.Approx, error) { return ref.Unary("Relu", in[0]) })}, 0)
		add(progNode{G: mon.GNode{Op: "Flatten", Inputs: []string{cur}, Attrs: []*mon.Attr{mon.AttrI("axis", 1)}}, Mode: CmpBits, Eval: exactEval(func(in []*ref.T) (*ref.T, error) { return ref.Flatten(in[0], 1) })}, 0)
	}
	if fam == 3 { // multi-head product: X (N, heads, m, k) x W (heads, k, n) / (1, heads, k, n) / (k, n)
		xv := p.Values[cur]
		h, k, n := xv.Shape[xv.Rank()-3], xv.Shape[xv.Rank()-1], r.Range(1, 4)
		w := p.addInit("Wh", p.smallWeights(r.PickShape([]int{h, k, n}, []int{1, h, k, n}, []int{h, k, n}, []int{k, n}), 1))
		add(progNode{G: mon.GNode{Op: "MatMul", Inputs: []string{cur, w}}, Mode: CmpTol, Eval: approxEval(func(in []*ref.T) (*ref.Approx, error) { return ref.MatMul(in[0], in[1]) })}, 0)
		outs = append(outs, cur)
	}
	if fam == 2 { // recurrent -> Squeeze(axis 1)
		op := r.PickStr("RNN", "GRU", "LSTM")
		xv := p.Values[cur]
		I, H, G := xv.Shape[2], r.Range(1, 4), recGates(op)
		w := p.addInit("W", p.smallWeights([]int{1, G * H, I}, 0.4))
		rr := p.addInit("R", p.smallWeights([]int{1, G * H, H}, 0.4))
		ins := []string{cur, w, rr}
		opt := []string{"", "", "", "", ""} // B, sequence_lens, initial_h, initial_c, P
		if r.Chance(0.6) {
			opt[0] = p.addInit("B", p.smallWeights([]int{1, 2 * G * H}, 0.5))
		}
		if r.Chance(0.08) { // per-sample sequence lengths supplied by the caller (refused, or honoured per sample)
			opt[1] = "lens"
			p.Inputs = append(p.Inputs, mon.GInput{Name: "lens", DT: ref.I32, Dims: []mon.Dim{{Param: "N"}}})
			lens := ref.New(ref.I32, N0)
			for i := range lens.Bits {
				lens.Bits[i] = uint64(xv.Shape[0])
			}
			p.Feed["lens"], p.Values["lens"] = lens, lens
			p.BatchAxis["lens"] = 0
			extraInputs = append(extraInputs, batchedInput{name: "lens", shape: []int{N0}, axis: 0, seqLen: xv.Shape[0]})
		}
		if r.Chance(0.5) { // batched initial state supplied by the caller
			opt[2] = "h0"
			p.addInput("h0", uniformT(r, ref.F32, []int{1, N0, H}, 1), []mon.Dim{{Value: 1}, {Param: "N"}, {Value: int64(H)}})
			p.BatchAxis["h0"] = 1
			extraInputs = append(extraInputs, batchedInput{name: "h0", shape: []int{1, N0, H}, axis: 1})
		}
		nOpt := 3
		if op == "LSTM" {
			nOpt = 5
			if r.Chance(0.5) {
				opt[3] = "c0"
				p.addInput("c0", uniformT(r, ref.F32, []int{1, N0, H}, 1), []mon.Dim{{Value: 1}, {Param: "N"}, {Value: int64(H)}})
				p.BatchAxis["c0"] = 1
				extraInputs = append(extraInputs, batchedInput{name: "c0", shape: []int{1, N0, H}, axis: 1})
			}
			if r.Chance(0.6) {
				opt[4] = p.addInit("P", p.smallWeights([]int{1, 3 * H}, 0.5))
			}
		}
		lastOpt := -1
		for i := 0; i < nOpt; i++ {
			if opt[i] != "" {
				lastOpt = i
			}
		}
		ins = append(ins, opt[:lastOpt+1]...)
		at := ref.RecAttrs{Hidden: H}
		nOut := 2
		if op == "LSTM" {
			nOut = 3
		}
		names := make([]string, nOut)
		for i := range names {
			names[i] = p.fresh("rec")
		}
		node := mon.GNode{Op: op, Inputs: ins, Outputs: names, Attrs: []*mon.Attr{mon.AttrI("hidden_size", int64(H))}}
		get := func(in []*ref.T, i int) *ref.T {
			if i < len(in) {
				return in[i]
			}
			return nil
		}
		p.addNode(progNode{G: node, Mode: CmpTol, Eval: func(in []*ref.T) ([]*ref.Approx, error) {
			var ts []*ref.T
			var err error
			switch op {
			case "RNN":
				ts, err = ref.RNN(in[0], in[1], in[2], get(in, 3), get(in, 5), at)
			case "GRU":
				ts, err = ref.GRU(in[0], in[1], in[2], get(in, 3), get(in, 5), at)
			default:
				ts, err = ref.LSTM(in[0], in[1], in[2], get(in, 3), get(in, 5), get(in, 6), get(in, 7), at)
			}
			if err != nil {
				return nil, err
			}
			ap := make([]*ref.Approx, len(ts))
			for i, t := range ts {
				ap[i] = &ref.Approx{T: t}
			}
			return ap, nil
		}})
		p.BatchAxis[names[0]] = 2
		for _, n := range names[1:] {
			p.BatchAxis[n] = 1
			outs = append(outs, n)
		}
		ax := p.addInit("axes", gen.I64s(1))
		cur, axis = names[0], 2
		add(progNode{G: mon.GNode{Op: "Squeeze", Inputs: []string{cur, ax}}, Mode: CmpBits, Eval: exactEval(func(in []*ref.T) (*ref.T, error) { return ref.Squeeze(in[0], in[1].Ints(), true) })}, 1)
	}
	// a tail of per-sample operators on the current tensor
	for k := r.Range(1, 5); k > 0; k-- {
		xv := p.Values[cur]
		rank := xv.Rank()
		feat := rank - 1 // the last axis is never the batch axis here
		switch r.Intn(12) {
		case 11: // a second per-sample input, one value (or one row) per sample: PRelu slope / scale / shift from the batch
			if rank == 2 && axis == 0 && len(extraInputs) < 3 {
				N0 := xv.Shape[0]
				cols := 1
				if r.Chance(0.3) {
					cols = xv.Shape[1]
				}
				name := fmt.Sprintf("per_sample_%d", len(extraInputs))
				p.addInput(name, uniformT(r, ref.F32, []int{N0, cols}, 1), []mon.Dim{{Param: "N"}, {Value: int64(cols)}})
				p.BatchAxis[name] = 0
				extraInputs = append(extraInputs, batchedInput{name: name, shape: []int{N0, cols}, axis: 0})
				if r.Bool() {
					add(progNode{G: mon.GNode{Op: "PRelu", Inputs: []string{cur, name}}, Mode: CmpIEEE, Eval: approxEval(func(in []*ref.T) (*ref.Approx, error) { return ref.PRelu(in[0], in[1]) })}, axis)
				} else {
					op := r.PickStr("Mul", "Add", "Sub")
					ins := []string{cur, name}
					if r.Chance(0.3) {
						ins = []string{name, cur}
					}
					add(progNode{G: mon.GNode{Op: op, Inputs: ins}, Mode: CmpIEEE, Eval: exactEval(func(in []*ref.T) (*ref.T, error) { return ref.Binary(op, in[0], in[1]) })}, axis)
				}
			}
		case 10: // a per-sample statistic (.., 1) combined with the sample it came from: x op max(x) along the features
			if rank >= 2 {
				whole := cur
				stat := progNode{G: mon.GNode{Op: r.PickStr("ReduceMax", "ReduceMin"), Inputs: []string{whole}, Attrs: []*mon.Attr{mon.AttrInts("axes", []int64{-1}), mon.AttrI("keepdims", 1)}}, Mode: CmpIEEE}
				isMax := stat.G.Op == "ReduceMax"
				stat.Eval = exactEval(func(in []*ref.T) (*ref.T, error) { return ref.ReduceMaxMin(in[0], []int64{-1}, true, isMax) })
				if add(stat, axis) {
					column := cur
					op := r.PickStr("Sub", "Add", "Mul")
					ins := []string{whole, column}
					if r.Chance(0.3) {
						ins = []string{column, whole}
					}
					add(progNode{G: mon.GNode{Op: op, Inputs: ins}, Mode: CmpIEEE, Eval: exactEval(func(in []*ref.T) (*ref.T, error) { return ref.Binary(op, in[0], in[1]) })}, axis)
				}
			}
		case 9: // one column per sample, stretched against a weight vector: (..,1) op (F') -> (..,F')
			d := xv.Shape[feat]
			col := p.addInit("col", gen.I64s(int64(r.Range(-d, d-1))))
			add(progNode{G: mon.GNode{Op: "Gather", Inputs: []string{cur, col}, Attrs: []*mon.Attr{mon.AttrI("axis", int64(feat))}}, Mode: CmpBits, Eval: exactEval(func(in []*ref.T) (*ref.T, error) { return ref.Gather(in[0], in[1], feat) })}, axis)
			op := r.PickStr("Add", "Mul", "Sub")
			w := p.addInit("w", p.smallWeights([]int{r.Range(2, 6)}, 1))
			ins := []string{cur, w}
			if r.Chance(0.3) {
				ins = []string{w, cur}
			}
			add(progNode{G: mon.GNode{Op: op, Inputs: ins}, Mode: CmpIEEE, Eval: exactEval(func(in []*ref.T) (*ref.T, error) { return ref.Binary(op, in[0], in[1]) })}, axis)
		case 0:
			op := r.PickStr("Relu", "Tanh", "Sigmoid")
			add(progNode{G: mon.GNode{Op: op, Inputs: []string{cur}}, Mode: CmpTol, Eval: approxEval(func(in []*ref.T) (*ref.Approx, error) { return ref.Unary(op, in[0]) })}, axis)
		case 1: // elementwise with a per-feature weight
			op := r.PickStr("Add", "Mul", "Sub")
			w := p.addInit("w", p.smallWeights([]int{xv.Shape[feat]}, 1))
			add(progNode{G: mon.GNode{Op: op, Inputs: []string{cur, w}}, Mode: CmpIEEE, Eval: exactEval(func(in []*ref.T) (*ref.T, error) { return ref.Binary(op, in[0], in[1]) })}, axis)
		case 2: // MatMul against a weight (contracts the last axis)
			w := p.addInit("W", p.smallWeights([]int{xv.Shape[feat], r.Range(1, 4)}, 1))
			if rank >= 2 {
				add(progNode{G: mon.GNode{Op: "MatMul", Inputs: []string{cur, w}}, Mode: CmpTol, Eval: approxEval(func(in []*ref.T) (*ref.Approx, error) { return ref.MatMul(in[0], in[1]) })}, axis)
			}
		case 3: // Gemm (rank 2, batch axis 0)
			if rank == 2 && axis == 0 && r.Chance(0.3) {
				// the weights on the left, the batch as the transposed second operand: one column per sample
				m := r.Range(1, 4)
				w := p.addInit("W", p.smallWeights([]int{m, xv.Shape[1]}, 1))
				ins := []string{w, cur}
				if r.Bool() {
					ins = append(ins, p.addInit("b", p.smallWeights(r.PickShape([]int{m, 1}, []int{}, []int{1, 1}), 1)))
				}
				added := add(progNode{G: mon.GNode{Op: "Gemm", Inputs: ins, Attrs: []*mon.Attr{mon.AttrI("transB", 1)}}, Mode: CmpTol, Eval: approxEval(func(in []*ref.T) (*ref.Approx, error) {
					var bias *ref.T
					if len(in) > 2 {
						bias = in[2]
					}
					return ref.Gemm(in[0], in[1], bias, 1, 1, false, true)
				})}, 1)
				if !added {
					break
				}
				if r.Bool() { // and back: the columns transposed by a second Gemm
					n := r.Range(1, 4)
					w2 := p.addInit("W", p.smallWeights([]int{m, n}, 1))
					add(progNode{G: mon.GNode{Op: "Gemm", Inputs: []string{cur, w2}, Attrs: []*mon.Attr{mon.AttrI("transA", 1)}}, Mode: CmpTol, Eval: approxEval(func(in []*ref.T) (*ref.Approx, error) { return ref.Gemm(in[0], in[1], nil, 1, 1, true, false) })}, 0)
				} else {
					k = 1 // the batch is on the last axis now: the chain ends here
				}
			} else if rank == 2 && axis == 0 {
				n := r.Range(1, 4)
				w := p.addInit("W", p.smallWeights([]int{xv.Shape[1], n}, 1))
				b := p.addInit("b", p.smallWeights(r.PickShape([]int{n}, []int{n}, []int{1, n}, []int{}), 1))
				add(progNode{G: mon.GNode{Op: "Gemm", Inputs: []string{cur, w, b}}, Mode: CmpTol, Eval: approxEval(func(in []*ref.T) (*ref.Approx, error) { return ref.Gemm(in[0], in[1], in[2], 1, 1, false, false) })}, 0)
			}
		case 4:
			op := r.PickStr("Softmax", "LogSoftmax")
			add(progNode{G: mon.GNode{Op: op, Inputs: []string{cur}, Attrs: []*mon.Attr{mon.AttrI("axis", -1)}}, Mode: CmpTol, Eval: approxEval(func(in []*ref.T) (*ref.Approx, error) { return ref.Softmax(in[0], -1, op == "LogSoftmax") })}, axis)
		case 5: // Concat with itself on the feature axis
			add(progNode{G: mon.GNode{Op: "Concat", Inputs: []string{cur, cur}, Attrs: []*mon.Attr{mon.AttrI("axis", -1)}}, Mode: CmpBits, Eval: exactEval(func(in []*ref.T) (*ref.T, error) { return ref.Concat(in, -1) })}, axis)
		case 6: // Gather on the feature axis
			d := xv.Shape[feat]
			idx := ref.New(ref.I64, r.Range(1, 3))
			for i := range idx.Bits {
				idx.Bits[i] = uint64(int64(r.Range(-d, d-1)))
			}
			in := p.addInit("idx", idx)
			add(progNode{G: mon.GNode{Op: "Gather", Inputs: []string{cur, in}, Attrs: []*mon.Attr{mon.AttrI("axis", int64(feat))}}, Mode: CmpBits, Eval: exactEval(func(in []*ref.T) (*ref.T, error) { return ref.Gather(in[0], in[1], feat) })}, axis)
		case 7: // Unsqueeze at the end, then Squeeze it again (batch axis unchanged)
			ax := p.addInit("axes", gen.I64s(-1))
			if rank <= 3 {
				add(progNode{G: mon.GNode{Op: "Unsqueeze", Inputs: []string{cur, ax}}, Mode: CmpBits, Eval: exactEval(func(in []*ref.T) (*ref.T, error) { return ref.Unsqueeze(in[0], in[1].Ints()) })}, axis)
				ax2 := p.addInit("axes", gen.I64s(int64(rank)))
				add(progNode{G: mon.GNode{Op: "Squeeze", Inputs: []string{cur, ax2}}, Mode: CmpBits, Eval: exactEval(func(in []*ref.T) (*ref.T, error) { return ref.Squeeze(in[0], in[1].Ints(), true) })}, axis)
			}
		case 8: // PRelu with a per-feature slope / Scaler / LinearRegressor
			switch {
			case rank == 2 && axis == 0 && r.Bool():
				c := xv.Shape[1]
				o32, o64 := f32s(r, c)
				s32, s64 := f32s(r, c)
				add(progNode{G: mon.GNode{Op: "Scaler", Inputs: []string{cur}, Attrs: []*mon.Attr{mon.AttrFloats("offset", o32), mon.AttrFloats("scale", s32)}}, Mode: CmpTol, Eval: approxEval(func(in []*ref.T) (*ref.Approx, error) { return ref.Scaler(in[0], o64, s64) })}, 0)
			case rank == 2 && axis == 0:
				c, t := xv.Shape[1], r.Range(1, 3)
				c32, c64 := f32s(r, t*c)
				i32, i64 := f32s(r, t)
				add(progNode{G: mon.GNode{Op: "LinearRegressor", Inputs: []string{cur}, Attrs: []*mon.Attr{mon.AttrFloats("coefficients", c32), mon.AttrFloats("intercepts", i32), mon.AttrI("targets", int64(t))}}, Mode: CmpTol, Eval: approxEval(func(in []*ref.T) (*ref.Approx, error) { return ref.LinearRegressor(in[0], c64, i64, t) })}, 0)
			default:
				s := p.addInit("slope", p.smallWeights([]int{xv.Shape[feat]}, 1))
				add(progNode{G: mon.GNode{Op: "PRelu", Inputs: []string{cur, s}}, Mode: CmpIEEE, Eval: approxEval(func(in []*ref.T) (*ref.Approx, error) { return ref.PRelu(in[0], in[1]) })}, axis)
			}
		}
	}
	outs = append(outs, cur)
	outs = dedup(outs)
	desc, _ := p.structure()
	if r.Chance(0.06) {
		// a non-finite weight (a diverged training run): what it does to a sample's result is the
		// operators' business - it must do the same alone and in a batch (0 x Inf included)
		var fl []int
		for i, it := range p.Inits {
			if it.T != nil && it.T.DT == ref.F32 && len(it.T.Bits) > 0 {
				fl = append(fl, i)
			}
		}
		if len(fl) > 0 {
			t := p.Inits[fl[r.Intn(len(fl))]].T
			t.Bits[r.Intn(len(t.Bits))] = ref.EncF(ref.F32, r.PickFloat(math.Inf(1), math.Inf(-1), math.NaN()))
			desc += " [one non-finite weight]"
		}
	}
	inName := p.Inputs[0].Name
	inShape := p.Values[inName].Shape
	inAxis := p.BatchAxis[inName]
	spec := &modelSpec{Name: "generated", Bytes: p.Graph(outs).Bytes(), Outputs: outs, BatchAxis: map[string]int{inName: inAxis}}
	for _, o := range outs {
		spec.BatchAxis[o] = p.BatchAxis[o]
	}
	for _, e := range extraInputs {
		spec.BatchAxis[e.name] = e.axis
	}
	spec.Feed = func(r *gen.R, b int) map[string]*ref.T {
		s := append([]int{}, inShape...)
		s[inAxis] = b
		feed := map[string]*ref.T{inName: uniformT(r, ref.F32, s, 1)}
		if r.Chance(0.25) {
			// samples of very different magnitude and sign in one batch (a normalisation that
			// carries a running maximum from one row to the next shows only then)
			t := feed[inName]
			inner := 1
			for _, e := range s[inAxis+1:] {
				inner *= e
			}
			for i := range t.Bits {
				row := (i / inner) % s[inAxis]
				f := []float64{1, 60, -60, 25, -90, 90}[(row*7+len(t.Bits))%6]
				t.Bits[i] = ref.EncF(ref.F32, t.F(i)*f)
			}
		}
		for _, e := range extraInputs {
			es := append([]int{}, e.shape...)
			es[e.axis] = b
			if e.seqLen > 0 {
				l := ref.New(ref.I32, b)
				for i := range l.Bits {
					l.Bits[i] = uint64(r.Range(1, e.seqLen))
				}
				l.Bits[0] = uint64(e.seqLen)
				feed[e.name] = l
				continue
			}
			feed[e.name] = uniformT(r, ref.F32, es, 1)
		}
		return feed
	}
	return &batchModel{spec: spec, desc: desc}
}

type batchedInput struct {
	name   string
	shape  []int
	axis   int
	seqLen int // > 0: an int32 list of per-sample sequence lengths (the first one is the full length)
}

// takeRows selects rows along an axis.
func takeRows(t *ref.T, axis int, rows []int) *ref.T {
	idx := ref.New(ref.I64, len(rows))
	for i, r := range rows {
		idx.Bits[i] = uint64(int64(r))
	}
	out, err := ref.Gather(t, idx, axis)
	if err != nil {
		panic(err)
	}
	return out
}

func c16Run(c *Ctx) {
	r := c.R
	var bm *batchModel
	if r.Chance(0.2) {
		specs := sampleModels()
		s := specs[r.Intn(len(specs))]
		if s.Heavy && (c.Tier == "race" || r.Chance(0.6)) {
			s = specs[r.Intn(3)]
		}
		bm = &batchModel{spec: s, desc: s.Name}
	} else {
		bm = genBatchModel(r)
	}
	spec := bm.spec
	N := r.Range(2, 6)
	if !spec.Heavy {
		switch { // batches beyond the sizes at which an implementation might switch strategy
		case r.Chance(0.02):
			N = r.PickInt(17, 18, 19, 23, 33, 65)
		case r.Chance(0.002):
			N = r.PickInt(257, 300, 513)
		}
	}
	feed := spec.Feed(r, N)
	special := ""
	if !spec.Heavy && r.Chance(0.12) {
		// one or two samples made of unusual values (NaN, infinities, huge magnitudes, exact and
		// signed zeros): whatever they produce, the OTHER samples' results do not change, and
		// their own results are the same alone and in the batch
		var names []string
		for k, v := range feed {
			if ax, ok := spec.BatchAxis[k]; ok && ax >= 0 && v.DT == ref.F32 && ax < v.Rank() && v.Shape[ax] == N {
				names = append(names, k)
			}
		}
		sort.Strings(names)
		if len(names) > 0 {
			k := names[r.Intn(len(names))]
			t := feed[k].Clone()
			ax := spec.BatchAxis[k]
			inner := 1
			for _, d := range t.Shape[ax+1:] {
				inner *= d
			}
			vals := []float64{math.NaN(), math.Inf(1), math.Inf(-1), -3e9, 3e9, 1e30, -1e30, 0, math.Copysign(0, -1), 1e-30, 88.8, -104}
			for n := r.Range(1, 2); n > 0; n-- {
				row := r.Intn(N)
				allZero := r.Chance(0.25) // a sample that is zero throughout
				for i := range t.Bits {
					if (i/inner)%N == row && (allZero || r.Chance(0.7)) {
						t.Bits[i] = ref.EncF(ref.F32, vals[r.Intn(len(vals))])
						if allZero {
							t.Bits[i] = 0
						}
					}
				}
				special += fmt.Sprintf(" sample %d of %q", row, k)
			}
			feed[k] = t
			c.Count("batches-with-samples-of-unusual-values", 1)
		}
	}
	relation := r.PickStr("decompose", "permute", "subselect")
	c.SetCase("model %s | batch %d | relation %s | unusual values in%s | feed %s", trunc(bm.desc, 700), N, relation, special, feedString(feed))
	c.Nontrivial(fmt.Sprintf("%s|%d|%s", bm.desc, N, relation))
	c.Count("relation:"+relation, 1)
	// in half of the cases the batch and its parts are evaluated on ONE loaded model
	// (alternating batch sizes on a model, as a server does), otherwise on fresh models
	var sess *mon.Session
	if c.Idx%2 == 1 {
		if sess = mon.NewSession(spec.Bytes); sess.Err != nil {
			sess = nil
		}
	}
	c.Count(fmt.Sprintf("one-loaded-model:%v", sess != nil), 1)
	// a caller that keeps its input buffers: the permuted batch is written into the tensor
	// objects of the first Run (same shapes), on the same loaded model
	var held gonnx.Tensors
	if sess != nil && relation == "permute" && c.Idx%4 == 1 {
		held = gonnx.Tensors{}
		for k, v := range feed {
			held[k] = mon.ToTensor(v)
		}
		c.Count("permuted-batch-written-into-the-same-input-tensors", 1)
	}
	run := func(f map[string]*ref.T) (map[string]*ref.T, mon.Outcome) {
		g := spec.Outputs
		var o mon.Outcome
		if held != nil {
			for k, v := range f {
				if t, ok := held[k]; !ok || !ref.ShapeEq([]int(t.Shape()), v.Shape) || !mon.Overwrite(t, v) {
					held[k] = mon.ToTensor(v)
				}
			}
			o = sess.RunTensors(held, g)
		} else if sess != nil {
			o = sess.Run(f, g)
		} else {
			o = mon.RunBytes(spec.Bytes, f, g)
		}
		c.Eval(1)
		res := map[string]*ref.T{}
		if o.Kind == mon.Value {
			for i, name := range g {
				res[name] = o.Vals[i]
			}
		}
		return res, o
	}
	whole, ow := run(feed)
	if ow.Kind == mon.Panic {
		c.Violation("batch:panic", "%s", ow.Describe())
		return
	}
	var groups [][]int
	switch relation {
	case "decompose":
		for i := 0; i < N; i++ {
			groups = append(groups, []int{i})
		}
	case "permute":
		groups = [][]int{r.Perm(N)}
	default:
		perm := r.Perm(N)
		groups = [][]int{perm[:r.Range(1, N-1)]}
	}
	for _, rows := range groups {
		sub := map[string]*ref.T{}
		for name, t := range feed {
			if ax, ok := spec.BatchAxis[name]; ok && ax >= 0 {
				sub[name] = takeRows(t, ax, rows)
			} else {
				sub[name] = t
			}
		}
		part, op := run(sub)
		if op.Kind == mon.Panic {
			c.Violation("batch:panic", "rows %v: %s", rows, op.Describe())
			return
		}
		if (op.Kind == mon.Error) != (ow.Kind == mon.Error) {
			c.Violation("batch:success-depends-on-batch", "the batch of %d gives %s, rows %v give %s | %s", N, trunc(ow.Describe(), 200), rows, trunc(op.Describe(), 200), trunc(bm.desc, 300))
			return
		}
		if ow.Kind != mon.Value {
			c.Count("both-refused", 1)
			continue
		}
		for _, name := range spec.Outputs {
			ax, ok := spec.BatchAxis[name]
			w, p := whole[name], part[name]
			if !ok || ax < 0 || w == nil || p == nil {
				continue
			}
			if ax >= w.Rank() || w.Shape[ax] != N {
				c.Violation("batch:output-batch-axis-lost", "output %q has shape %v for a batch of %d on axis %d | %s", name, w.Shape, N, ax, trunc(bm.desc, 300))
				return
			}
			want := takeRows(w, ax, rows)
			if !ref.ShapeEq(want.Shape, p.Shape) {
				c.Violation("batch:shape-depends-on-batch", "output %q: rows %v alone give shape %v, expected %v | %s", name, rows, p.Shape, want.Shape, trunc(bm.desc, 300))
				return
			}
			for i := range want.Bits {
				a, b := want.F(i), p.F(i)
				if a == b || (a != a && b != b) {
					continue
				}
				if d := math.Abs(a - b); d > 2e-4*(1+math.Abs(a)) || d != d {
					c.Violation("batch:sample-result-depends-on-the-batch", "output %q element %d: %v in the batch of %d, %v for rows %v alone (%s) | %s", name, i, a, N, b, rows, relation, trunc(bm.desc, 400))
					return
				}
			}
		}
	}
	if c.Idx%400 == 47 {
		c.Sample(map[string]any{"model": trunc(bm.desc, 300), "batch": N, "relation": relation, "groups": fmt.Sprint(groups), "outputs": strings.Join(spec.Outputs, ",")})
	}
}
