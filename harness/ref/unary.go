package ref

import "math"

// UnaryOps lists the seventeen operators of C10 (PRelu takes a second operand).
var UnaryOps = []string{"Abs", "Relu", "PRelu", "Sigmoid", "Tanh", "Sin", "Cos", "Tan", "Asin", "Acos", "Atan", "Sinh", "Cosh", "Asinh", "Acosh", "Atanh", "Not"}

// UnaryFloat returns the named real function.
func UnaryFloat(op string) func(float64) float64 {
	switch op {
	case "Abs":
		return math.Abs
	case "Relu":
		return func(x float64) float64 {
			if x != x {
				return x
			}
			if x > 0 {
				return x
			}
			return 0
		}
	case "Sigmoid":
		return func(x float64) float64 { return 1 / (1 + math.Exp(-x)) }
	case "Tanh":
		return math.Tanh
	case "Sin":
		return math.Sin
	case "Cos":
		return math.Cos
	case "Tan":
		return math.Tan
	case "Asin":
		return math.Asin
	case "Acos":
		return math.Acos
	case "Atan":
		return math.Atan
	case "Sinh":
		return math.Sinh
	case "Cosh":
		return math.Cosh
	case "Asinh":
		return math.Asinh
	case "Acosh":
		return math.Acosh
	case "Atanh":
		return math.Atanh
	}
	return nil
}

// Unary evaluates a unary operator of C10 (not PRelu). For float types the
// result carries the tolerance of DESIGN §2.4.3; integer Abs/Relu and Not are exact.
func Unary(op string, t *T) (*Approx, error) {
	out := New(t.DT, t.Shape...)
	switch {
	case op == "Not":
		if t.DT != Bool {
			return nil, invalid("Not on %v", t.DT)
		}
		for i := range out.Bits {
			out.Bits[i] = b2u(!t.B(i))
		}
		return &Approx{T: out}, nil
	case t.DT.IsFloat():
		f := UnaryFloat(op)
		if f == nil {
			return nil, invalid("unknown unary %s", op)
		}
		tol := make([]float64, len(out.Bits))
		for i := range out.Bits {
			y := f(t.F(i))
			out.Bits[i] = EncF(t.DT, y)
			tol[i] = UnaryTol(op, t.DT, t.F(i), y)
		}
		return &Approx{T: out, Tol: tol}, nil
	case op == "Abs" && t.DT.IsSigned():
		for i := range out.Bits {
			v := t.I(i)
			if v < 0 {
				v = -v
			}
			out.Bits[i] = WrapI(t.DT, v)
		}
		return &Approx{T: out}, nil
	case op == "Abs" && t.DT.IsUnsigned():
		copy(out.Bits, t.Bits)
		return &Approx{T: out}, nil
	}
	return nil, invalid("%s on %v", op, t.DT)
}

// Ulp returns the spacing of dt at magnitude |y| (at least the smallest subnormal).
func Ulp(dt DType, y float64) float64 {
	y = math.Abs(y)
	if dt == F64 {
		if math.IsInf(y, 0) || y != y {
			return 0
		}
		n := math.Nextafter(y, math.Inf(1))
		if math.IsInf(n, 0) {
			return y - math.Nextafter(y, 0)
		}
		return n - y
	}
	f := float32(y)
	if math.IsInf(float64(f), 0) || f != f {
		return 0
	}
	n := math.Nextafter32(f, float32(math.Inf(1)))
	if math.IsInf(float64(n), 0) {
		return float64(f - math.Nextafter32(f, 0))
	}
	return float64(n - f)
}

// UnaryTol is the absolute tolerance for a unary float result y=f(x).
func UnaryTol(op string, dt DType, x, y float64) float64 {
	if y != y || math.IsInf(y, 0) {
		return 0
	}
	tol := 8*Ulp(dt, y) + smallestNormal(dt)
	if op == "Sigmoid" || op == "Tanh" {
		// exp() evaluated in the element precision by range reduction carries a
		// relative error proportional to |x| (x = k*ln2 + r is formed in that
		// precision); allow 2|x| further ulps. The results saturate for |x| > ~90
		// (float32) / ~710 (float64), so this stays tiny in absolute terms.
		tol += 2 * math.Min(math.Abs(x), 800) * Ulp(dt, y)
	}
	// Functions evaluated through float64 math and rounded once are far inside this.
	// Trigonometric functions of huge arguments are ill-conditioned only in the
	// argument, which is exact here, so no extra allowance is needed.
	return tol
}

// PRelu implements ONNX PRelu: slope unidirectionally broadcast to x.
func PRelu(x, slope *T) (*Approx, error) {
	if x.DT != slope.DT {
		return nil, invalid("prelu types differ")
	}
	if !UniBroadcastable(x.Shape, slope.Shape) {
		return nil, invalid("slope %v not broadcastable to %v", slope.Shape, x.Shape)
	}
	out := New(x.DT, x.Shape...)
	var tol []float64
	if x.DT.IsFloat() {
		tol = make([]float64, len(out.Bits))
	}
	for i := range out.Bits {
		s := SrcIndex(i, x.Shape, slope.Shape)
		switch {
		case x.DT == F32:
			v := math.Float32frombits(uint32(x.Bits[i]))
			if v < 0 {
				v = math.Float32frombits(uint32(slope.Bits[s])) * v
			}
			out.Bits[i] = uint64(math.Float32bits(v))
			tol[i] = 0
		case x.DT == F64:
			v := math.Float64frombits(x.Bits[i])
			if v < 0 {
				v = math.Float64frombits(slope.Bits[s]) * v
			}
			out.Bits[i] = math.Float64bits(v)
		case x.DT.IsSigned():
			v := x.I(i)
			if v < 0 {
				v = slope.I(s) * v
			}
			out.Bits[i] = WrapI(x.DT, v)
		default:
			out.Bits[i] = x.Bits[i]
		}
	}
	return &Approx{T: out, Tol: tol}, nil
}
