package props

import (
	"fmt"
	"github.com/advancedclimatesystems/gonnx/ops"
	"gorgonia.org/tensor"
	"math"

	"github.com/advancedclimatesystems/gonnx/onnx"

	"verif/harness/gen"
	"verif/harness/mon"
	"verif/harness/ref"
)

// C11 — Constant, ConstantOfShape, Cast.

func init() {
	Register(&Property{
		ID:    "C11",
		Title: "Constant, ConstantOfShape and Cast yield the specified values and element type",
		Cases: func(tier string) int {
			switch tier {
			case "thorough":
				return 8000000
			case "race":
				return 40000
			}
			return 2400000
		},
		Run:            c11Run,
		Floor:          func(tier string) int { return 3000 },
		Rule:           "(first case: the conversion routine under Cast enumerated over all 14 operand types x target codes -1..20) Constant: every attribute form (value as a tensor of each of the 11 element types in both encodings and ranks 0..3, value_float, value_floats, value_int, value_ints; unsupported forms, unknown names, zero or two attributes must be refused). ConstantOfShape: shapes of rank 1..4 x one-element value tensors of every type (dims [1] and rank 0) and the float32-zero default; invalid: two-element value, unknown attribute, negative extent. Cast: all 10x10 numeric source/target pairs with values representable in the target (fractions for truncation toward zero, extremes of the narrower type), scalars included; non-numeric targets must be refused. Exact comparison (bit patterns). MUST_EQUAL for what the statement lists as computed, MAY_REFUSE for int8/uint8 Cast sources, bool fill values, Cast to bool and zero extents, MUST_ERROR for invalid/unsupported. Non-trivial = every case (each has a distinct attribute/type/value combination); distinct = descriptor hash." + ruleShared + ruleReused,
		RaceInThorough: true,
		Technique:      "runtime monitoring: differential execution against the reference with exact comparison",
		Assumptions:    []string{"C-style conversion semantics = Go's numeric conversions for in-range values; out-of-range float->int, NaN->int and narrowing integer wrap are implementation-defined and excluded"},
	})
	validGens["Constant"] = func(r *gen.R, _ bool) (mon.OpReq, Expect, bool) { return genConstant(r, true) }
	validGens["ConstantOfShape"] = func(r *gen.R, _ bool) (mon.OpReq, Expect, bool) { return genConstantOfShape(r, true) }
	validGens["Cast"] = func(r *gen.R, _ bool) (mon.OpReq, Expect, bool) { return genCast(r, true) }
}

func genConstant(r *gen.R, validOnly bool) (mon.OpReq, Expect, bool) {
	req := mon.OpReq{Op: "Constant"}
	form := r.Intn(8)
	if validOnly {
		form = r.Intn(5)
	}
	var want *ref.T
	switch form {
	case 0: // value
		dt := gen.AllDecodable[r.Intn(len(gen.AllDecodable))]
		t := r.Tensor(dt, r.Shape(0, 3, 4, 40), r.PickInt(gen.FillMixed, gen.FillAnyBits, gen.FillSmall), 100)
		if dt == ref.Bool {
			for i := range t.Bits {
				t.Bits[i] &= 1
			}
		}
		req.Attrs = []*mon.Attr{mon.AttrT("value", mon.TensorProto("", t, r.Bool()))}
		want = t
	case 1:
		v := math.Float32frombits(uint32(r.SpecialBits(ref.F32)))
		if r.Bool() {
			v = float32(r.Uniform(-100, 100))
		}
		req.Attrs = []*mon.Attr{mon.AttrF("value_float", v)}
		want = &ref.T{DT: ref.F32, Shape: []int{}, Bits: []uint64{uint64(math.Float32bits(v))}}
	case 2:
		n := r.Range(1, 6)
		t := r.Tensor(ref.F32, []int{n}, gen.FillMixed, 50)
		f := make([]float32, n)
		for i := range f {
			f[i] = math.Float32frombits(uint32(t.Bits[i]))
		}
		req.Attrs = []*mon.Attr{mon.AttrFloats("value_floats", f)}
		want = t
	case 3:
		v := int64(r.SpecialBits(ref.I64))
		req.Attrs = []*mon.Attr{mon.AttrI("value_int", v)}
		want = &ref.T{DT: ref.I64, Shape: []int{}, Bits: []uint64{uint64(v)}}
	case 4:
		n := r.Range(1, 6)
		t := r.Tensor(ref.I64, []int{n}, gen.FillMixed, 50)
		req.Attrs = []*mon.Attr{mon.AttrInts("value_ints", t.Ints())}
		want = t
	case 5: // unsupported forms
		switch r.Intn(3) {
		case 0:
			req.Attrs = []*mon.Attr{mon.AttrS("value_string", "abc")}
		case 1:
			req.Attrs = []*mon.Attr{mon.AttrStrings("value_strings", []string{"a", "b"})}
		default:
			req.Attrs = []*mon.Attr{{Name: "sparse_value", Type: onnx.AttributeProto_SPARSE_TENSOR, SparseTensor: &onnx.SparseTensorProto{}}}
		}
		return req, Expect{Kind: MustError, Why: "attribute form the library does not support"}, true
	case 6: // unknown attribute name
		req.Attrs = []*mon.Attr{mon.AttrF(r.PickStr("value_flt", "values", "Value", "value_float32", ""), 1)}
		return req, Expect{Kind: MustError, Why: "unknown attribute name"}, true
	default: // zero or two attributes
		if r.Bool() {
			req.Attrs = []*mon.Attr{mon.AttrF("value_float", 1), mon.AttrI("value_int", 2)}
		}
		return req, Expect{Kind: MustError, Why: "Constant needs exactly one value attribute"}, true
	}
	return req, Expect{Kind: MustEqual, Want: Exact(want), Mode: CmpBits, Why: "valid request"}, true
}

func genConstantOfShape(r *gen.R, validOnly bool) (mon.OpReq, Expect, bool) {
	shape := r.Shape(1, 4, 5, 200)
	s64 := make([]int64, len(shape))
	for i, e := range shape {
		s64[i] = int64(e)
	}
	req := mon.OpReq{Op: "ConstantOfShape"}
	kind := MustEqual
	why := "valid request"
	var val *ref.T
	switch r.Intn(7) {
	case 0: // default
	default:
		dt := gen.AllDecodable[r.Intn(len(gen.AllDecodable))]
		dims := []int{1}
		if r.Chance(0.35) {
			dims = []int{}
		} else if r.Chance(0.15) {
			dims = []int{1, 1}
		}
		val = r.Tensor(dt, dims, r.PickInt(gen.FillMixed, gen.FillSpecial), 100)
		if dt == ref.Bool {
			val.Bits[0] &= 1
			kind, why = MayRefuse, "bool fill value (the library may be unable to fill bool tensors)"
		}
		req.Attrs = []*mon.Attr{mon.AttrT("value", mon.TensorProto("", val, r.Bool()))}
	}
	if !validOnly && r.Chance(0.2) {
		switch r.Intn(6) {
		case 4: // a payload of one element under dims that ask for another number of elements: malformed tensor
			one := r.Tensor(gen.AllDecodable[r.Intn(len(gen.AllDecodable))], []int{1}, gen.FillSmall, 9)
			tp := mon.TensorProto("", one, r.Bool())
			tp.Dims = [][]int64{{2, 3}, {3}, {2}, {1, 0}, {0}, {-1}, {1, 2}, {2, 1, 1}}[r.Intn(8)]
			req.Attrs = []*mon.Attr{mon.AttrT("value", tp)}
			req.Inputs = []*ref.T{gen.I64s(s64...)}
			return req, Expect{Kind: MustError, Why: "value tensor whose payload (one element) does not match its dims"}, true
		case 5: // the attribute given twice (two values): an attribute list names each attribute once
			a := r.Tensor(ref.F32, []int{1}, gen.FillSmall, 9)
			b := r.Tensor(r.PickDT(ref.F32, ref.I64, ref.F64), []int{1}, gen.FillSmall, 9)
			req.Attrs = []*mon.Attr{mon.AttrT("value", mon.TensorProto("", a, r.Bool())), mon.AttrT("value", mon.TensorProto("", b, r.Bool()))}
			req.Inputs = []*ref.T{gen.I64s(s64...)}
			return req, Expect{Kind: MustError, Why: "value attribute given twice"}, true
		case 0:
			two := r.Tensor(ref.F32, r.PickShape([]int{2}, []int{1, 3}, []int{1, 2}, []int{1, 1, 2}, []int{2, 1}, []int{3}, []int{2, 2}), gen.FillUnique, 0)
			req.Attrs = []*mon.Attr{mon.AttrT("value", mon.TensorProto("", two, r.Bool()))}
			req.Inputs = []*ref.T{gen.I64s(s64...)}
			return req, Expect{Kind: MustError, Why: "value attribute with more than one element"}, true
		case 1:
			req.Attrs = []*mon.Attr{mon.AttrF("value_float", 1)}
			req.Inputs = []*ref.T{gen.I64s(s64...)}
			return req, Expect{Kind: MustError, Why: "unknown attribute"}, true
		case 2:
			s64[r.Intn(len(s64))] = int64(-r.Range(1, 3))
			req.Inputs = []*ref.T{gen.I64s(s64...)}
			return req, Expect{Kind: MustError, Why: "negative extent"}, true
		case 3:
			s64[r.Intn(len(s64))] = 0
			kind, why = MayRefuse, "zero extent (empty tensor; may be refused)"
		}
	}
	req.Inputs = []*ref.T{gen.I64s(s64...)}
	want, err := ref.ConstantOfShape(s64, val)
	if err != nil {
		return req, Expect{Kind: MustError, Why: err.Error()}, true
	}
	// "elements all equal the value": IEEE equality (the sign of a zero and NaN payloads are not pinned)
	return req, Expect{Kind: kind, Want: Exact(want), Mode: CmpIEEE, Why: why}, true
}

var nonNumericTargets = []int64{0, 8, 10, 14, 15, 16, 17, 18, 19, 20, 21, -1, 99}

func genCast(r *gen.R, validOnly bool) (mon.OpReq, Expect, bool) {
	from := gen.NumericDTs[r.Intn(10)]
	to := gen.NumericDTs[r.Intn(10)]
	if validOnly {
		from = r.PickDT(ref.F32, ref.F64, ref.I32, ref.I64, ref.I16, ref.U16, ref.U32, ref.U64)
	}
	shape := r.Shape(0, 4, 4, 60)
	if r.Chance(0.0005) { // a large operand: code paths that switch on the element count
		shape = r.PickShape([]int{1025}, []int{65537}, []int{257, 257}, []int{70003}, []int{3, 7, 64}, []int{65536})
	}
	x := ref.New(from, shape...)
	for i := range x.Bits {
		x.Bits[i] = castValue(r, from, to)
	}
	if from.IsFloat() && !validOnly && r.Chance(0.04) { // zeros of both signs side by side: each keeps its sign in a float target
		for i := range x.Bits {
			if r.Chance(0.85) {
				x.Bits[i] = ref.EncF(from, r.PickFloat(0, math.Copysign(0, -1)))
			}
		}
	}
	req := mon.OpReq{Op: "Cast", Inputs: []*ref.T{x}, Attrs: []*mon.Attr{mon.AttrI("to", int64(to.OnnxCode()))}}
	if !validOnly && r.Chance(0.12) {
		switch r.Intn(3) {
		case 0:
			req.Attrs = []*mon.Attr{mon.AttrI("to", nonNumericTargets[r.Intn(len(nonNumericTargets))])}
			return req, Expect{Kind: MustError, Why: "target type is not a numeric type the library supports"}, true
		case 1:
			req.Attrs = []*mon.Attr{mon.AttrI(r.PickStr("To", "dtype", "saturate"), int64(to.OnnxCode()))}
			if r.Bool() { // a valid `to` next to an attribute opset 13 does not have, in either order
				extra := mon.AttrI(r.PickStr("saturate", "round_mode", "axis", "To"), int64(r.Intn(2)))
				req.Attrs = []*mon.Attr{mon.AttrI("to", int64(to.OnnxCode())), extra}
				if r.Bool() {
					req.Attrs[0], req.Attrs[1] = req.Attrs[1], req.Attrs[0]
				}
			}
			return req, Expect{Kind: MustError, Why: "unknown attribute"}, true
		case 2: // Cast to bool: valid ONNX, may be refused
			want := ref.New(ref.Bool, shape...)
			for i := range want.Bits {
				if x.F(i) != 0 {
					want.Bits[i] = 1
				}
			}
			req.Attrs = []*mon.Attr{mon.AttrI("to", 9)}
			return req, Expect{Kind: MayRefuse, Want: Exact(want), Mode: CmpBits, Why: "Cast to bool may be refused"}, true
		}
	}
	want, ok := ref.Cast(x, to)
	if !ok {
		return req, Expect{}, false
	}
	kind := MustEqual
	why := "valid request"
	if from == ref.I8 || from == ref.U8 {
		kind, why = MayRefuse, "int8/uint8 sources may be refused by the gate"
	}
	// NaN payloads are not defined by a C-style conversion: NaN matches NaN; between float types
	// the conversion of a zero is exact, sign included
	mode := CmpIEEE
	if from.IsFloat() && to.IsFloat() {
		mode = CmpSigned
	}
	return req, Expect{Kind: kind, Want: Exact(want), Mode: mode, Why: why}, true
}

// castValue draws a source value representable in the target type.
func castValue(r *gen.R, from, to ref.DType) uint64 {
	for try := 0; try < 50; try++ {
		var b uint64
		switch {
		case from.IsFloat() && r.Chance(0.6):
			// fractions (truncation toward zero), integers, target extremes
			v := r.Uniform(-130, 130)
			if r.Chance(0.3) {
				v = math.Round(v) + r.PickFloat(0, 0.5, -0.5, 0.999, -0.999)
			}
			if to.IsUnsigned() {
				v = math.Abs(v)
			}
			b = ref.EncF(from, v)
		case from.IsFloat() && (to == ref.U64 || to == ref.I64) && r.Chance(0.15):
			// magnitudes between 2^53 and the end of the 64-bit ranges (beyond 2^63 for uint64)
			v := math.Ldexp(1+float64(r.Intn(1<<20))/float64(1<<20), r.Range(53, 63))
			if to == ref.I64 {
				v = math.Ldexp(1+float64(r.Intn(1<<20))/float64(1<<20), r.Range(53, 62))
				if r.Bool() {
					v = -v
				}
			}
			b = ref.EncF(from, v)
		case r.Chance(0.35):
			b = r.SpecialBits(from)
		case r.Chance(0.3) && to.IsInt(): // extremes of the target
			tb := r.SpecialBits(to)
			if to.IsSigned() {
				if from.IsFloat() {
					b = ref.EncF(from, float64(int64(tb)))
				} else {
					b = ref.Wrap(from, tb)
				}
			} else {
				if from.IsFloat() {
					b = ref.EncF(from, float64(tb))
				} else {
					b = ref.Wrap(from, tb)
				}
			}
		default:
			b = r.SmallBits(from, 120)
		}
		if _, ok := ref.CastValue(from, to, b); ok {
			return b
		}
	}
	return 0
}

// c11ConversionPairs: the conversion routine under Cast, called the way Cast.Apply calls
// it, for every pair (element type of the operand, data_type code of the target): the ten
// numeric types convert into one another, every other pair - also a type "converted" to
// itself - is refused with an error.
func c11ConversionPairs(c *Ctx) {
	numeric := map[ref.DType]bool{ref.F32: true, ref.F64: true, ref.I8: true, ref.I16: true, ref.I32: true, ref.I64: true, ref.U8: true, ref.U16: true, ref.U32: true, ref.U64: true}
	for _, from := range gen.All14 {
		for code := int32(-1); code <= 20; code++ {
			to, known := ref.FromOnnxCode(code)
			supported := numeric[from] && known && numeric[to]
			t := mon.ToTensor(c.R.Tensor(from, []int{2}, gen.FillSmall, 3))
			var out tensor.Tensor
			o := mon.Capture(nil, func() ([]tensor.Tensor, error) {
				var err error
				out, err = ops.ConvertTensorDtype(t, code)
				return nil, err
			})
			c.Eval(1)
			switch {
			case o.Kind == mon.Panic:
				c.Violation("Cast:panic", "ConvertTensorDtype(%v operand, target code %d): %s", from, code, o.Describe())
			case supported && o.Kind == mon.Error:
				c.Violation("Cast:refused-valid", "ConvertTensorDtype(%v operand, target code %d) refused: %v", from, code, o.Err)
			case !supported && o.Kind != mon.Error:
				c.Violation("Cast:accepted-invalid", "ConvertTensorDtype(%v operand, target code %d) is not a supported conversion but returned a tensor of type %v", from, code, out.Dtype())
			}
		}
	}
	c.Count("conversion-routine-pairs-enumerated", 1)
}

func c11Run(c *Ctx) {
	if c.Idx == 0 {
		c11ConversionPairs(c)
	}
	if c.Idx%16 == 9 {
		c11Shared(c)
		return
	}
	var req mon.OpReq
	var exp Expect
	ok := false
	switch c.R.Intn(10) {
	case 0, 1, 2:
		req, exp, ok = genConstant(c.R, false)
	case 3, 4, 5:
		req, exp, ok = genConstantOfShape(c.R, false)
	default:
		req, exp, ok = genCast(c.R, false)
	}
	if !ok {
		c.Skip("generator produced a value outside the defined conversion domain")
		return
	}
	c.SetCase("%s", req.Describe())
	desc := trunc(req.Describe(), 500)
	c.Nontrivial(desc)
	c.Count("class:"+req.Op+"/"+exp.Kind.String(), 1)
	if req.Op == "Cast" && len(exp.Want) > 0 {
		c.Distinct("cast-pair", fmt.Sprintf("%v->%v", req.Inputs[0].DT, exp.Want[0].T.DT))
	}
	mo := mon.ModelOpts{InitMask: uint64(c.R.Intn(2)), RawInits: c.R.Bool()}
	CheckOp(c, req, exp, c.Idx%3 == 0, mo, nil)
	if c.Idx%7000 == 13 {
		s := map[string]any{"request": trunc(req.Describe(), 300), "expectation": exp.Kind.String(), "why": exp.Why}
		if len(exp.Want) > 0 && exp.Want[0] != nil {
			s["expected"] = trunc(exp.Want[0].T.String(), 200)
		}
		c.Sample(s)
	}
}
