package props

import (
	"fmt"
	"math"
	"sync"

	"github.com/advancedclimatesystems/gonnx/ops"
	"gorgonia.org/tensor"

	"verif/harness/gen"
	"verif/harness/mon"
	"verif/harness/ref"
)

// C14 — broadcast helpers. Bounded-exhaustive over all ordered pairs of shapes
// of rank 0..4 with extents 1..4 (341 shapes, 116 281 pairs), both helpers,
// every result read element by element; plus random larger pairs in thorough.

var c14Shapes = func() [][]int {
	var out [][]int
	out = append(out, []int{})
	var rec func(prefix []int, rank int)
	rec = func(prefix []int, rank int) {
		if len(prefix) == rank {
			out = append(out, append([]int{}, prefix...))
			return
		}
		for e := 1; e <= 4; e++ {
			rec(append(prefix, e), rank)
		}
	}
	for r := 1; r <= 4; r++ {
		rec(nil, r)
	}
	return out
}()

const c14PairsPerCase = 64

func c14Exhaustive() int { return len(c14Shapes) * len(c14Shapes) }

func c14Cases(tier string) int {
	base := (c14Exhaustive() + c14PairsPerCase - 1) / c14PairsPerCase
	switch tier {
	case "thorough":
		return base*len(gen.Data13) + 400000/c14PairsPerCase
	case "race":
		return base / 4
	}
	return base + 60000/c14PairsPerCase // the enumerated pairs, then random larger shapes
}

func init() {
	Register(&Property{
		ID:             "C14",
		Title:          "Broadcast helpers implement ONNX multi- and unidirectional broadcasting",
		Cases:          c14Cases,
		Run:            c14Run,
		Floor:          func(tier string) int { return 50000 },
		Rule:           "(every 64th case: sequences of shape pairs that coincide under weak memo keys - polynomial folds with bases 10..61, unseparated decimals - the second pair needing another plan than the first) (also operands laid over one buffer: the same elements under two shapes, a row of the first operand as the second) (plus pairs with zero extents - (0,1) and (0,0) are compatible, (0,k>1) is not - and one second source shared by 8 goroutines x 40 concurrent calls) bounded-exhaustive: every ordered pair of shapes of rank 0..4 with extents 1..4 (341^2 = 116281 pairs) through ops.MultidirectionalBroadcast and ops.UnidirectionalBroadcast, operands unique-valued so each output element identifies its source; quick rotates the element type over all 13 value-carrying types (String is probed separately) by pair index, thorough repeats the whole space for each of the 13 value-carrying element types plus 50000 random pairs of rank<=5, extents<=9. A pair is non-trivial when the two shapes differ (something is stretched, padded or must be rejected); distinct = distinct (helper-independent) (shapeA, shapeB, dtype) descriptors.",
		Exhaustive:     func(tier string) bool { return true },
		RaceInThorough: true,
		Technique:      "runtime monitoring: bounded-exhaustive differential test of the real helpers against an independent index-map reference, with deep input fingerprints (sources unmodified)",
		Assumptions:    []string{"reference broadcast index map (harness/ref/broadcast.go) is correct (self-tested on hand-computed cases)", "gorgonia At()/Data() report the tensor contents faithfully"},
	})
}

func c14Run(c *Ctx) {
	if c.Idx == 0 {
		c14StringProbe(c)
	}
	if c.Idx == 1 { // one pair whose broadcast result has more than 2^24 elements (the operands are small)
		c14Pair(c, []int{4097, 1}, []int{1, 4096}, ref.U8)
	}
	if c.Idx%4 == 1 {
		for k := 0; k < 4; k++ {
			c14ZeroExtents(c)
		}
	}
	if c.Idx%16 == 3 {
		c14SharedSource(c)
	}
	if c.Idx%8 == 6 {
		c14OverlappingBacking(c)
	}
	if c.Idx%8 == 2 {
		c14SameObject(c)
	}
	if c.Idx%8 == 4 {
		c14Dispatch(c)
	}
	if c.Idx%64 == 5 {
		c14KeyCollisions(c)
	}
	nEx := c14Exhaustive()
	exCases := (nEx + c14PairsPerCase - 1) / c14PairsPerCase
	for k := 0; k < c14PairsPerCase; k++ {
		var sa, sb []int
		var dt ref.DType
		switch {
		case c.Idx < exCases*len(gen.Data13) && (c.Tier == "thorough" || c.Idx < exCases):
			pass := c.Idx / exCases
			pi := (c.Idx%exCases)*c14PairsPerCase + k
			if c.Tier == "race" { // a quarter of the space, strided
				pi = (pi*4 + int(c.Seed%4)) % nEx
			}
			if pi >= nEx {
				return
			}
			sa, sb = c14Shapes[pi/len(c14Shapes)], c14Shapes[pi%len(c14Shapes)]
			if c.Tier == "thorough" {
				dt = gen.Data13[pass]
			} else {
				dt = gen.Data13[(pi+int(c.Seed))%len(gen.Data13)]
			}
		default:
			sa = c.R.Shape(0, 6, 9, 400)
			sb = c.R.Shape(0, 6, 9, 400)
			if c.R.Chance(0.7) { // make them compatible more often
				sb = compatibleWith(c.R, sa)
			}
			if c.R.Chance(0.04) { // ranks beyond 8, mostly extent 1
				rk := c.R.Range(9, 11)
				sa, sb = make([]int, rk), make([]int, c.R.Range(1, rk))
				for i := range sa {
					sa[i] = 1
					if c.R.Chance(0.25) {
						sa[i] = c.R.Range(2, 3)
					}
				}
				for i := range sb {
					j := len(sa) - len(sb) + i
					sb[i] = 1
					switch {
					case sa[j] > 1 && c.R.Bool():
						sb[i] = sa[j]
					case sa[j] == 1 && c.R.Chance(0.4):
						sb[i] = c.R.Range(2, 3)
					}
				}
				if c.R.Bool() {
					sa, sb = sb, sa
				}
			}
			if len(sa) >= 3 && c.R.Chance(0.3) { // "one value per channel": (1, C, 1, ..., 1), also without the leading axes
				sb = make([]int, len(sa))
				for i := range sb {
					sb[i] = 1
				}
				sb[1] = sa[1]
				if c.R.Bool() {
					sb[0] = sa[0]
				}
				sb = sb[c.R.Intn(2):]
			}
			dt = gen.Data13[c.R.Intn(len(gen.Data13))]
		}
		c14Pair(c, sa, sb, dt)
	}
}

// c14KeyCollisions: the helpers are stateless, so what they answer for a pair of shapes may not
// depend on the pairs answered before. A plan or verdict remembered per shape pair under a weak
// key (a polynomial fold of the extents, the extents written one after another) is invisible on
// one-digit extents; these sequences are pairs of shape pairs that coincide under the common
// weak keys: (x, y+b) ~ (x+1, y) for the fold bases b in use for hashing, and decimal
// spellings that read the same without separators. The second pair of each sequence needs another
// plan (or a refusal) than the first.
type shapePair struct{ a, b []int }

func weakKeySeqs(y int) [][2]shapePair {
	type pair = shapePair
	var seqs [][2]pair
	for _, b := range []int{10, 16, 31, 33, 37, 61} {
		seqs = append(seqs,
			[2]pair{{[]int{1, b + y}, []int{3, b + y}}, {[]int{2, y}, []int{3, b + y}}}, // compatible, then not
			[2]pair{{[]int{1, b + 1}, []int{1, 1}}, {[]int{2, 1}, []int{1, 1}}},         // stretch B's last axis, then its first
			[2]pair{{[]int{2, y}, []int{1, b + y + 1}}, {[]int{1, b + y}, []int{1, b + y + 1}}},
			[2]pair{{[]int{b + y, 1, 1}, []int{1, y, 1}}, {[]int{b + y, 1}, []int{b + y, 1}}},
		)
	}
	seqs = append(seqs,
		[2]pair{{[]int{1, 1, 1}, []int{1, 1, 1}}, {[]int{11, 1}, []int{1, 11}}},
		[2]pair{{[]int{1, 12}, []int{1, 1}}, {[]int{11, 2}, []int{1, 1}}},
		[2]pair{{[]int{2, 1}, []int{1, 21}}, {[]int{21}, []int{1, 21}}},
		[2]pair{{[]int{1, 1, 3}, []int{1, 3}}, {[]int{11, 3}, []int{1, 3}}},
	)
	return seqs
}

func c14KeyCollisions(c *Ctx) {
	y := 2 + int((uint64(c.Seed)+uint64(c.Idx/64))%7)
	for _, s := range weakKeySeqs(y) {
		for _, p := range s {
			c14Pair(c, p.a, p.b, ref.U8)
			c.Count("weak-key-collision-pairs", 1)
		}
	}
}

// c14ZeroExtents: shapes with an extent of 0 (an empty batch). The rule of the statement
// applies as it stands: a pair of extents is compatible when equal or containing a 1, so
// (0,1) and (0,0) are compatible - the stretched axis has 0 entries - and (0,k>1) is not.
// There are no elements to read; shapes, errors and the untouched sources are checked.
func c14ZeroExtents(c *Ctx) {
	r := c.R
	sa := r.Shape(1, 4, 4, 64)
	sa[r.Intn(len(sa))] = 0
	if r.Chance(0.2) {
		sa[r.Intn(len(sa))] = 0
	}
	rank := r.Range(0, 4)
	sb := make([]int, rank)
	for i := range sb {
		j := len(sa) - rank + i
		switch {
		case j >= 0 && r.Chance(0.5):
			sb[i] = sa[j]
		case r.Chance(0.7):
			sb[i] = 1
		default:
			sb[i] = r.Range(0, 3)
		}
	}
	if r.Bool() {
		sa, sb = sb, sa
	}
	n := len(sa)
	if len(sb) > n {
		n = len(sb)
	}
	want := make([]int, n)
	compatible := true
	for i := 0; i < n; i++ {
		ea, eb := 1, 1
		if j := len(sa) - n + i; j >= 0 {
			ea = sa[j]
		}
		if j := len(sb) - n + i; j >= 0 {
			eb = sb[j]
		}
		switch {
		case ea == eb, eb == 1:
			want[i] = ea
		case ea == 1:
			want[i] = eb
		default:
			compatible = false
		}
	}
	uni := compatible && ref.ShapeEq(want, sa)
	dt := gen.Data13[r.Intn(len(gen.Data13))]
	a, b := r.Tensor(dt, sa, gen.FillUnique, 0), r.Tensor(dt, sb, gen.FillUnique, 0)
	c.SetCase("broadcast with zero extents %v with %v (%v)", sa, sb, dt)
	c.Nontrivial(fmt.Sprintf("zero|%v|%v", sa, sb))
	c.Count("pairs-with-a-zero-extent", 1)
	for _, which := range []string{"multidir", "unidir"} {
		ta, tb := mon.ToTensor(a), mon.ToTensor(b)
		var ra, rb tensor.Tensor
		o := mon.Capture(nil, func() ([]tensor.Tensor, error) {
			var err error
			if which == "multidir" {
				ra, rb, err = ops.MultidirectionalBroadcast(ta, tb)
			} else {
				ra, rb, err = ops.UnidirectionalBroadcast(ta, tb)
			}
			return nil, err
		})
		c.Eval(1)
		ok, shape := compatible, want
		if which == "unidir" {
			ok, shape = uni, sa
		}
		switch {
		case o.Kind == mon.Panic:
			c.Violation(which+":panic", "%v with %v: %s", sa, sb, o.Describe())
		case ok && o.Kind == mon.Error:
			c.Violation(which+":refused-valid", "compatible shapes %v and %v (zero extent) refused: %v", sa, sb, o.Err)
		case !ok && o.Kind != mon.Error:
			c.Violation(which+":accepted-invalid", "incompatible shapes %v and %v (zero extent) accepted", sa, sb)
		case ok:
			if ra == nil || rb == nil || !ref.ShapeEq([]int(ra.Shape()), shape) || !ref.ShapeEq([]int(rb.Shape()), shape) {
				c.Violation(which+":wrong-shape", "%v with %v: result shapes %v and %v, expected %v", sa, sb, shapeOf(ra), shapeOf(rb), shape)
			}
		}
		if !ref.ShapeEq([]int(ta.Shape()), sa) || !ref.ShapeEq([]int(tb.Shape()), sb) {
			c.Violation(which+":source-modified", "%v with %v: the sources have shapes %v and %v afterwards", sa, sb, ta.Shape(), tb.Shape())
		}
	}
}

// c14SharedSource: "the source tensors are never modified" - not even for the duration
// of a call: one tensor object serves as the second source of calls made from several
// goroutines at once (each with its own first source), as a weight shared by concurrent
// Runs does. Every call must succeed with the right operands; the shared source keeps
// its shape and contents.
func c14SharedSource(c *Ctx) {
	r := c.R
	sa := r.Shape(2, 4, 4, 200)
	sb := append([]int{}, sa[r.Range(1, len(sa)-1):]...)
	for i := range sb {
		if r.Chance(0.3) {
			sb[i] = 1
		}
	}
	dt := ref.F32
	b := r.Tensor(dt, sb, gen.FillUnique, 0)
	tb := mon.ToTensor(b)
	fb := mon.Fp(tb)
	wantB := ref.BroadcastTo(b, sa)
	uni := r.Bool()
	const G, N = 8, 40
	c.SetCase("one second source %v shared by %d goroutines x %d calls with first sources %v (unidirectional %v)", sb, G, N, sa, uni)
	c.Nontrivial(fmt.Sprintf("shared|%v|%v|%v", sa, sb, uni))
	c.Count("shared-source-trials", 1)
	var mu sync.Mutex
	var fails []string
	var wg sync.WaitGroup
	start := make(chan struct{})
	for g := 0; g < G; g++ {
		a := r.Tensor(dt, sa, gen.FillUnique, 0)
		wg.Add(1)
		go func(g int, a *ref.T) {
			defer wg.Done()
			<-start
			for n := 0; n < N; n++ {
				ta := mon.ToTensor(a)
				o := mon.Capture(nil, func() ([]tensor.Tensor, error) {
					var x, y tensor.Tensor
					var err error
					if uni {
						x, y, err = ops.UnidirectionalBroadcast(ta, tb)
					} else {
						x, y, err = ops.MultidirectionalBroadcast(ta, tb)
					}
					if err != nil {
						return nil, err
					}
					return []tensor.Tensor{x, y}, nil
				})
				if v := Judge(Expect{Kind: MustEqual, Mode: CmpBits, Want: Exact(a, wantB)}, o); !v.OK {
					mu.Lock()
					fails = append(fails, fmt.Sprintf("goroutine %d call %d: %s: %s", g, n, v.Kind, trunc(v.Detail, 300)))
					mu.Unlock()
					return
				}
			}
		}(g, a)
	}
	close(start)
	wg.Wait()
	c.Eval(G * N)
	if len(fails) > 0 {
		c.Violation("shared-source:call-disturbed-by-a-concurrent-call", "%d of %d goroutines failed, first: %s", len(fails), G, fails[0])
	}
	if ok, what := fb.Equal(mon.Fp(tb)); !ok {
		c.Violation("shared-source:source-modified", "the shared second source %v changed: %s", sb, what)
	}
}

// c14OverlappingBacking: two tensor objects laid over one buffer (the same elements under
// two shapes; a row of the first operand as the second). What the helpers return depends
// on the shapes and the elements the operands hold - not on where those elements live.
func c14OverlappingBacking(c *Ctx) {
	r := c.R
	sa := r.Shape(1, 3, 4, 48)
	var sb []int
	na := ref.NumElems(sa)
	off := 0
	switch r.Intn(3) {
	case 0: // the same elements under another shape
		sb = [][]int{{na}, {na, 1}, {1, na}, append([]int{1}, sa...)}[r.Intn(4)]
	case 1: // the trailing axes of the first operand, starting somewhere inside it
		sb = append([]int{}, sa[r.Intn(len(sa)):]...)
		if nb := ref.NumElems(sb); na > nb {
			off = nb * r.Intn(na/nb)
		}
	default: // a compatible (or not) shape over the beginning of the buffer
		sb = compatibleWith(r, sa)
		if ref.NumElems(sb) > na || ref.NumElems(sb) == 0 {
			sb = []int{sa[len(sa)-1]}
		}
	}
	nb := ref.NumElems(sb)
	if off+nb > na || na == 0 || nb == 0 {
		return
	}
	data := make([]float32, na)
	a, b := ref.New(ref.F32, sa...), ref.New(ref.F32, sb...)
	for i := range data {
		data[i] = float32(i*3 + 1)
		a.Bits[i] = ref.EncF(ref.F32, float64(data[i]))
	}
	for i := range b.Bits {
		b.Bits[i] = ref.EncF(ref.F32, float64(data[off+i]))
	}
	c.SetCase("broadcast of two tensors over one buffer: %v and %v (the second starts at element %d of the first)", sa, sb, off)
	c.Nontrivial(fmt.Sprintf("overlap|%v|%v|%d", sa, sb, off))
	c.Count("pairs-over-one-buffer", 1)
	want, werr := ref.BroadcastShape(sa, sb)
	for _, which := range []string{"multidir", "unidir"} {
		ta := tensor.New(tensor.WithShape(sa...), tensor.WithBacking(data[:na:na]))
		tb := tensor.New(tensor.WithShape(sb...), tensor.WithBacking(data[off:off+nb:off+nb]))
		o := mon.Capture(nil, func() ([]tensor.Tensor, error) {
			var x, y tensor.Tensor
			var err error
			if which == "multidir" {
				x, y, err = ops.MultidirectionalBroadcast(ta, tb)
			} else {
				x, y, err = ops.UnidirectionalBroadcast(ta, tb)
			}
			if err != nil {
				return nil, err
			}
			return []tensor.Tensor{x, y}, nil
		})
		c.Eval(1)
		exp := Expect{Kind: MustError, Why: "shapes do not broadcast", Mode: CmpBits}
		switch {
		case which == "multidir" && werr == nil:
			exp = Expect{Kind: MustEqual, Mode: CmpBits, Want: Exact(ref.BroadcastTo(a, want), ref.BroadcastTo(b, want))}
		case which == "unidir" && ref.UniBroadcastable(sa, sb):
			exp = Expect{Kind: MustEqual, Mode: CmpBits, Want: Exact(a, ref.BroadcastTo(b, sa))}
		}
		if v := Judge(exp, o); !v.OK {
			c.Violation(which+":"+v.Kind, "operands over one buffer, %v and %v (offset %d): %s", sa, sb, off, trunc(v.Detail, 400))
		}
		for i := range data {
			if data[i] != float32(i*3+1) {
				c.Violation(which+":source-modified", "operands over one buffer, %v and %v: element %d of the buffer changed", sa, sb, i)
				break
			}
		}
		if !ref.ShapeEq([]int(ta.Shape()), sa) || !ref.ShapeEq([]int(tb.Shape()), sb) {
			c.Violation(which+":source-modified", "operands over one buffer: shapes afterwards %v and %v", ta.Shape(), tb.Shape())
		}
	}
}

// c14SameObject: one tensor object at both operand positions (x op x): both broadcast
// operands are that tensor's elements under its own shape, and the object is left as it is.
func c14SameObject(c *Ctx) {
	r := c.R
	sa := r.Shape(0, 5, 4, 120)
	dt := gen.Data13[r.Intn(len(gen.Data13))]
	a := r.Tensor(dt, sa, gen.FillUnique, 0)
	if len(a.Bits) == 0 {
		return
	}
	c.SetCase("broadcast of one tensor object %v with itself (%v)", sa, dt)
	c.Count("one-object-at-both-positions", 1)
	for _, which := range []string{"multidir", "unidir"} {
		t := mon.ToTensor(a)
		fp := mon.Fp(t)
		o := mon.Capture(nil, func() ([]tensor.Tensor, error) {
			var x, y tensor.Tensor
			var err error
			if which == "multidir" {
				x, y, err = ops.MultidirectionalBroadcast(t, t)
			} else {
				x, y, err = ops.UnidirectionalBroadcast(t, t)
			}
			if err != nil {
				return nil, err
			}
			return []tensor.Tensor{x, y}, nil
		})
		c.Eval(1)
		if v := Judge(Expect{Kind: MustEqual, Mode: CmpBits, Want: Exact(a, a)}, o); !v.OK {
			c.Violation(which+":"+v.Kind, "one tensor object %v at both positions: %s", sa, trunc(v.Detail, 400))
		}
		if ok, what := fp.Equal(mon.Fp(t)); !ok {
			c.Violation(which+":source-modified", "one tensor object %v at both positions was modified: %s", sa, what)
		}
	}
}

// c14Dispatch: the dispatching helper ops.ApplyBinaryOperation hands its operation the
// operands broadcast the way the option says: unidirectional means the first operand's
// shape (or an error), multidirectional the common shape, none the operands as they are.
func c14Dispatch(c *Ctx) {
	r := c.R
	sa := r.Shape(0, 4, 4, 60)
	sb := compatibleWith(r, sa)
	if r.Chance(0.3) {
		sb = r.Shape(0, 4, 4, 60)
	}
	if r.Bool() {
		sa, sb = sb, sa
	}
	a, b := r.Tensor(ref.F32, sa, gen.FillUnique, 0), r.Tensor(ref.F32, sb, gen.FillUnique, 0)
	if len(a.Bits) == 0 || len(b.Bits) == 0 {
		return
	}
	want, werr := ref.BroadcastShape(sa, sb)
	c.SetCase("ApplyBinaryOperation on %v and %v under each broadcast option", sa, sb)
	c.Count("dispatch-helper-pairs", 1)
	for _, opt := range []ops.BroadcastType{ops.NoBroadcasting, ops.UnidirectionalBroadcasting, ops.MultidirectionalBroadcasting} {
		var gotA, gotB []int
		o := mon.Capture(nil, func() ([]tensor.Tensor, error) {
			_, err := ops.ApplyBinaryOperation(mon.ToTensor(a), mon.ToTensor(b), func(A, B tensor.Tensor) (tensor.Tensor, error) {
				gotA, gotB = append([]int{}, A.Shape()...), append([]int{}, B.Shape()...)
				return A, nil
			}, opt)
			return nil, err
		})
		c.Eval(1)
		expA, expB, mustErr := sa, sb, false
		switch opt {
		case ops.UnidirectionalBroadcasting:
			expA, expB, mustErr = sa, sa, !ref.UniBroadcastable(sa, sb)
		case ops.MultidirectionalBroadcasting:
			expA, expB, mustErr = want, want, werr != nil
		}
		switch {
		case o.Kind == mon.Panic:
			c.Violation("dispatch:panic", "option %d on %v and %v: %s", opt, sa, sb, o.Describe())
		case mustErr && o.Kind != mon.Error:
			c.Violation("dispatch:accepted-invalid", "option %d on %v and %v: the operation received %v and %v, an error was due", opt, sa, sb, gotA, gotB)
		case !mustErr && o.Kind == mon.Error:
			c.Violation("dispatch:refused-valid", "option %d on %v and %v: %v", opt, sa, sb, o.Err)
		case !mustErr && (!ref.ShapeEq(gotA, expA) || !ref.ShapeEq(gotB, expB)):
			c.Violation("dispatch:wrong-shape", "option %d on %v and %v: the operation received %v and %v, expected %v and %v", opt, sa, sb, gotA, gotB, expA, expB)
		}
	}
}

func shapeOf(t tensor.Tensor) []int {
	if t == nil {
		return nil
	}
	return []int(t.Shape())
}

func compatibleWith(r *gen.R, sa []int) []int {
	rank := r.Range(0, 6)
	sb := make([]int, rank)
	for i := range sb {
		j := len(sa) - rank + i
		switch {
		case j >= 0 && r.Chance(0.6):
			sb[i] = sa[j]
		case r.Chance(0.7):
			sb[i] = 1
		default:
			sb[i] = r.Extent(9)
		}
	}
	return sb
}

func c14Pair(c *Ctx, sa, sb []int, dt ref.DType) {
	a := c.R.Tensor(dt, sa, gen.FillUnique, 0)
	dtB := dt
	if c.R.Chance(0.1) { // the helpers never look at the element types: operands of two types
		dtB = gen.Data13[c.R.Intn(len(gen.Data13))]
		c.Count("pairs-with-two-element-types", 1)
	}
	b := c.R.Tensor(dtB, sb, gen.FillUnique, 0)
	// make b's values disjoint from a's so a swap of operands is visible
	for i := range b.Bits {
		switch {
		case dtB.IsFloat():
			b.Bits[i] = ref.EncF(dtB, b.F(i)+1000)
		case dtB != ref.Bool && dtB != ref.I8 && dtB != ref.U8 && dtB != ref.C64 && dtB != ref.C128:
			b.Bits[i] = ref.Wrap(dtB, b.Bits[i]+1000)
		}
	}
	// special values: the broadcast must copy them bit for bit (-0, NaN payloads, infinities)
	for _, t := range []*ref.T{a, b} {
		if t.DT.IsFloat() && len(t.Bits) > 0 && c.R.Chance(0.3) {
			for n := c.R.Range(1, 3); n > 0; n-- {
				t.Bits[c.R.Intn(len(t.Bits))] = ref.EncF(t.DT, c.R.PickFloat(math.Copysign(0, -1), math.Inf(1), math.Inf(-1), math.NaN(), 0, math.SmallestNonzeroFloat32))
			}
		}
	}
	desc := fmt.Sprintf("%v|%v|%v|%v", sa, sb, dt, dtB)
	c.SetCase("broadcast %v with %v (%v)", sa, sb, dt)
	if !ref.ShapeEq(sa, sb) {
		c.Nontrivial(desc)
	}
	want, werr := ref.BroadcastShape(sa, sb)
	// other contents for the same tensor objects (second call after an in-place update)
	a2, b2 := a.Clone(), b.Clone()
	for _, t := range []*ref.T{a2, b2} {
		if n := len(t.Bits); n > 1 {
			first := t.Bits[0]
			copy(t.Bits, t.Bits[1:])
			t.Bits[n-1] = first
		}
	}

	// multidirectional
	{
		ta, tb := mon.ToTensor(a), mon.ToTensor(b)
		fa, fb := mon.Fp(ta), mon.Fp(tb)
		var ra, rb tensor.Tensor
		o := mon.Capture(nil, func() ([]tensor.Tensor, error) {
			x, y, err := ops.MultidirectionalBroadcast(ta, tb)
			ra, rb = x, y
			if err != nil {
				return nil, err
			}
			return []tensor.Tensor{x, y}, nil
		})
		c.Eval(1)
		exp := Expect{Kind: MustError, Why: "shapes do not broadcast", Mode: CmpBits}
		if werr == nil {
			exp = Expect{Kind: MustEqual, Mode: CmpBits, Want: Exact(ref.BroadcastTo(a, want), ref.BroadcastTo(b, want))}
		}
		c.Count(fmt.Sprintf("multidir:%s/%s", exp.Kind, o.Kind), 1)
		if v := Judge(exp, o); !v.OK {
			c.Violation("multidir:"+v.Kind, "MultidirectionalBroadcast(%v, %v) %v: %s", sa, sb, dt, trunc(v.Detail, 400))
		}
		_, _ = ra, rb
		if ok, what := fa.Equal(mon.Fp(ta)); !ok {
			c.Violation("multidir:source-modified", "MultidirectionalBroadcast(%v, %v) modified its first source: %s", sa, sb, what)
		}
		if ok, what := fb.Equal(mon.Fp(tb)); !ok {
			c.Violation("multidir:source-modified", "MultidirectionalBroadcast(%v, %v) modified its second source: %s", sa, sb, what)
		}
		c14Again(c, "multidir", ta, tb, a2, b2, sa, sb, want, werr == nil, false)
	}
	// unidirectional (B -> A)
	{
		ta, tb := mon.ToTensor(a), mon.ToTensor(b)
		fa, fb := mon.Fp(ta), mon.Fp(tb)
		var ra tensor.Tensor
		o := mon.Capture(nil, func() ([]tensor.Tensor, error) {
			x, y, err := ops.UnidirectionalBroadcast(ta, tb)
			ra = x
			if err != nil {
				return nil, err
			}
			return []tensor.Tensor{x, y}, nil
		})
		c.Eval(1)
		exp := Expect{Kind: MustError, Why: "B does not broadcast unidirectionally to A", Mode: CmpBits}
		if ref.UniBroadcastable(sa, sb) {
			exp = Expect{Kind: MustEqual, Mode: CmpBits, Want: Exact(a, ref.BroadcastTo(b, sa))}
		}
		c.Count(fmt.Sprintf("unidir:%s/%s", exp.Kind, o.Kind), 1)
		if v := Judge(exp, o); !v.OK {
			c.Violation("unidir:"+v.Kind, "UnidirectionalBroadcast(%v, %v) %v: %s", sa, sb, dt, trunc(v.Detail, 400))
		}
		_ = ra
		if ok, what := fa.Equal(mon.Fp(ta)); !ok {
			c.Violation("unidir:source-modified", "UnidirectionalBroadcast(%v, %v) modified its first operand: %s", sa, sb, what)
		}
		if ok, what := fb.Equal(mon.Fp(tb)); !ok {
			c.Violation("unidir:source-modified", "UnidirectionalBroadcast(%v, %v) modified its second operand: %s", sa, sb, what)
		}
		c14Again(c, "unidir", ta, tb, a2, b2, sa, sb, sa, ref.UniBroadcastable(sa, sb), true)
	}
	if c.Idx%97 == 0 && len(sa) > 0 && len(sb) > 0 && !ref.ShapeEq(sa, sb) {
		c.Sample(map[string]any{"A": sa, "B": sb, "dtype": dt.String(), "multidir_expected_shape": want, "compatible": werr == nil, "unidir_compatible": ref.UniBroadcastable(sa, sb)})
	}
}

// c14Again: the caller overwrites the contents of the two source tensors in
// place and broadcasts the same tensor objects again; the broadcast operands
// must hold the CURRENT source elements.
func c14Again(c *Ctx, which string, ta, tb tensor.Tensor, a2, b2 *ref.T, sa, sb, shape []int, compatible, uni bool) {
	if !compatible || c.Idx%2 == 1 || a2.DT == ref.Str || len(a2.Bits) == 0 || len(b2.Bits) == 0 {
		return
	}
	if !mon.Overwrite(ta, a2) || !mon.Overwrite(tb, b2) {
		return
	}
	o := mon.Capture(nil, func() ([]tensor.Tensor, error) {
		var x, y tensor.Tensor
		var err error
		if uni {
			x, y, err = ops.UnidirectionalBroadcast(ta, tb)
		} else {
			x, y, err = ops.MultidirectionalBroadcast(ta, tb)
		}
		if err != nil {
			return nil, err
		}
		return []tensor.Tensor{x, y}, nil
	})
	c.Eval(1)
	c.Count(which+":second-call-after-in-place-update", 1)
	exp := Expect{Kind: MustEqual, Mode: CmpBits, Want: Exact(ref.BroadcastTo(a2, shape), ref.BroadcastTo(b2, shape))}
	if v := Judge(exp, o); !v.OK {
		c.Violation(which+":stale-after-in-place-update:"+v.Kind, "broadcasting the same tensor objects (%v, %v) again after their contents were overwritten in place: %s", sa, sb, trunc(v.Detail, 400))
		return
	}
	// third call: the owner has reshaped the first tensor object in place (same rank, extents in
	// reverse order); whether and how the pair broadcasts follows from the shapes the objects have NOW
	if len(sa) < 2 || c.Idx%4 != 0 {
		return
	}
	rev := make([]int, len(sa))
	for i := range sa {
		rev[i] = sa[len(sa)-1-i]
	}
	if ref.ShapeEq(rev, sa) || ta.Reshape(rev...) != nil {
		return
	}
	a3 := a2.Clone()
	a3.Shape = rev
	o3 := mon.Capture(nil, func() ([]tensor.Tensor, error) {
		var x, y tensor.Tensor
		var err error
		if uni {
			x, y, err = ops.UnidirectionalBroadcast(ta, tb)
		} else {
			x, y, err = ops.MultidirectionalBroadcast(ta, tb)
		}
		if err != nil {
			return nil, err
		}
		return []tensor.Tensor{x, y}, nil
	})
	c.Eval(1)
	c.Count(which+":third-call-after-in-place-reshape", 1)
	exp3 := Expect{Kind: MustError, Mode: CmpBits, Why: "the reshaped pair does not broadcast"}
	if uni {
		if ref.UniBroadcastable(rev, sb) {
			exp3 = Expect{Kind: MustEqual, Mode: CmpBits, Want: Exact(a3, ref.BroadcastTo(b2, rev))}
		}
	} else if w3, err := ref.BroadcastShape(rev, sb); err == nil {
		exp3 = Expect{Kind: MustEqual, Mode: CmpBits, Want: Exact(ref.BroadcastTo(a3, w3), ref.BroadcastTo(b2, w3))}
	}
	if v := Judge(exp3, o3); !v.OK {
		c.Violation(which+":stale-after-in-place-reshape:"+v.Kind, "broadcasting the same tensor objects again after the first was reshaped in place %v -> %v (second %v): %s", sa, rev, sb, trunc(v.Detail, 400))
	}
}
