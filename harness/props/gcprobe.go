package props

import (
	"fmt"
	"runtime"
	"runtime/debug"
	"sync"
	"sync/atomic"

	"github.com/advancedclimatesystems/gonnx"

	"verif/harness/mon"
	"verif/harness/ref"
)

// GCProbe is the deterministic-as-possible demonstration of the recorded C17
// finding "tensor memory is freed while it is only referenced through a
// uintptr" (gorgonia v0.9.24 builds slices from reflect.SliceHeader values whose
// Data field is a uintptr: array.Data, storage.AsByteSlice; a collection whose
// stack scan falls between reading the address and storing the slice frees the
// backing array of a tensor that has no other live reference).
//
// It runs in a child process of its own (the corruption can end in a fatal
// runtime error). G goroutines share ONE loaded model y = PRelu(x, slope) on
// int64 scalars - the scalar path of PRelu works on temporary clones, i.e. on
// tensors with no other reference - under an aggressive collector
// (SetGCPercent(5)) and compare every result with the value obtained alone.
// The run stops at the first result that differs.
func GCProbe(goroutines, runsEach int) (observed int64, detail string) {
	debug.SetGCPercent(5)
	runtime.GOMAXPROCS(16)
	x, s := ref.FromI(ref.I64, []int{}, []int64{-13}), ref.FromI(ref.I64, []int{}, []int64{2})
	g, _ := mon.BuildOpModel(mon.OpReq{Op: "PRelu", Inputs: []*ref.T{x, s}}, mon.ModelOpts{InitMask: 2})
	m, err := gonnx.NewModelFromBytes(g.Bytes())
	if err != nil {
		return 0, "model does not load: " + err.Error()
	}
	alone, err := m.Run(gonnx.Tensors{"i0": mon.ToTensor(x)})
	if err != nil {
		return 0, "sequential run fails: " + err.Error()
	}
	want := alone["o0"].Data()
	var bad, total int64
	var mu sync.Mutex
	var wg sync.WaitGroup
	var sink [][]byte
	for gi := 0; gi < goroutines; gi++ {
		wg.Add(1)
		go func(gi int) {
			defer wg.Done()
			for i := 0; i < runsEach && atomic.LoadInt64(&bad) == 0; i++ {
				out, err := m.Run(gonnx.Tensors{"i0": mon.ToTensor(x)})
				atomic.AddInt64(&total, 1)
				got := any(nil)
				if err == nil && out["o0"] != nil {
					got = out["o0"].Data()
				}
				if err != nil || got != want {
					if atomic.AddInt64(&bad, 1) == 1 {
						mu.Lock()
						detail = fmt.Sprintf("goroutine %d, Run %d of y = PRelu(x = int64 scalar -13, slope = int64 scalar 2) on the shared model returned %v (%v); alone it returns %v", gi, i, got, err, want)
						mu.Unlock()
					}
				}
				if i%32 == 0 { // heap churn so that collections keep coming
					mu.Lock()
					b := make([]byte, 8192)
					copy(b, "verifverifverif")
					sink = append(sink, b)
					if len(sink) > 64 {
						sink = sink[32:]
					}
					mu.Unlock()
				}
			}
		}(gi)
	}
	wg.Wait()
	if bad == 0 {
		detail = fmt.Sprintf("no differing result in %d concurrent Runs", total)
	} else {
		detail += fmt.Sprintf(" (after %d concurrent Runs in total)", total)
	}
	return bad, detail
}
