package props

import (
	"encoding/binary"
	"fmt"
	"os"
	"os/exec"
	"strings"
	"time"

	"github.com/advancedclimatesystems/gonnx"
)

// deepNestedModel renders a ModelProto whose only graph input has a type nested `levels` deep:
// TypeProto > sequence_type > elem_type > TypeProto > ... (ONNX messages are recursive). Lengths are
// computed from the inside out, the bytes are written from the outside in.
func deepNestedModel(levels int) []byte {
	vlen := func(n int) int {
		var b [10]byte
		return binary.PutUvarint(b[:], uint64(n))
	}
	// size[i] = size of the TypeProto at depth i (depth `levels` is the empty TypeProto)
	size := make([]int, levels+1)
	for i := levels - 1; i >= 0; i-- {
		seq := 1 + vlen(size[i+1]) + size[i+1] // Sequence{elem_type(1): TypeProto}
		size[i] = 1 + vlen(seq) + seq          // TypeProto{sequence_type(4): Sequence}
	}
	vi := 1 + vlen(size[0]) + size[0] // ValueInfoProto{type(2)}
	gr := 1 + vlen(vi) + vi           // GraphProto{input(11)}
	out := make([]byte, 0, gr+16)
	put := func(field, n int) {
		out = append(out, byte(field<<3|2))
		out = binary.AppendUvarint(out, uint64(n))
	}
	put(7, gr)
	put(11, vi)
	put(2, size[0])
	for i := 0; i < levels; i++ {
		seq := 1 + vlen(size[i+1]) + size[i+1]
		put(4, seq)
		put(1, size[i+1])
	}
	return out
}

// DeepNestProbe is run in a child process (`verifcheck deepnest`): a loader that decodes such a
// message without a nesting limit ends in a stack overflow, which no recover() can catch.
func DeepNestProbe() {
	for _, levels := range []int{100, 9000, 200000, 3000000} {
		b := deepNestedModel(levels)
		m, err := gonnx.NewModelFromBytes(b)
		fmt.Printf("DEEPNEST levels=%d bytes=%d loaded=%v err=%v\n", levels, len(b), m != nil && err == nil, err != nil)
	}
	fmt.Println("DEEPNEST done")
}

// c18DeepNesting: once per run, in a child process of its own.
func c18DeepNesting(c *Ctx) {
	exe, err := os.Executable()
	if err != nil {
		c.Skip("no executable path")
		return
	}
	c.SetCase("messages nested 100 .. 3 000 000 levels deep (child process)")
	c.Nontrivial("deep-nesting")
	cmd := exec.Command(exe, "deepnest")
	done := make(chan struct{})
	var out []byte
	go func() { out, err = cmd.CombinedOutput(); close(done) }()
	select {
	case <-done:
	case <-time.After(5 * time.Minute): // watchdog only: inconclusive, not a verdict
		_ = cmd.Process.Kill()
		<-done
		c.Skip("deep-nesting child did not finish (watchdog)")
		return
	}
	c.Eval(4)
	text := string(out)
	c.Count("deep-nesting-levels-answered", int64(strings.Count(text, "DEEPNEST levels=")))
	if !strings.Contains(text, "DEEPNEST done") {
		tail := text
		if i := strings.Index(tail, "fatal error"); i >= 0 {
			tail = tail[i:]
		}
		c.Violation("load:process-fatal-on-a-deeply-nested-message", "the loader's process died while decoding a deeply nested message (answered before it died: %d of 4 depths): %s", strings.Count(text, "DEEPNEST levels="), trunc(tail, 300))
	}
}
