// Command verifcheck is the supervisor and the worker of the runtime-monitoring
// checks (one binary, two roles; see DESIGN.md §2.1, M6).
package main

import (
	"context"
	"encoding/binary"
	"encoding/json"
	"flag"
	"fmt"
	"os"
	"os/exec"
	"path/filepath"
	"regexp"
	"runtime"
	"sort"
	"strconv"
	"strings"
	"sync"
	"syscall"
	"time"

	"verif/harness/props"
)

// verifDir is where known_findings.json, evidence/, replays/ and .work/ live.
var verifDir = func() string {
	if d := os.Getenv("VERIF_DIR"); d != "" {
		return d
	}
	return "/verif"
}()

func main() {
	if len(os.Args) < 2 {
		usage()
	}
	switch os.Args[1] {
	case "worker":
		worker(os.Args[2:])
	case "run":
		os.Exit(supervise(os.Args[2:]))
	case "replay":
		os.Exit(replay(os.Args[2:]))
	case "selftest":
		if err := props.SelfTest(); err != nil {
			fmt.Println("SELFTEST FAILED:", err)
			os.Exit(2)
		}
		fmt.Println("selftest ok")
	case "gcprobe":
		n, detail := props.GCProbe(16, 250000)
		fmt.Printf("PROBE observed=%d detail=%s\n", n, detail)
	case "deepnest":
		props.DeepNestProbe()
	case "list":
		fmt.Println(strings.Join(props.IDs(), " "))
	default:
		usage()
	}
}

func usage() {
	fmt.Fprintln(os.Stderr, "usage: verifcheck run -prop Cxx -tier quick|thorough | replay -file f | worker … | selftest | list")
	os.Exit(2)
}

// ---------------------------------------------------------------- worker ----

func worker(args []string) {
	fs := flag.NewFlagSet("worker", flag.ExitOnError)
	prop := fs.String("prop", "", "")
	tier := fs.String("tier", "quick", "")
	seed := fs.Uint64("seed", 1, "")
	from := fs.Int("from", 0, "")
	to := fs.Int("to", 0, "")
	out := fs.String("out", "", "")
	progress := fs.String("progress", "", "")
	verbose := fs.Bool("verbose", false, "")
	memcap := fs.Int("memcap", 0, "address-space cap in MiB (0 = none)")
	_ = fs.Parse(args)
	p := props.Get(*prop)
	if p == nil {
		fmt.Fprintln(os.Stderr, "unknown property", *prop)
		os.Exit(2)
	}
	if *memcap > 0 {
		lim := uint64(*memcap) << 20
		_ = syscall.Setrlimit(syscall.RLIMIT_AS, &syscall.Rlimit{Cur: lim, Max: lim})
	}
	var pf *os.File
	if *progress != "" {
		var err error
		pf, err = os.OpenFile(*progress, os.O_CREATE|os.O_WRONLY, 0o644)
		if err != nil {
			fmt.Fprintln(os.Stderr, err)
			os.Exit(2)
		}
	}
	r := props.NewRunner(p, *tier, *seed, *from, *to)
	var buf [8]byte
	for idx := *from; idx < *to; idx++ {
		if pf != nil {
			// write-ahead: the index is on disk before the case executes
			binary.LittleEndian.PutUint64(buf[:], uint64(idx)+1)
			_, _ = pf.WriteAt(buf[:], 0)
		}
		r.RunCase(idx, *verbose)
	}
	res := r.Finish()
	if *out != "" {
		if err := props.WriteResult(*out, res); err != nil {
			fmt.Fprintln(os.Stderr, err)
			os.Exit(2)
		}
	}
	if *verbose {
		for _, v := range res.Violations {
			fmt.Printf("violation idx=%d signature=%s\n  %s\n", v.Idx, v.Sig, v.Detail)
		}
		if len(res.Violations) == 0 {
			fmt.Println("no violation in the replayed range")
		}
	}
}

// ------------------------------------------------------------ supervisor ----

type known struct {
	Status    string `json:"status"`
	Property  string `json:"property"`
	Signature string `json:"signature,omitempty"`
	Commit    string `json:"commit,omitempty"`
	What      string `json:"what"`
}

func loadKnown() (map[string]known, error) {
	b, err := os.ReadFile(filepath.Join(verifDir, "known_findings.json"))
	if err != nil {
		if os.IsNotExist(err) {
			return map[string]known{}, nil
		}
		return nil, err
	}
	var f struct {
		Findings []known `json:"findings"`
	}
	if err := json.Unmarshal(b, &f); err != nil {
		return nil, err
	}
	m := map[string]known{}
	for _, k := range f.Findings {
		if k.Status == "known" {
			m[k.Property+"/"+k.Signature] = k
		}
	}
	return m, nil
}

type span struct{ from, to int }

type pass struct {
	name    string // "plain" or "race"
	bin     string
	tier    string // tier passed to Cases / workers
	race    bool
	cases   int
	workDir string
	chunk   int // cases per worker process (0: spread over the workers)
}

type runState struct {
	p        *props.Property
	seed     uint64
	agg      *props.Aggregate
	mu       sync.Mutex
	inconcl  []string
	hangs    int
	crashes  int
	raceRpts []raceReport
}

func supervise(args []string) int {
	fs := flag.NewFlagSet("run", flag.ExitOnError)
	prop := fs.String("prop", "", "")
	tier := fs.String("tier", "quick", "")
	raceBin := fs.String("racebin", "", "path of the -race build of this binary")
	workers := fs.Int("workers", 0, "")
	_ = fs.Parse(args)
	p := props.Get(*prop)
	if p == nil {
		fmt.Printf("INCONCLUSIVE property=%s reason=unknown-property\n", *prop)
		return 2
	}
	seed := uint64(1)
	if s := os.Getenv("VERIF_SEED"); s != "" {
		if v, err := strconv.ParseUint(s, 10, 64); err == nil {
			seed = v
		}
	}
	start := time.Now()
	if err := props.SelfTest(); err != nil {
		fmt.Printf("INCONCLUSIVE property=%s reason=selftest-failed: %v\n", p.ID, err)
		return 2
	}
	kn, err := loadKnown()
	if err != nil {
		fmt.Printf("INCONCLUSIVE property=%s reason=known_findings.json unreadable: %v\n", p.ID, err)
		return 2
	}
	self, _ := os.Executable()
	work := filepath.Join(verifDir, ".work", fmt.Sprintf("%s-%s-%d", p.ID, *tier, os.Getpid()))
	_ = os.RemoveAll(work)
	if err := os.MkdirAll(work, 0o755); err != nil {
		fmt.Printf("INCONCLUSIVE property=%s reason=%v\n", p.ID, err)
		return 2
	}
	defer os.RemoveAll(work)
	nw := *workers
	if nw == 0 {
		nw = runtime.NumCPU()
	}
	var passes []pass
	if p.RaceOnly {
		passes = append(passes, pass{name: "race", bin: *raceBin, tier: *tier, race: true})
		// cold-start trials: one trial per fresh worker process (the concurrent Runs are the
		// first thing the library does in that process)
		coldTier := "cold"
		if *tier == "thorough" {
			coldTier = "cold-thorough"
		}
		if p.Cases(coldTier) > 0 {
			passes = append(passes, pass{name: "cold", bin: *raceBin, tier: coldTier, race: true, chunk: 1})
		}
	} else {
		passes = append(passes, pass{name: "plain", bin: self, tier: *tier})
		if *tier == "thorough" && p.RaceInThorough {
			passes = append(passes, pass{name: "race", bin: *raceBin, tier: "race", race: true})
		}
	}
	st := &runState{p: p, seed: seed, agg: props.NewAggregate()}
	passCases := map[string]int{}
	for i := range passes {
		ps := &passes[i]
		if ps.race && ps.bin == "" {
			fmt.Printf("INCONCLUSIVE property=%s reason=race binary not provided\n", p.ID)
			return 2
		}
		ps.cases = p.Cases(ps.tier)
		ps.workDir = filepath.Join(work, ps.name)
		_ = os.MkdirAll(ps.workDir, 0o755)
		st.runPass(ps, nw)
		passCases[ps.name] = ps.cases
	}
	if p.ChildProbe != "" {
		st.childProbe(self, p.ChildProbe, p.ChildProbeSignature, work)
	}
	return st.conclude(*tier, kn, start, passCases)
}

// childProbe runs `verifcheck <sub>` in a process of its own (a probe that may
// end in a fatal runtime error) and records what it observed under the given
// signature. Output goes to a file: a pipe would lose the runtime's dump.
func (st *runState) childProbe(self, sub, sig, work string) {
	out := filepath.Join(work, "probe-"+sub+".log")
	f, err := os.Create(out)
	if err != nil {
		return
	}
	ctx, cancel := context.WithTimeout(context.Background(), 5*time.Minute)
	defer cancel()
	cmd := exec.CommandContext(ctx, self, sub)
	cmd.Stdout, cmd.Stderr = f, f
	runErr := cmd.Run()
	f.Close()
	b, _ := os.ReadFile(out)
	text := string(b)
	observed, detail := false, ""
	for _, line := range strings.Split(text, "\n") {
		switch {
		case strings.HasPrefix(line, "PROBE observed="):
			if !strings.HasPrefix(line, "PROBE observed=0 ") {
				observed, detail = true, strings.TrimPrefix(line, "PROBE ")
			} else if detail == "" {
				detail = strings.TrimPrefix(line, "PROBE ")
			}
		case strings.Contains(line, "found pointer to free object"), strings.Contains(line, "marked free object"), strings.Contains(line, "unexpected fault address"), strings.Contains(line, "unexpected signal"):
			if !observed {
				observed, detail = true, "the probe process died: "+trimTo(line, 200)
			}
		}
	}
	st.agg.Counters["child-probe:"+sub+":runs"]++
	if runErr != nil && !observed && ctx.Err() == nil {
		observed, detail = true, "the probe process died: "+trimTo(text, 300)
	}
	if observed {
		st.agg.Counters["child-probe:"+sub+":observed"]++
		st.agg.SigCounts[sig]++
		st.agg.Violations = append(st.agg.Violations, props.Violation{Idx: -1, Sig: sig, Detail: "child-process probe `verifcheck " + sub + "`: " + detail, Case: "probe " + sub})
	} else {
		st.note("child probe %s observed nothing: %s", sub, trimTo(detail, 200))
	}
}

func (st *runState) runPass(ps *pass, nw int) {
	n := ps.cases
	chunk := (n + nw*6 - 1) / (nw * 6)
	if chunk < 1 {
		chunk = 1
	}
	if ps.chunk > 0 {
		chunk = ps.chunk
	}
	if ps.race && nw > 8 && st.p.RaceOnly {
		nw = 6 // C17 trials are themselves multi-goroutine
	}
	queue := make(chan span, n/chunk+2)
	for f := 0; f < n; f += chunk {
		t := f + chunk
		if t > n {
			t = n
		}
		queue <- span{f, t}
	}
	close(queue)
	var wg sync.WaitGroup
	for w := 0; w < nw; w++ {
		wg.Add(1)
		go func(w int) {
			defer wg.Done()
			for sp := range queue {
				st.runSpan(ps, sp, w)
			}
		}(w)
	}
	wg.Wait()
	if ps.race {
		st.collectRaces(ps)
	}
}

const caseTimeout = 180 * time.Second

// runSpan executes a span in a child, restarting after the culprit when the child dies.
func (st *runState) runSpan(ps *pass, sp span, w int) {
	for sp.from < sp.to {
		// three hangs are a verdict (each costs minutes of waiting): the remaining spans of a run
		// that already reports `hang` are not executed
		st.mu.Lock()
		hung := st.hangs
		st.mu.Unlock()
		if hung >= 3 {
			st.mu.Lock()
			st.agg.Counters["spans-not-executed-after-three-hangs"]++
			st.mu.Unlock()
			return
		}
		tag := fmt.Sprintf("%s-%d-%d", ps.name, sp.from, sp.to)
		res, died, idx, why := st.child(ps, sp, tag, caseTimeout)
		if res != nil {
			st.mu.Lock()
			st.agg.Add(res)
			st.mu.Unlock()
			return
		}
		if !died || idx < sp.from || idx >= sp.to {
			st.note("worker for cases %d..%d ended without a result and without an attributable case: %s", sp.from, sp.to, why)
			return
		}
		// a death the Go runtime attributes to the collector finding a pointer into freed memory is
		// the recorded gorgonia finding (uintptr slice headers), whichever case was executing
		if isCollectorDeath(why) {
			sig := props.GCUnreproducedSignature
			if st.p.ChildProbeSignature != "" {
				sig = st.p.ChildProbeSignature
			}
			st.mu.Lock()
			st.agg.Cases++
			st.agg.SigCounts[sig]++
			st.agg.Violations = append(st.agg.Violations, props.Violation{Idx: idx, Sig: sig, Detail: "worker process died in the collector: " + trimTo(fatalSig(why), 200), Case: fmt.Sprintf("case %d", idx)})
			st.mu.Unlock()
			sp.from = idx + 1
			continue
		}
		// a cold-start trial that dies of unsynchronised map access has shown what it is there to
		// show: the next fresh process need not die again
		if ps.chunk == 1 && strings.Contains(why, "fatal error: concurrent map") {
			st.mu.Lock()
			st.crashes++
			sig := "fatal:" + fatalSig(why)
			st.agg.Cases++
			st.agg.Evaluations++
			st.agg.SigCounts[sig]++
			st.agg.Violations = append(st.agg.Violations, props.Violation{Idx: idx, Sig: sig, Detail: "process-level failure in a cold-start trial (the first Runs of a fresh process overlap): " + trimTo(why, 600), Case: fmt.Sprintf("cold-start case %d", idx)})
			st.mu.Unlock()
			sp.from = idx + 1
			continue
		}
		// attribute: re-run the culprit alone
		res2, died2, _, why2 := st.child(ps, span{idx, idx + 1}, tag+"-confirm", 2*caseTimeout)
		st.mu.Lock()
		switch {
		case res2 != nil:
			st.agg.Add(res2)
			st.inconcl = append(st.inconcl, fmt.Sprintf("worker died at case %d (%s) but the case passes alone", idx, why))
		case died2:
			st.crashes++
			sig := "fatal:" + fatalSig(why2)
			if strings.HasPrefix(why2, "hang") {
				st.hangs++
				sig = "hang"
			}
			st.agg.Cases++
			st.agg.Evaluations++
			st.agg.SigCounts[sig]++
			st.agg.Violations = append(st.agg.Violations, props.Violation{Idx: idx, Sig: sig, Detail: "process-level failure (not recoverable in-process): " + why2, Case: fmt.Sprintf("case %d (re-run alone: same failure)", idx)})
		}
		st.mu.Unlock()
		sp.from = idx + 1
	}
}

func (st *runState) note(format string, a ...any) {
	st.mu.Lock()
	st.inconcl = append(st.inconcl, fmt.Sprintf(format, a...))
	st.mu.Unlock()
}

// isCollectorDeath recognises the runtime's own diagnosis of a pointer into freed memory.
func isCollectorDeath(why string) bool {
	for _, pat := range []string{"found pointer to free object", "marked free object", "found bad pointer in Go heap"} {
		if strings.Contains(why, pat) {
			return true
		}
	}
	return false
}

var fatalRe = regexp.MustCompile(`(?m)^(fatal error: .*|panic: .*|runtime: out of memory.*|SIGSEGV.*|checkptr: .*)$`)

func fatalSig(why string) string {
	m := fatalRe.FindString(why)
	if m == "" {
		return "unknown"
	}
	m = regexp.MustCompile(`0x[0-9a-f]+|\d{4,}`).ReplaceAllString(m, "N")
	if len(m) > 90 {
		m = m[:90]
	}
	return m
}

// child runs one worker process. It returns the result, or died=true with the
// index of the case that was executing.
func (st *runState) child(ps *pass, sp span, tag string, timeout time.Duration) (res *props.Result, died bool, idx int, why string) {
	outF := filepath.Join(ps.workDir, tag+".json")
	progF := filepath.Join(ps.workDir, tag+".progress")
	logF := filepath.Join(ps.workDir, tag+".log")
	_ = os.Remove(outF)
	_ = os.Remove(progF)
	args := []string{"worker", "-prop", st.p.ID, "-tier", ps.tier, "-seed", fmt.Sprint(st.seed), "-from", fmt.Sprint(sp.from), "-to", fmt.Sprint(sp.to), "-out", outF, "-progress", progF}
	if st.p.MemCapMiB > 0 && !ps.race {
		args = append(args, "-memcap", fmt.Sprint(st.p.MemCapMiB))
	}
	cmd := exec.Command(ps.bin, args...)
	lf, _ := os.Create(logF)
	cmd.Stdout, cmd.Stderr = lf, lf
	cmd.Env = append(os.Environ(), "GOTRACEBACK=single")
	if ps.race {
		cmd.Env = append(cmd.Env, "GORACE=halt_on_error=0 log_path="+filepath.Join(ps.workDir, "racelog-"+tag))
	}
	if err := cmd.Start(); err != nil {
		lf.Close()
		return nil, false, -1, "cannot start worker: " + err.Error()
	}
	done := make(chan error, 1)
	go func() { done <- cmd.Wait() }()
	readIdx := func() int {
		b, err := os.ReadFile(progF)
		if err != nil || len(b) < 8 {
			return -1
		}
		return int(binary.LittleEndian.Uint64(b)) - 1
	}
	lastIdx, lastChange := -2, time.Now()
	hang := false
	tick := time.NewTicker(500 * time.Millisecond)
	defer tick.Stop()
	var werr error
wait:
	for {
		select {
		case werr = <-done:
			break wait
		case <-tick.C:
			if i := readIdx(); i != lastIdx {
				lastIdx, lastChange = i, time.Now()
			} else if time.Since(lastChange) > timeout {
				hang = true
				_ = cmd.Process.Signal(syscall.SIGQUIT)
				select {
				case werr = <-done:
				case <-time.After(10 * time.Second):
					_ = cmd.Process.Kill()
					werr = <-done
				}
				break wait
			}
		}
	}
	lf.Close()
	// a -race worker that saw races exits with status 66 after writing its result: the
	// result is still valid (the race reports are collected from the detector log)
	if (werr == nil || (ps.race && fileExists(outF))) && !hang {
		b, err := os.ReadFile(outF)
		if err == nil {
			var r props.Result
			if json.Unmarshal(b, &r) == nil {
				return &r, false, -1, ""
			}
		}
		return nil, false, -1, "worker exited 0 without a readable result"
	}
	logb, _ := os.ReadFile(logF)
	tail := string(logb)
	if len(tail) > 6000 {
		tail = tail[:3000] + "\n…\n" + tail[len(tail)-3000:]
	}
	if hang {
		return nil, true, readIdx(), fmt.Sprintf("hang: no progress for %v at case %d\n%s", timeout, readIdx(), tail)
	}
	return nil, true, readIdx(), fmt.Sprintf("worker died (%v)\n%s", werr, tail)
}

// ----------------------------------------------------------- race reports ----

type raceReport struct {
	Sig  string
	Text string
}

var frameRe = regexp.MustCompile(`(?m)^  ([A-Za-z0-9_./*()\-\[\]]+)\(\)$`)

func (st *runState) collectRaces(ps *pass) {
	files, _ := filepath.Glob(filepath.Join(ps.workDir, "racelog-*"))
	seen := map[string]bool{}
	for _, f := range files {
		b, err := os.ReadFile(f)
		if err != nil {
			continue
		}
		blocks := strings.Split(string(b), "==================")
		for _, blk := range blocks {
			if !strings.Contains(blk, "WARNING: DATA RACE") {
				continue
			}
			st.agg.Counters["race:reports"]++
			sig := raceSig(blk)
			if seen[sig] {
				continue
			}
			seen[sig] = true
			st.raceRpts = append(st.raceRpts, raceReport{Sig: sig, Text: blk})
		}
	}
	for _, r := range st.raceRpts {
		st.agg.SigCounts["race:"+r.Sig]++
		st.agg.Violations = append(st.agg.Violations, props.Violation{Idx: -1, Sig: "race:" + r.Sig, Detail: trimTo(r.Text, 4000), Case: "data race reported by the Go race detector"})
	}
}

func trimTo(s string, n int) string {
	if len(s) > n {
		return s[:n] + "…"
	}
	return s
}

// raceSig builds a stable signature: the first non-runtime function of each of
// the two access stacks (line numbers stripped).
func raceSig(blk string) string {
	parts := regexp.MustCompile(`(?m)^(Write|Read|Previous write|Previous read) at .*$`).Split(blk, -1)
	var tops []string
	for _, p := range parts[1:] {
		fn := "?"
		for _, m := range frameRe.FindAllStringSubmatch(p, -1) {
			name := m[1]
			if strings.HasPrefix(name, "runtime.") || strings.HasPrefix(name, "sync") {
				continue
			}
			fn = name
			break
		}
		tops = append(tops, fn)
		if len(tops) == 2 {
			break
		}
	}
	sort.Strings(tops)
	return strings.Join(tops, "|")
}

// -------------------------------------------------------------- conclude ----

func (st *runState) conclude(tier string, kn map[string]known, start time.Time, passCases map[string]int) int {
	p, a := st.p, st.agg
	replayDir := filepath.Join(verifDir, "replays")
	_ = os.MkdirAll(replayDir, 0o755)

	// group violations by signature
	bySig := map[string][]props.Violation{}
	var sigs []string
	for _, v := range a.Violations {
		if _, ok := bySig[v.Sig]; !ok {
			sigs = append(sigs, v.Sig)
		}
		bySig[v.Sig] = append(bySig[v.Sig], v)
	}
	sort.Strings(sigs)
	unknown := 0
	knownHits := map[string]int64{}
	var lines []string
	for _, s := range sigs {
		if k, ok := kn[p.ID+"/"+s]; ok {
			knownHits[s] = a.SigCounts[s]
			lines = append(lines, fmt.Sprintf("KNOWN-FINDING: property=%s %s [signature=%s, %d occurrence(s) this run]", p.ID, k.What, s, a.SigCounts[s]))
			continue
		}
		unknown++
		if unknown > 20 {
			continue
		}
		v := bySig[s][0]
		path := filepath.Join(replayDir, fmt.Sprintf("%s-%016x.json", p.ID, hash64(s)))
		rp := map[string]any{"property": p.ID, "tier": tierOf(v, tier), "seed": st.seed, "idx": v.Idx, "history": v.History, "signature": s, "detail": v.Detail, "case": v.Case, "occurrences": a.SigCounts[s], "other_instances": bySig[s][1:]}
		b, _ := json.MarshalIndent(rp, "", " ")
		_ = os.WriteFile(path, b, 0o644)
		lines = append(lines, fmt.Sprintf("VIOLATION property=%s replay=%s", p.ID, path))
		lines = append(lines, fmt.Sprintf("  signature=%s occurrences=%d first: %s", s, a.SigCounts[s], trimTo(strings.ReplaceAll(v.Detail, "\n", " ⏎ "), 700)))
	}
	nontrivial := len(a.Hashes)
	floor := 2
	if p.Floor != nil {
		floor = p.Floor(tier)
	}
	inconclusive := ""
	if len(st.inconcl) > 0 {
		inconclusive = strings.Join(st.inconcl, "; ")
	} else if unknown == 0 && nontrivial < floor {
		inconclusive = fmt.Sprintf("only %d distinct non-trivial cases observed (floor %d)", nontrivial, floor)
	}

	// evidence
	cov := map[string]any{
		"evaluations":                      a.Evaluations,
		"distinct_nontrivial":              nontrivial,
		"rule":                             p.Rule,
		"samples":                          a.Samples,
		"cases":                            a.Cases,
		"cases_skipped_outside_quantifier": a.Skips,
		"counters":                         a.Counters,
		"known_finding_hits":               knownHits,
		"passes":                           passCases,
		"worker_crashes":                   st.crashes,
		"hangs":                            st.hangs,
	}
	if len(a.Samples) == 0 {
		cov["samples"] = []any{"(no sample recorded)"}
	}
	sets := map[string]int{}
	for k, s := range a.Sets {
		sets[k] = len(s)
	}
	cov["distinct"] = sets
	if p.Exhaustive != nil && p.Exhaustive(tier) {
		cov["exhaustive"] = true
	}
	if inconclusive != "" {
		cov["inconclusive"] = inconclusive
	}
	if p.Extra != nil {
		p.Extra(a, cov)
	}
	ev := map[string]any{
		"property_id": p.ID,
		"tier":        tier,
		"seed":        st.seed,
		"level":       "exploration",
		"coverage":    cov,
		"assumptions": p.Assumptions,
		"wall_s":      time.Since(start).Seconds(),
		"violations":  unknown,
	}
	_ = os.MkdirAll(filepath.Join(verifDir, "evidence"), 0o755)
	b, _ := json.MarshalIndent(ev, "", " ")
	_ = os.WriteFile(filepath.Join(verifDir, "evidence", p.ID+".json"), b, 0o644)

	for _, l := range lines {
		fmt.Println(l)
	}
	fmt.Printf("SUMMARY property=%s tier=%s seed=%d cases=%d evaluations=%d distinct_nontrivial=%d skipped=%d unknown_violation_signatures=%d known_signatures=%d wall=%.1fs\n",
		p.ID, tier, st.seed, a.Cases, a.Evaluations, nontrivial, a.Skips, unknown, len(knownHits), time.Since(start).Seconds())
	if unknown > 0 {
		return 1
	}
	if inconclusive != "" {
		fmt.Printf("INCONCLUSIVE property=%s reason=%s\n", p.ID, trimTo(inconclusive, 1500))
		return 2
	}
	return 0
}

func tierOf(v props.Violation, tier string) string { return tier }

func hash64(s string) uint64 {
	h := uint64(14695981039346656037)
	for i := 0; i < len(s); i++ {
		h ^= uint64(s[i])
		h *= 1099511628211
	}
	return h
}

// ---------------------------------------------------------------- replay ----

func replay(args []string) int {
	fs := flag.NewFlagSet("replay", flag.ExitOnError)
	file := fs.String("file", "", "")
	raceBin := fs.String("racebin", "", "")
	_ = fs.Parse(args)
	b, err := os.ReadFile(*file)
	if err != nil {
		fmt.Println("cannot read replay file:", err)
		return 2
	}
	var rp struct {
		Property  string `json:"property"`
		Tier      string `json:"tier"`
		Seed      uint64 `json:"seed"`
		Idx       int    `json:"idx"`
		History   int    `json:"history"`
		Signature string `json:"signature"`
	}
	if err := json.Unmarshal(b, &rp); err != nil {
		fmt.Println("bad replay file:", err)
		return 2
	}
	p := props.Get(rp.Property)
	if p == nil {
		fmt.Println("unknown property", rp.Property)
		return 2
	}
	if rp.Idx < 0 {
		fmt.Println("this replay records a race report; re-run the check to reproduce:", rp.Signature)
		return 2
	}
	bin, _ := os.Executable()
	if p.RaceOnly && *raceBin != "" {
		bin = *raceBin
	}
	tmp, _ := os.CreateTemp("", "verif-replay-*.json")
	tmp.Close()
	defer os.Remove(tmp.Name())
	cmd := exec.Command(bin, "worker", "-prop", rp.Property, "-tier", rp.Tier, "-seed", fmt.Sprint(rp.Seed), "-from", fmt.Sprint(rp.Idx-rp.History), "-to", fmt.Sprint(rp.Idx+1), "-verbose", "-out", tmp.Name())
	cmd.Stdout, cmd.Stderr = os.Stdout, os.Stderr
	if err := cmd.Run(); err != nil {
		fmt.Printf("VIOLATION property=%s replay=%s\n  (process-level failure reproduced: %v)\n", rp.Property, *file, err)
		return 1
	}
	rb, _ := os.ReadFile(tmp.Name())
	var r props.Result
	_ = json.Unmarshal(rb, &r)
	if len(r.Violations) > 0 {
		fmt.Printf("VIOLATION property=%s replay=%s\n", rp.Property, *file)
		return 1
	}
	return 0
}

func fileExists(p string) bool {
	_, err := os.Stat(p)
	return err == nil
}
