package props

import (
	"fmt"

	"github.com/advancedclimatesystems/gonnx/onnx"

	"verif/harness/gen"
	"verif/harness/mon"
	"verif/harness/ref"
)

// Program generator for the model-level properties (C01, C02, C16, C17).
//
// A program is a DAG built node by node over a pool of tensors whose reference
// values are known (the generator evaluates the reference model as it goes, so
// that every node it emits is valid for the shapes it will actually see). Each
// node carries an eval closure that re-evaluates the reference on *observed*
// inputs, which is what the trace checker of C01 uses (no error accumulation
// across the graph).

type progNode struct {
	G    mon.GNode
	Eval func(in []*ref.T) ([]*ref.Approx, error) // in has one entry per node input name (nil for "")
	Mode CmpMode
	// NOut is the number of outputs the operator produces by position (node
	// outputs may name fewer).
	NOut int
	// Batch describes, per output, which axis carries the batch (-1 none); only
	// maintained by the C16 generator.
}

type program struct {
	Inputs       []mon.GInput
	Feed         map[string]*ref.T
	Inits        []mon.GInit
	Nodes        []progNode
	Values       map[string]*ref.T          // reference value of every named tensor
	Order        []string                   // names in production order (inputs, inits, node outputs)
	IR           int64                      // ir_version of the rendered model (0 = the usual one)
	Opsets       []*onnx.OperatorSetIdProto // opset imports of the rendered model (nil = the usual one)
	NoNames      bool                       // nodes are rendered without names
	SpellDomains bool                       // nodes carry their domain explicitly
	DeclOut      int                        // 0: outputs declared by name only, 1: with their static shapes, 2: some under another rank
	Shadow       map[string]bool            // initializers that are also graph inputs
	nameSeq      int
	r            *gen.R
	// BatchAxis tracks, for C16 programs, the batch axis of every named tensor (-1: none / weight).
	BatchAxis map[string]int
}

func newProgram(r *gen.R) *program {
	return &program{Feed: map[string]*ref.T{}, Values: map[string]*ref.T{}, Shadow: map[string]bool{}, r: r, BatchAxis: map[string]int{}}
}

var namePool = []string{"a", "b", "c", "h", "Y", "Y_h", "out", "t", "x", "w", "data", "hidden", "state", "z"}

func (p *program) fresh(hint string) string {
	p.nameSeq++
	if hint == "" {
		hint = namePool[p.r.Intn(len(namePool))]
	}
	return fmt.Sprintf("%s_%d", hint, p.nameSeq)
}

func (p *program) addInput(name string, t *ref.T, dims []mon.Dim) {
	p.Inputs = append(p.Inputs, mon.GInput{Name: name, DT: t.DT, Dims: dims})
	p.Feed[name] = t
	p.Values[name] = t
	p.Order = append(p.Order, name)
	p.BatchAxis[name] = -1
}

func (p *program) addInit(hint string, t *ref.T) string {
	name := p.fresh(hint)
	p.Inits = append(p.Inits, mon.GInit{Name: name, T: t, Raw: p.r.Bool()})
	p.Values[name] = t
	p.BatchAxis[name] = -1
	// a weight can also be the data operand of a later node (Transpose / Reshape / Relu ... of an initializer)
	if t.DT == ref.F32 && p.r.Chance(0.25) {
		p.Order = append(p.Order, name)
	}
	return name
}

// addNode appends a node, evaluates the reference on the known values and
// registers the outputs. It returns false (and adds nothing) when the
// reference refuses the node.
func (p *program) addNode(n progNode, outHints ...string) ([]string, bool) {
	in := make([]*ref.T, len(n.G.Inputs))
	for i, name := range n.G.Inputs {
		if name != "" {
			in[i] = p.Values[name]
		}
	}
	outs, err := n.Eval(in)
	if err != nil {
		return nil, false
	}
	if n.G.Outputs == nil {
		for i := range outs {
			hint := ""
			if i < len(outHints) {
				hint = outHints[i]
			}
			n.G.Outputs = append(n.G.Outputs, p.fresh(hint))
		}
	}
	n.NOut = len(outs)
	for i, name := range n.G.Outputs {
		if name == "" || i >= len(outs) {
			continue
		}
		p.Values[name] = outs[i].T
		p.Order = append(p.Order, name)
		if _, ok := p.BatchAxis[name]; !ok {
			p.BatchAxis[name] = -1
		}
	}
	p.Nodes = append(p.Nodes, n)
	return n.G.Outputs, true
}

// Graph renders the program; outputs lists the declared graph outputs.
func (p *program) Graph(outputs []string) *mon.Graph {
	g := &mon.Graph{Inputs: p.Inputs, Inits: p.Inits, IR: p.IR, Opsets: p.Opsets, NoNames: p.NoNames, SpellDomains: p.SpellDomains}
	for _, n := range p.Nodes {
		g.Nodes = append(g.Nodes, n.G)
	}
	for i, o := range outputs {
		decl := mon.GInput{Name: o, NoType: true}
		// how the outputs are declared changes nothing: without type, with their static shape,
		// or (a sloppy exporter) with the right element count under another rank
		if v := p.Values[o]; v != nil && p.DeclOut > 0 && v.DT != ref.Str {
			shape := v.Shape
			if p.DeclOut == 2 && (i+len(o))%2 == 0 {
				shape = []int{ref.NumElems(v.Shape)}
				if len(v.Shape) == 1 {
					shape = []int{1, v.Shape[0]}
				}
			}
			decl = mon.GInput{Name: o, DT: v.DT, Dims: mon.FixedDims(shape)}
		}
		g.Outputs = append(g.Outputs, decl)
	}
	return g
}

// pick returns the names of pool tensors satisfying pred (most recent first bias).
func (p *program) pick(pred func(name string, t *ref.T) bool) (string, bool) {
	var cands []string
	for _, name := range p.Order {
		if t := p.Values[name]; t != nil && pred(name, t) {
			cands = append(cands, name)
		}
	}
	if len(cands) == 0 {
		return "", false
	}
	// favour recent tensors so that programs are deep, but keep fan-out possible
	if p.r.Chance(0.6) {
		k := len(cands) - 1 - p.r.Intn(minInt(3, len(cands)))
		return cands[k], true
	}
	return cands[p.r.Intn(len(cands))], true
}

func minInt(a, b int) int {
	if a < b {
		return a
	}
	return b
}

func isF32(_ string, t *ref.T) bool { return t.DT == ref.F32 && len(t.Bits) > 0 && len(t.Bits) <= 400 }

func exactEval(f func(in []*ref.T) (*ref.T, error)) func(in []*ref.T) ([]*ref.Approx, error) {
	return func(in []*ref.T) ([]*ref.Approx, error) {
		t, err := f(in)
		if err != nil {
			return nil, err
		}
		return []*ref.Approx{{T: t}}, nil
	}
}

func approxEval(f func(in []*ref.T) (*ref.Approx, error)) func(in []*ref.T) ([]*ref.Approx, error) {
	return func(in []*ref.T) ([]*ref.Approx, error) {
		t, err := f(in)
		if err != nil {
			return nil, err
		}
		return []*ref.Approx{t}, nil
	}
}

// smallWeights draws a float32 weight tensor with |w| <= lim.
func (p *program) smallWeights(shape []int, lim float64) *ref.T {
	return uniformT(p.r, ref.F32, shape, lim)
}

// builder adds one node of some kind to the program; it returns false when it
// cannot be applied to the current pool.
type builder func(p *program) bool

// --- builders -----------------------------------------------------------------

func bUnary(op string) builder {
	return func(p *program) bool {
		x, ok := p.pick(isF32)
		if !ok {
			return false
		}
		_, ok = p.addNode(progNode{G: mon.GNode{Op: op, Inputs: []string{x}}, Mode: CmpTol, Eval: approxEval(func(in []*ref.T) (*ref.Approx, error) { return ref.Unary(op, in[0]) })})
		if ok {
			p.inheritBatch(x)
		}
		return ok
	}
}

// inheritBatch gives the outputs of the last node the batch axis of tensor src.
func (p *program) inheritBatch(src string) {
	n := p.Nodes[len(p.Nodes)-1]
	for _, o := range n.G.Outputs {
		if o != "" {
			p.BatchAxis[o] = p.BatchAxis[src]
		}
	}
}

func (p *program) setBatch(axis int) {
	n := p.Nodes[len(p.Nodes)-1]
	for _, o := range n.G.Outputs {
		if o != "" {
			p.BatchAxis[o] = axis
		}
	}
}

func bBinary(op string) builder {
	return func(p *program) bool {
		x, ok := p.pick(isF32)
		if !ok {
			return false
		}
		xv := p.Values[x]
		var y string
		// second operand: another pool tensor of a compatible shape (fan-in), the same tensor, or a new weight
		if p.r.Chance(0.4) {
			y, ok = p.pick(func(n string, t *ref.T) bool {
				if !isF32(n, t) {
					return false
				}
				_, err := ref.BroadcastShape(xv.Shape, t.Shape)
				return err == nil
			})
		} else {
			ok = false
		}
		if !ok {
			ws := c03Compatible(p.r, xv.Shape)
			if len(ws) > len(xv.Shape) {
				ws = ws[len(ws)-len(xv.Shape):]
			}
			for i := range ws { // weights only stretch, never enlarge the data
				j := len(xv.Shape) - len(ws) + i
				if ws[i] != 1 && ws[i] != xv.Shape[j] {
					ws[i] = 1
				}
			}
			w := p.smallWeights(ws, 2)
			if op == "Div" {
				for i := range w.Bits {
					if v := w.F(i); v > -0.25 && v < 0.25 {
						w.Bits[i] = ref.EncF(ref.F32, 1.5)
					}
				}
			}
			y = p.addInit("w", w)
		} else if op == "Div" {
			return false
		}
		ins := []string{x, y}
		if p.r.Bool() && op != "Div" && op != "Sub" {
			ins = []string{y, x}
		}
		_, ok = p.addNode(progNode{G: mon.GNode{Op: op, Inputs: ins}, Mode: CmpIEEE, Eval: exactEval(func(in []*ref.T) (*ref.T, error) { return ref.Binary(op, in[0], in[1]) })})
		if ok {
			p.batchOfBroadcast(ins)
		}
		return ok
	}
}

// batchOfBroadcast: the output keeps the batch axis when the batched operand has full rank.
func (p *program) batchOfBroadcast(ins []string) {
	n := p.Nodes[len(p.Nodes)-1]
	out := p.Values[n.G.Outputs[0]]
	axis := -1
	for _, in := range ins {
		if a := p.BatchAxis[in]; a >= 0 {
			axis = a + (out.Rank() - p.Values[in].Rank())
		}
	}
	p.setBatch(axis)
}

func bGemm(p *program) bool {
	x, ok := p.pick(func(n string, t *ref.T) bool { return isF32(n, t) && t.Rank() == 2 })
	if !ok {
		return false
	}
	xv := p.Values[x]
	n := p.r.Range(1, 5)
	transB := p.r.Bool()
	k := xv.Shape[1]
	ws := []int{k, n}
	if transB {
		ws = []int{n, k}
	}
	w := p.addInit("W", p.smallWeights(ws, 1))
	alpha, beta := 1.0, 1.0
	node := mon.GNode{Op: "Gemm", Inputs: []string{x, w}}
	if p.r.Chance(0.6) {
		alpha = p.r.PickFloat(0.5, -1, 2, 1)
		node.Attrs = append(node.Attrs, mon.AttrF("alpha", float32(alpha)))
	}
	if p.r.Chance(0.6) {
		beta = p.r.PickFloat(0.5, -1, 2, 0)
		node.Attrs = append(node.Attrs, mon.AttrF("beta", float32(beta)))
	}
	if transB || p.r.Chance(0.3) {
		node.Attrs = append(node.Attrs, mon.AttrI("transB", b2i(transB)))
	}
	switch p.r.Intn(4) {
	case 0:
		node.Inputs = append(node.Inputs, p.addInit("bias", p.smallWeights([]int{n}, 1)))
	case 1:
		node.Inputs = append(node.Inputs, "")
	case 2: // C of every unidirectionally broadcastable shape, including the full (M,N)
		cs := p.r.PickShape([]int{1, n}, []int{xv.Shape[0], n}, []int{xv.Shape[0], 1}, []int{})
		node.Inputs = append(node.Inputs, p.addInit("C", p.smallWeights(cs, 1)))
	}
	_, ok = p.addNode(progNode{G: node, Mode: CmpTol, Eval: approxEval(func(in []*ref.T) (*ref.Approx, error) {
		var c *ref.T
		if len(in) > 2 {
			c = in[2]
		}
		return ref.Gemm(in[0], in[1], c, alpha, beta, false, transB)
	})})
	if ok {
		p.inheritBatch(x) // rows of A are samples
	}
	return ok
}

func bMatMul(p *program) bool {
	x, ok := p.pick(func(n string, t *ref.T) bool { return isF32(n, t) && t.Rank() >= 2 && t.Rank() <= 4 })
	if !ok {
		return false
	}
	xv := p.Values[x]
	k := xv.Shape[xv.Rank()-1]
	w := p.addInit("W", p.smallWeights([]int{k, p.r.Range(1, 4)}, 1))
	_, ok = p.addNode(progNode{G: mon.GNode{Op: "MatMul", Inputs: []string{x, w}}, Mode: CmpTol, Eval: approxEval(func(in []*ref.T) (*ref.Approx, error) { return ref.MatMul(in[0], in[1]) })})
	if ok {
		if a := p.BatchAxis[x]; a >= 0 && a < xv.Rank()-1 {
			p.setBatch(a)
		}
	}
	return ok
}

func bReshapeFamily(p *program) bool {
	x, ok := p.pick(func(n string, t *ref.T) bool { return len(t.Bits) > 0 && len(t.Bits) <= 400 && t.Rank() >= 1 })
	if !ok {
		return false
	}
	xv := p.Values[x]
	switch p.r.Intn(4) {
	case 0: // Flatten with an axis
		axis := p.r.Range(-xv.Rank(), xv.Rank())
		_, ok = p.addNode(progNode{G: mon.GNode{Op: "Flatten", Inputs: []string{x}, Attrs: []*mon.Attr{mon.AttrI("axis", int64(axis))}}, Mode: CmpBits, Eval: exactEval(func(in []*ref.T) (*ref.T, error) { return ref.Flatten(in[0], axis) })})
	case 1: // Reshape through a shape initializer
		k := p.r.Range(1, 3)
		target := factorise(p.r, len(xv.Bits), k)
		if p.r.Chance(0.4) {
			target[p.r.Intn(k)] = -1
		}
		s := p.addInit("shape", gen.I64s(target...))
		_, ok = p.addNode(progNode{G: mon.GNode{Op: "Reshape", Inputs: []string{x, s}}, Mode: CmpBits, Eval: exactEval(func(in []*ref.T) (*ref.T, error) { return ref.Reshape(in[0], in[1].Ints()) })})
	case 2: // Unsqueeze
		R := xv.Rank() + 1
		if R > 5 {
			return false
		}
		ax := int64(p.r.Range(-R, R-1))
		s := p.addInit("axes", gen.I64s(ax))
		_, ok = p.addNode(progNode{G: mon.GNode{Op: "Unsqueeze", Inputs: []string{x, s}}, Mode: CmpBits, Eval: exactEval(func(in []*ref.T) (*ref.T, error) { return ref.Unsqueeze(in[0], in[1].Ints()) })})
	default: // Transpose
		perm := make([]int64, xv.Rank())
		for i, q := range p.r.Perm(xv.Rank()) {
			perm[i] = int64(q)
		}
		_, ok = p.addNode(progNode{G: mon.GNode{Op: "Transpose", Inputs: []string{x}, Attrs: []*mon.Attr{mon.AttrInts("perm", perm)}}, Mode: CmpBits, Eval: exactEval(func(in []*ref.T) (*ref.T, error) { return ref.Transpose(in[0], perm) })})
	}
	return ok
}

func bConcat(p *program) bool {
	x, ok := p.pick(func(n string, t *ref.T) bool { return isF32(n, t) && t.Rank() >= 1 && len(t.Bits) <= 120 })
	if !ok {
		return false
	}
	xv := p.Values[x]
	axis := p.r.Range(-xv.Rank(), xv.Rank()-1)
	ins := []string{x}
	for i := p.r.Range(0, 2); i > 0; i-- {
		if y, ok := p.pick(func(n string, t *ref.T) bool { return isF32(n, t) && ref.ShapeEq(t.Shape, xv.Shape) }); ok && p.r.Bool() {
			ins = append(ins, y) // possibly x itself: fan-in of one tensor twice
		} else {
			ins = append(ins, p.addInit("c", p.smallWeights(xv.Shape, 3)))
		}
	}
	_, ok = p.addNode(progNode{G: mon.GNode{Op: "Concat", Inputs: ins, Attrs: []*mon.Attr{mon.AttrI("axis", int64(axis))}}, Mode: CmpBits, Eval: exactEval(func(in []*ref.T) (*ref.T, error) { return ref.Concat(in, axis) })})
	if ok {
		if a := p.BatchAxis[x]; a >= 0 && a != (axis+xv.Rank())%xv.Rank() {
			p.setBatch(a)
		}
	}
	return ok
}

func bGatherSlice(p *program) bool {
	x, ok := p.pick(func(n string, t *ref.T) bool { return isF32(n, t) && t.Rank() >= 1 })
	if !ok {
		return false
	}
	xv := p.Values[x]
	axis := p.r.Range(0, xv.Rank()-1)
	d := xv.Shape[axis]
	if p.r.Bool() {
		idx := ref.New(ref.I64, p.r.Shape(0, 2, 3, 6)...)
		for i := range idx.Bits {
			idx.Bits[i] = uint64(int64(p.r.Range(-d, d-1)))
		}
		in := p.addInit("idx", idx)
		_, ok = p.addNode(progNode{G: mon.GNode{Op: "Gather", Inputs: []string{x, in}, Attrs: []*mon.Attr{mon.AttrI("axis", int64(axis))}}, Mode: CmpBits, Eval: exactEval(func(in []*ref.T) (*ref.T, error) { return ref.Gather(in[0], in[1], axis) })})
		return ok
	}
	if d < 2 {
		return false
	}
	// Slice keeping an extent >= 2 (extent-1 results hit a recorded defect: not used in programs)
	s := p.r.Range(0, d-2)
	e := p.r.Range(s+2, d)
	st, en, ax := p.addInit("starts", gen.I64s(int64(s))), p.addInit("ends", gen.I64s(int64(e))), p.addInit("axes", gen.I64s(int64(axis)))
	_, ok = p.addNode(progNode{G: mon.GNode{Op: "Slice", Inputs: []string{x, st, en, ax}}, Mode: CmpBits, Eval: exactEval(func(in []*ref.T) (*ref.T, error) {
		return ref.Slice(in[0], in[1].Ints(), in[2].Ints(), in[3].Ints(), nil)
	})})
	return ok
}

func bSoftmaxReduce(p *program) bool {
	x, ok := p.pick(func(n string, t *ref.T) bool { return isF32(n, t) && t.Rank() >= 1 })
	if !ok {
		return false
	}
	xv := p.Values[x]
	axis := p.r.Range(-xv.Rank(), xv.Rank()-1)
	switch p.r.Intn(4) {
	case 0, 1:
		op := p.r.PickStr("Softmax", "LogSoftmax")
		_, ok = p.addNode(progNode{G: mon.GNode{Op: op, Inputs: []string{x}, Attrs: []*mon.Attr{mon.AttrI("axis", int64(axis))}}, Mode: CmpTol, Eval: approxEval(func(in []*ref.T) (*ref.Approx, error) { return ref.Softmax(in[0], axis, op == "LogSoftmax") })})
		if ok {
			if a := p.BatchAxis[x]; a >= 0 && a != (axis+xv.Rank())%xv.Rank() {
				p.setBatch(a)
			}
		}
	case 2:
		op := p.r.PickStr("ReduceMax", "ReduceMin")
		keep := p.r.Bool()
		_, ok = p.addNode(progNode{G: mon.GNode{Op: op, Inputs: []string{x}, Attrs: []*mon.Attr{mon.AttrInts("axes", []int64{int64(axis)}), mon.AttrI("keepdims", b2i(keep))}}, Mode: CmpIEEE, Eval: exactEval(func(in []*ref.T) (*ref.T, error) {
			return ref.ReduceMaxMin(in[0], []int64{int64(axis)}, keep, op == "ReduceMax")
		})})
	default: // ArgMax followed by a Cast back to float32 so that the value keeps flowing
		keep := p.r.Bool()
		outs, ok2 := p.addNode(progNode{G: mon.GNode{Op: "ArgMax", Inputs: []string{x}, Attrs: []*mon.Attr{mon.AttrI("axis", int64(axis)), mon.AttrI("keepdims", b2i(keep))}}, Mode: CmpBits, Eval: exactEval(func(in []*ref.T) (*ref.T, error) { return ref.ArgMax(in[0], axis, keep) })})
		if !ok2 {
			return false
		}
		_, ok = p.addNode(progNode{G: mon.GNode{Op: "Cast", Inputs: []string{outs[0]}, Attrs: []*mon.Attr{mon.AttrI("to", 1)}}, Mode: CmpBits, Eval: exactEval(func(in []*ref.T) (*ref.T, error) {
			t, ok := ref.Cast(in[0], ref.F32)
			if !ok {
				return nil, ref.ErrUndefined
			}
			return t, nil
		})})
	}
	return ok
}

func bConstant(p *program) bool {
	v := p.smallWeights(p.r.Shape(0, 3, 4, 24), 2)
	var attr *mon.Attr
	switch p.r.Intn(3) {
	case 0:
		attr = mon.AttrT("value", mon.TensorProto("", v, p.r.Bool()))
	case 1:
		v = v.WithShape(len(v.Bits))
		f := make([]float32, len(v.Bits))
		for i := range f {
			f[i] = float32(v.F(i))
		}
		attr = mon.AttrFloats("value_floats", f)
	default:
		v = ref.FromF(ref.F32, []int{}, []float64{v.F(0)})
		attr = mon.AttrF("value_float", float32(v.F(0)))
	}
	_, ok := p.addNode(progNode{G: mon.GNode{Op: "Constant", Attrs: []*mon.Attr{attr}}, Mode: CmpBits, Eval: exactEval(func(in []*ref.T) (*ref.T, error) { return v, nil })})
	return ok
}

// bRecurrent adds an RNN/GRU/LSTM node on a rank-3 tensor, with arbitrary
// output names, optionally omitted trailing outputs, and follows Y with a
// Squeeze so that a second recurrent node (other hidden size) can be chained.
func bRecurrent(op string) builder {
	return func(p *program) bool {
		x, ok := p.pick(func(n string, t *ref.T) bool { return isF32(n, t) && t.Rank() == 3 && t.Shape[0] <= 8 })
		if !ok {
			return false
		}
		xv := p.Values[x]
		S, B, I := xv.Shape[0], xv.Shape[1], xv.Shape[2]
		_ = S
		H := p.r.Range(1, 4)
		G := recGates(op)
		w := p.addInit("W", p.smallWeights([]int{1, G * H, I}, 0.4))
		rr := p.addInit("R", p.smallWeights([]int{1, G * H, H}, 0.4))
		ins := []string{x, w, rr}
		opt := []string{"", "", ""}
		if p.r.Chance(0.6) {
			opt[0] = p.addInit("B", p.smallWeights([]int{1, 2 * G * H}, 0.5))
		}
		if p.r.Chance(0.5) {
			opt[2] = p.addInit("h0", p.smallWeights([]int{1, B, H}, 1))
		}
		if op == "LSTM" {
			opt = append(opt, "", "")
			if p.r.Chance(0.5) {
				opt[3] = p.addInit("c0", p.smallWeights([]int{1, B, H}, 1))
			}
			if p.r.Chance(0.4) {
				opt[4] = p.addInit("P", p.smallWeights([]int{1, 3 * H}, 0.5))
			}
		}
		last := -1
		for i, o := range opt {
			if o != "" {
				last = i
			}
		}
		keep := last + 1
		if p.r.Chance(0.3) {
			keep = len(opt)
		}
		ins = append(ins, opt[:keep]...)
		at := ref.RecAttrs{Hidden: H}
		node := mon.GNode{Op: op, Inputs: ins, Attrs: []*mon.Attr{mon.AttrI("hidden_size", int64(H))}}
		if op == "GRU" && p.r.Bool() {
			at.LinearBeforeReset = true
			node.Attrs = append(node.Attrs, mon.AttrI("linear_before_reset", 1))
		}
		nOut := 2
		if op == "LSTM" {
			nOut = 3
		}
		// arbitrary output names; LSTM may omit trailing outputs or skip the middle one
		names := make([]string, nOut)
		for i := range names {
			names[i] = p.fresh(p.r.PickStr("Y", "Y_h", "Y_c", "seq", "last", "cell", "o"))
		}
		if op == "LSTM" {
			switch p.r.Intn(4) {
			case 0:
				names = names[:2]
			case 1:
				names[1] = ""
			}
		}
		node.Outputs = names
		get := func(in []*ref.T, i int) *ref.T {
			if i < len(in) {
				return in[i]
			}
			return nil
		}
		outs, ok := p.addNode(progNode{G: node, Mode: CmpTol, Eval: func(in []*ref.T) ([]*ref.Approx, error) {
			var ts []*ref.T
			var err error
			switch op {
			case "RNN":
				ts, err = ref.RNN(in[0], in[1], in[2], get(in, 3), get(in, 5), at)
			case "GRU":
				ts, err = ref.GRU(in[0], in[1], in[2], get(in, 3), get(in, 5), at)
			default:
				ts, err = ref.LSTM(in[0], in[1], in[2], get(in, 3), get(in, 5), get(in, 6), get(in, 7), at)
			}
			if err != nil {
				return nil, err
			}
			ap := make([]*ref.Approx, len(ts))
			for i, t := range ts {
				tl := make([]float64, len(t.Bits))
				for k := range tl {
					tl[k] = 2e-4 * (1 + absf(t.F(k)))
				}
				ap[i] = &ref.Approx{T: t, Tol: tl}
			}
			return ap, nil
		}})
		if !ok {
			return false
		}
		// batch axes: Y [S,1,B,H] -> 2, Y_h / Y_c [1,B,H] -> 1 (when the input is batched on axis 1)
		if p.BatchAxis[x] == 1 {
			for i, o := range outs {
				if o == "" {
					continue
				}
				if i == 0 {
					p.BatchAxis[o] = 2
				} else {
					p.BatchAxis[o] = 1
				}
			}
		}
		// Squeeze Y back to [S,B,H]
		if outs[0] != "" && p.r.Chance(0.7) {
			ax := p.addInit("axes", gen.I64s(1))
			_, ok = p.addNode(progNode{G: mon.GNode{Op: "Squeeze", Inputs: []string{outs[0], ax}}, Mode: CmpBits, Eval: exactEval(func(in []*ref.T) (*ref.T, error) { return ref.Squeeze(in[0], in[1].Ints(), true) })})
			if ok && p.BatchAxis[outs[0]] == 2 {
				p.setBatch(1)
			}
		}
		return true
	}
}

func absf(v float64) float64 {
	if v < 0 {
		return -v
	}
	return v
}

func bConv(p *program) bool {
	x, ok := p.pick(func(n string, t *ref.T) bool {
		return isF32(n, t) && (t.Rank() == 3 || t.Rank() == 4) && t.Shape[1] <= 3 && len(t.Bits) <= 150
	})
	if !ok {
		return false
	}
	xv := p.Values[x]
	nsp := xv.Rank() - 2
	M := p.r.Range(1, 3)
	ks := make([]int, nsp)
	pads := make([]int, 2*nsp)
	strides := make([]int, nsp)
	for d := range ks {
		ks[d] = p.r.Range(1, minInt(3, xv.Shape[2+d]))
		strides[d] = p.r.Range(1, 2)
		pads[d], pads[nsp+d] = p.r.Range(0, 1), p.r.Range(0, 2)
	}
	w := p.addInit("K", p.smallWeights(append([]int{M, xv.Shape[1]}, ks...), 1))
	at := ref.ConvAttrs{Pads: pads, Strides: strides}
	node := mon.GNode{Op: "Conv", Inputs: []string{x, w}, Attrs: []*mon.Attr{mon.AttrIntsI("pads", pads), mon.AttrIntsI("strides", strides)}}
	if p.r.Chance(0.4) { // dilations (kernel_shape stays inferred from the weight)
		dil := make([]int, nsp)
		for d := range dil {
			dil[d] = p.r.Range(1, 2)
		}
		at.Dilations = dil
		node.Attrs = append(node.Attrs, mon.AttrIntsI("dilations", dil))
	}
	if p.r.Chance(0.6) {
		node.Inputs = append(node.Inputs, p.addInit("cb", p.smallWeights([]int{M}, 1)))
	}
	_, ok = p.addNode(progNode{G: node, Mode: CmpTol, Eval: approxEval(func(in []*ref.T) (*ref.Approx, error) {
		var b *ref.T
		if len(in) > 2 {
			b = in[2]
		}
		return ref.Conv(in[0], in[1], b, at)
	})})
	if ok {
		p.inheritBatch(x)
	}
	return ok
}

func bShapeOf(p *program) bool {
	x, ok := p.pick(func(n string, t *ref.T) bool { return t.Rank() >= 1 })
	if !ok {
		return false
	}
	_, ok = p.addNode(progNode{G: mon.GNode{Op: "Shape", Inputs: []string{x}}, Mode: CmpBits, Eval: exactEval(func(in []*ref.T) (*ref.T, error) { return ref.ShapeOf(in[0]), nil })})
	return ok
}

var allBuilders = map[string]builder{
	"Relu": bUnary("Relu"), "Tanh": bUnary("Tanh"), "Sigmoid": bUnary("Sigmoid"), "Abs": bUnary("Abs"), "Sin": bUnary("Sin"), "Atan": bUnary("Atan"),
	"Add": bBinary("Add"), "Sub": bBinary("Sub"), "Mul": bBinary("Mul"), "Div": bBinary("Div"),
	"Gemm": bGemm, "MatMul": bMatMul, "ReshapeFamily": bReshapeFamily, "Concat": bConcat, "GatherSlice": bGatherSlice,
	"SoftmaxReduce": bSoftmaxReduce, "Constant": bConstant, "RNN": bRecurrent("RNN"), "GRU": bRecurrent("GRU"), "LSTM": bRecurrent("LSTM"),
	"Conv": bConv, "Shape": bShapeOf,
}

var builderNames = []string{"Relu", "Tanh", "Sigmoid", "Abs", "Sin", "Atan", "Add", "Sub", "Mul", "Div", "Gemm", "MatMul", "ReshapeFamily", "Concat", "GatherSlice", "SoftmaxReduce", "Constant", "RNN", "GRU", "LSTM", "Conv", "Shape"}

// genProgram draws a program of up to maxNodes nodes. A small palette of
// builders is chosen per program so that operator types repeat (with different
// attributes).
func genProgram(r *gen.R, maxNodes int) *program { return genProgramX(r, maxNodes, false) }

// genProgramX: with rich set (C01), an override of a defaulted input whose declaration leaves
// the extents open may have another shape than the default (the nodes are built on the
// override), and the default-domain opset import is spelled in the ways the IR allows.
func genProgramX(r *gen.R, maxNodes int, rich bool) *program {
	p := newProgram(r)
	// graph inputs: a rank-2, a rank-3 and/or a rank-4 tensor so that every family can attach
	kinds := r.Perm(3)[:r.Range(1, 3)]
	for _, k := range kinds {
		var shape []int
		switch k {
		case 0:
			shape = []int{r.Range(1, 4), r.Range(1, 5)}
		case 1:
			shape = []int{r.Range(1, 5), r.Range(1, 3), r.Range(1, 4)}
		default:
			shape = []int{r.Range(1, 2), r.Range(1, 3), r.Range(2, 5), r.Range(2, 5)}
		}
		t := uniformT(r, ref.F32, shape, 2)
		dims := mon.FixedDims(shape)
		if r.Chance(0.3) {
			dims[0] = mon.Dim{Param: "N"}
		}
		p.addInput(p.fresh("in"), t, dims)
	}
	// sometimes initializers that are also graph inputs (default values), each overridden or not
	for nd := r.PickInt(0, 0, 0, 0, 1, 1, 2, 3); nd > 0; nd-- {
		def := uniformT(r, ref.F32, r.PickShape([]int{r.Range(1, 3), r.Range(1, 4)}, []int{r.Range(1, 3), r.Range(1, 4)}, []int{r.Range(1, 4)}, []int{}), 2)
		name := p.fresh("dflt")
		p.Inits = append(p.Inits, mon.GInit{Name: name, T: def, Raw: r.Bool()})
		decl := mon.GInput{Name: name, DT: ref.F32, Dims: mon.FixedDims(def.Shape)}
		switch r.Intn(6) { // how the value-info of the shadowed input is written
		case 0:
			decl.NoShape = true
		case 1:
			decl.NoType = true
		case 2:
			for i := range decl.Dims {
				decl.Dims[i] = mon.Dim{Param: "d" + fmt.Sprint(i)}
			}
		}
		p.Inputs = append(p.Inputs, decl)
		p.Shadow[name] = true
		p.Values[name] = def
		open := decl.NoShape || decl.NoType || (len(decl.Dims) > 0 && decl.Dims[0].Param != "")
		if r.Bool() { // caller overrides the default
			shape := def.Shape
			if rich && open && len(shape) > 0 && r.Bool() {
				// the default only supplies the value: a declaration with symbolic (or no) extents
				// admits an override of other extents than the default's
				shape = append([]int{}, shape...)
				shape[r.Intn(len(shape))] = r.Range(1, 5)
				if r.Chance(0.3) {
					shape[0] = r.Range(1, 5)
				}
			}
			ov := uniformT(r, ref.F32, shape, 2)
			p.Feed[name] = ov
			p.Values[name] = ov
		}
		p.Order = append(p.Order, name)
		p.BatchAxis[name] = -1
	}
	if r.Chance(0.3) { // what Run computes does not depend on the IR version the file declares
		p.IR = int64(r.PickInt(1, 2, 3, 4, 6, 8, 9, 10, -1))
	}
	if r.Chance(0.3) { // node names are optional
		p.NoNames = true
	}
	p.DeclOut = r.PickInt(0, 0, 0, 1, 2)
	p.SpellDomains = r.Chance(0.25)
	if rich && r.Chance(0.25) { // the default domain may be spelled "" or "ai.onnx"; other domains have their own versions
		switch r.Intn(5) {
		case 0:
			p.Opsets = []*onnx.OperatorSetIdProto{{Domain: "ai.onnx", Version: 13}}
		case 1:
			p.Opsets = []*onnx.OperatorSetIdProto{{Domain: "", Version: 13}, {Domain: "ai.onnx.ml", Version: int64(r.Range(1, 3))}}
		case 2:
			p.Opsets = []*onnx.OperatorSetIdProto{{Domain: "ai.onnx.ml", Version: int64(r.Range(1, 3))}, {Domain: "ai.onnx", Version: 13}}
		case 3:
			p.Opsets = []*onnx.OperatorSetIdProto{{Domain: "com.example.custom", Version: 1}, {Domain: "", Version: 13}}
		default:
			p.Opsets = []*onnx.OperatorSetIdProto{{Domain: "", Version: 13}, {Domain: "", Version: int64(r.Range(1, 13))}}
		}
	}
	palette := make([]string, r.Range(2, 5))
	for i := range palette {
		palette[i] = builderNames[r.Intn(len(builderNames))]
	}
	n := r.Range(1, maxNodes)
	for tries := 0; len(p.Nodes) < n && tries < 6*n; tries++ {
		name := palette[r.Intn(len(palette))]
		if r.Chance(0.15) {
			name = builderNames[r.Intn(len(builderNames))]
		}
		allBuilders[name](p)
	}
	return p
}

// --- additional builders for the sites named in C02 / C17 ---------------------

func bExpand(p *program) bool {
	x, ok := p.pick(func(n string, t *ref.T) bool { return isF32(n, t) && len(t.Bits) <= 60 })
	if !ok {
		return false
	}
	xv := p.Values[x]
	target := make([]int64, xv.Rank()+p.r.Range(0, 1))
	for i := range target {
		j := xv.Rank() - len(target) + i
		switch {
		case j >= 0 && xv.Shape[j] != 1:
			target[i] = int64(xv.Shape[j])
		case p.r.Chance(0.5):
			target[i] = 1 // identity along this axis: Expand may return its input object
		default:
			target[i] = int64(p.r.Range(2, 3))
		}
	}
	if len(target) == 0 {
		return false
	}
	s := p.addInit("shape", gen.I64s(target...))
	_, ok = p.addNode(progNode{G: mon.GNode{Op: "Expand", Inputs: []string{x, s}}, Mode: CmpBits, Eval: exactEval(func(in []*ref.T) (*ref.T, error) { return ref.Expand(in[0], in[1].Ints()) })})
	return ok
}

func bScalerLinReg(p *program) bool {
	x, ok := p.pick(func(n string, t *ref.T) bool { return isF32(n, t) && t.Rank() == 2 })
	if !ok {
		return false
	}
	xv := p.Values[x]
	c := xv.Shape[1]
	if p.r.Bool() {
		o32, o64 := f32s(p.r, c)
		s32, s64 := f32s(p.r, c)
		_, ok = p.addNode(progNode{G: mon.GNode{Op: "Scaler", Inputs: []string{x}, Attrs: []*mon.Attr{mon.AttrFloats("offset", o32), mon.AttrFloats("scale", s32)}}, Mode: CmpTol, Eval: approxEval(func(in []*ref.T) (*ref.Approx, error) { return ref.Scaler(in[0], o64, s64) })})
	} else {
		t := p.r.Range(1, 3)
		c32, c64 := f32s(p.r, t*c)
		i32, i64 := f32s(p.r, t)
		_, ok = p.addNode(progNode{G: mon.GNode{Op: "LinearRegressor", Inputs: []string{x}, Attrs: []*mon.Attr{mon.AttrFloats("coefficients", c32), mon.AttrFloats("intercepts", i32), mon.AttrI("targets", int64(t))}}, Mode: CmpTol, Eval: approxEval(func(in []*ref.T) (*ref.Approx, error) { return ref.LinearRegressor(in[0], c64, i64, t) })})
	}
	if ok {
		p.inheritBatch(x)
	}
	return ok
}

func bPRelu(p *program) bool {
	x, ok := p.pick(func(n string, t *ref.T) bool { return isF32(n, t) && t.Rank() >= 1 })
	if !ok {
		return false
	}
	xv := p.Values[x]
	ss := []int{xv.Shape[xv.Rank()-1]}
	if p.r.Bool() {
		ss = []int{1}
	}
	s := p.addInit("slope", p.smallWeights(ss, 1))
	_, ok = p.addNode(progNode{G: mon.GNode{Op: "PRelu", Inputs: []string{x, s}}, Mode: CmpIEEE, Eval: approxEval(func(in []*ref.T) (*ref.Approx, error) { return ref.PRelu(in[0], in[1]) })})
	if ok {
		p.inheritBatch(x)
	}
	return ok
}

func bSqueezeAll(p *program) bool {
	x, ok := p.pick(func(n string, t *ref.T) bool {
		if len(t.Bits) == 0 || len(t.Bits) > 400 {
			return false
		}
		for _, e := range t.Shape {
			if e == 1 {
				return true
			}
		}
		return false
	})
	if !ok {
		return false
	}
	_, ok = p.addNode(progNode{G: mon.GNode{Op: "Squeeze", Inputs: []string{x}}, Mode: CmpBits, Eval: exactEval(func(in []*ref.T) (*ref.T, error) { return ref.Squeeze(in[0], nil, false) })})
	return ok
}

func init() {
	allBuilders["Expand"] = bExpand
	allBuilders["ScalerLinReg"] = bScalerLinReg
	allBuilders["PRelu"] = bPRelu
	allBuilders["SqueezeAll"] = bSqueezeAll
	builderNames = append(builderNames, "Expand", "ScalerLinReg", "PRelu", "SqueezeAll")
}

// promote turns some initializers into graph inputs supplied by the caller, so
// that caller tensors play the special roles (convolution bias, initial
// recurrent state, reduction operand, shape parameters).
func (p *program) promote(prob float64) {
	var keep []mon.GInit
	for _, it := range p.Inits {
		if p.Shadow[it.Name] || !p.r.Chance(prob) {
			keep = append(keep, it)
			continue
		}
		p.Inputs = append(p.Inputs, mon.GInput{Name: it.Name, DT: it.T.DT, Dims: mon.FixedDims(it.T.Shape)})
		p.Feed[it.Name] = it.T
	}
	p.Inits = keep
}

// demoteAll turns every value the caller would supply into an initializer: inputs keep their
// declaration (and thereby get a default) or lose it (a plain weight), overrides of defaults are
// written into the default. The program then needs no input at all.
func (p *program) demoteAll() {
	var keep []mon.GInput
	for _, in := range p.Inputs {
		t, fed := p.Feed[in.Name]
		if !fed {
			keep = append(keep, in)
			continue
		}
		if p.Shadow[in.Name] { // an overridden default: the override becomes the default
			for i := range p.Inits {
				if p.Inits[i].Name == in.Name {
					p.Inits[i].T = t
				}
			}
			if !in.NoShape && !in.NoType {
				in.Dims = mon.FixedDims(t.Shape)
			}
			keep = append(keep, in)
		} else {
			p.Inits = append(p.Inits, mon.GInit{Name: in.Name, T: t, Raw: p.r.Bool()})
			if p.r.Bool() {
				p.Shadow[in.Name] = true
				keep = append(keep, in)
			}
		}
		delete(p.Feed, in.Name)
	}
	p.Inputs = keep
}
