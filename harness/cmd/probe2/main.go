//go:build verif

// probe2: stress of rank-0 (scalar) tensors under garbage collection.
package main

import (
	"fmt"
	"os"
	"runtime"
	"sync"

	"github.com/advancedclimatesystems/gonnx/ops/opset13"
	"gorgonia.org/tensor"
)

var sink [][]byte

func churn() {
	for i := 0; i < 50; i++ {
		b := make([]byte, 4096)
		copy(b, "verifverifverifverif")
		sink = append(sink, b)
		if len(sink) > 200 {
			sink = sink[100:]
		}
	}
}

func main() {
	mode := os.Args[1]
	var wg sync.WaitGroup
	var mu sync.Mutex
	bad := 0
	ng := 16
	if os.Getenv("NG") != "" {
		fmt.Sscan(os.Getenv("NG"), &ng)
	}
	for g := 0; g < ng; g++ {
		wg.Add(1)
		go func(g int) {
			defer wg.Done()
			for i := 0; i < 20000; i++ {
				x := tensor.New(tensor.FromScalar(int64(-13)))
				s := tensor.New(tensor.FromScalar(int64(2)))
				var got any
				switch mode {
				case "clone":
					c := x.Clone().(tensor.Tensor)
					runtime.Gosched()
					got = c.Data()
				case "clone-reshape":
					c := x.Clone().(tensor.Tensor)
					_ = c.Reshape(1)
					runtime.Gosched()
					got = c.Data().([]int64)[0]
				case "prelu":
					op, _ := opset13.GetOperator("PRelu")
					out, err := op.Apply([]tensor.Tensor{x, s})
					if err != nil {
						panic(err)
					}
					runtime.Gosched()
					got = out[0].Data()
					if got.(int64) == -26 {
						got = int64(-13)
					}
				case "prelu-vec":
					op, _ := opset13.GetOperator("PRelu")
					xv := tensor.New(tensor.WithShape(1), tensor.WithBacking([]int64{-13}))
					sv := tensor.New(tensor.WithShape(1), tensor.WithBacking([]int64{2}))
					out, err := op.Apply([]tensor.Tensor{xv, sv})
					if err != nil {
						panic(err)
					}
					runtime.Gosched()
					got = out[0].Data().([]int64)[0] / 2
				case "clone-reshape-vec":
					c := x.Clone().(tensor.Tensor)
					_ = c.Reshape(1)
					c2 := s.Clone().(tensor.Tensor)
					_ = c2.Reshape(1)
					y := tensor.NewDense(c.Dtype(), c.Shape())
					y.Data().([]int64)[0] = c.Data().([]int64)[0] * c2.Data().([]int64)[0]
					_ = y.Reshape()
					runtime.Gosched()
					got = y.Data().(int64) / 2
				case "newdense":
					y := tensor.NewDense(tensor.Int64, tensor.Shape{1})
					y.Data().([]int64)[0] = -13
					runtime.Gosched()
					got = y.Data().([]int64)[0]
				case "newdense-sharedshape":
					xv := tensor.New(tensor.WithShape(1), tensor.WithBacking([]int64{-13}))
					y := tensor.NewDense(xv.Dtype(), xv.Shape())
					y.Data().([]int64)[0] = xv.Data().([]int64)[0]
					runtime.Gosched()
					got = y.Data().([]int64)[0]
				case "withbacking":
					xv := tensor.New(tensor.WithShape(1), tensor.WithBacking([]int64{-13}))
					runtime.Gosched()
					got = xv.Data().([]int64)[0]
				case "getop":
					op, _ := opset13.GetOperator("PRelu")
					_ = op
					xv := tensor.New(tensor.WithShape(1), tensor.WithBacking([]int64{-13}))
					runtime.Gosched()
					got = xv.Data().([]int64)[0]
				case "dense-reshape0":
					y := tensor.NewDense(tensor.Int64, tensor.Shape{1})
					y.Data().([]int64)[0] = -13
					_ = y.Reshape()
					runtime.Gosched()
					got = y.Data()
				}
				if got.(int64) != -13 {
					mu.Lock()
					bad++
					if bad < 4 {
						fmt.Printf("goroutine %d iter %d: got %v (%#x)\n", g, i, got, got)
					}
					mu.Unlock()
				}
				if i%64 == 0 {
					mu.Lock()
					churn()
					mu.Unlock()
				}
			}
		}(g)
	}
	wg.Wait()
	fmt.Println(mode, "bad:", bad)
}
