package props

import (
	"errors"
	"fmt"
	"reflect"
	"sort"
	"strings"

	"github.com/advancedclimatesystems/gonnx"
	"gorgonia.org/tensor"

	"verif/harness/gen"
	"verif/harness/mon"
	"verif/harness/ref"
)

// C01 — Run computes the dataflow composition of the graph, returning every output.

func init() {
	Register(&Property{
		ID:    "C01",
		Title: "Run computes the dataflow composition of the graph, returning every output",
		Cases: func(tier string) int {
			switch tier {
			case "thorough":
				return 250000
			case "race":
				return 3000
			}
			return 35000
		},
		Run:            c01Run,
		Floor:          func(tier string) int { return 1000 },
		Rule:           "(one program in sixteen needs no input at all - every input has a default or is a plain weight - and is run with a nil input map half of the time) (defaulted inputs declared with open extents are overridden with other extents than the default; the default-domain opset import is spelled \"\", \"ai.onnx\", next to ai.onnx.ml / a custom domain, or twice) generated DAG programs of 1..12 nodes over 22 operator families (elementwise, Gemm/MatMul, Reshape family, Transpose/Concat/Gather/Slice, Softmax/Reduce/ArgMax+Cast, Constant, Shape, Conv, RNN/GRU/LSTM) with fan-out, fan-in (also of one tensor twice), repeated operator types with different attributes, multi-output nodes with arbitrary output names / omitted trailing outputs / a skipped middle output, optional inputs skipped by \"\" or truncated, initializers that are also graph inputs (overridden or not), graph outputs that are graph inputs or initializers; loaded from bytes. Each program is run (1) with the operator proxy: online trace specification (node order and phases, every apply receives position by position a tensor bit-equal to the value bound to that name when it was produced and nil for \"\", outputs bound by position, per-node reference oracle on the observed inputs, distinct stateful operator instances, result map = exactly the declared names, each bit-equal to its binding); (2) without proxy and with every intermediate declared as output: all values bit-identical to run (1); (3) with an injected fault at a random node/phase: Run must return that error and no outputs, and nothing may execute after it. Non-trivial = at least 2 nodes and one of: fan-out, repeated operator type, multi-output node, skipped optional input, shadowed initializer; distinct = program structure hash.",
		RaceInThorough: true,
		Technique:      "runtime monitoring: online checker of the dataflow trace specification over events recorded by a proxy on Model.GetOperator, per-node reference oracle, paired un-proxied run, fault injection at the proxy",
		Assumptions:    []string{"the proxy is transparent (checked per program by the paired un-proxied run)", "per-node tolerances as in C03..C11"},
	})
}

type envEntry struct {
	fp  mon.Fingerprint
	val *ref.T
}

func (p *program) structure() (desc string, nontrivial bool) {
	var sb strings.Builder
	uses := map[string]int{}
	opCount := map[string]int{}
	multi, skipped := false, false
	for _, n := range p.Nodes {
		sb.WriteString(n.G.Op)
		sb.WriteString("(")
		for _, in := range n.G.Inputs {
			if in == "" {
				skipped = true
				sb.WriteString("_,")
				continue
			}
			uses[in]++
			sb.WriteString(fmt.Sprint(p.Values[in].Shape))
		}
		sb.WriteString(")")
		for _, a := range n.G.Attrs {
			sb.WriteString(a.Name)
		}
		sb.WriteString(fmt.Sprintf("->%d;", len(n.G.Outputs)))
		opCount[n.G.Op]++
		if n.NOut > 1 {
			multi = true
		}
	}
	fanout, repeated := false, false
	for _, u := range uses {
		if u > 1 {
			fanout = true
		}
	}
	for _, k := range opCount {
		if k > 1 {
			repeated = true
		}
	}
	return sb.String(), len(p.Nodes) >= 2 && (fanout || repeated || multi || skipped || len(p.Shadow) > 0)
}

// declaredOutputs picks the graph outputs: every sink plus some intermediates,
// sometimes a graph input or an initializer.
func (p *program) declaredOutputs() []string {
	used := map[string]bool{}
	for _, n := range p.Nodes {
		for _, in := range n.G.Inputs {
			used[in] = true
		}
	}
	var outs []string
	for _, n := range p.Nodes {
		for _, o := range n.G.Outputs {
			if o != "" && p.Values[o] != nil && (!used[o] || p.r.Chance(0.25)) {
				outs = append(outs, o)
			}
		}
	}
	if p.r.Chance(0.1) && len(p.Inputs) > 0 {
		outs = append(outs, p.Inputs[p.r.Intn(len(p.Inputs))].Name)
	}
	if p.r.Chance(0.1) && len(p.Inits) > 0 {
		name := p.Inits[p.r.Intn(len(p.Inits))].Name
		if !p.Shadow[name] {
			outs = append(outs, name)
		}
	}
	return dedup(outs)
}

func (p *program) allOutputs() []string {
	var outs []string
	for _, n := range p.Nodes {
		for _, o := range n.G.Outputs {
			if o != "" && p.Values[o] != nil {
				outs = append(outs, o)
			}
		}
	}
	return dedup(outs)
}

func dedup(s []string) []string {
	seen := map[string]bool{}
	var out []string
	for _, x := range s {
		if !seen[x] {
			seen[x] = true
			out = append(out, x)
		}
	}
	return out
}

func c01Run(c *Ctx) {
	p := genProgramX(c.R, 12, true)
	if len(p.Nodes) == 0 {
		c.Skip("empty program")
		return
	}
	if c.Idx%16 == 6 { // a graph that needs nothing from its caller: every input has a default (or is a plain weight)
		p.demoteAll()
		c.Count("programs-without-a-required-input", 1)
	}
	desc, nontrivial := p.structure()
	outs := p.declaredOutputs()
	c.SetCase("program: %s | outputs %v | feed %s", trunc(desc, 900), outs, feedString(p.Feed))
	if nontrivial {
		c.Nontrivial(desc)
	}
	for _, n := range p.Nodes {
		c.Distinct("operator", n.G.Op)
	}
	c.Count("nodes", int64(len(p.Nodes)))

	// ArgMax is discontinuous: downstream of it an end-to-end comparison with the float64
	// reference is meaningless for near-ties (the per-node oracle on observed inputs decides).
	discontinuous := false
	for _, n := range p.Nodes {
		if n.G.Op == "ArgMax" {
			discontinuous = true
		}
	}
	g := p.Graph(outs)
	// (1) proxied run with the online trace checker
	env, ok := c01Traced(c, p, g, outs)
	// (2) un-proxied run with every intermediate declared: bit-identical to (1)
	if ok {
		all := p.allOutputs()
		o := mon.RunGraph(p.Graph(all), p.Feed)
		c.Eval(1)
		switch o.Kind {
		case mon.Panic:
			c.Violation("program:panic", "un-proxied run: %s", o.Describe())
		case mon.Error:
			c.Violation("program:proxy-not-transparent", "the proxied run succeeded, the un-proxied run of the same program (all intermediates declared) failed: %v", o.Err)
		default:
			for i, name := range all {
				e, have := env[name]
				if !have || o.Vals[i] == nil {
					if o.Vals[i] == nil {
						c.Violation("program:nil-output", "declared output %q is nil in the un-proxied run", name)
					}
					continue
				}
				if mon.HashBits(o.Vals[i].Bits) != e.fp.Hash || !ref.ShapeEq(o.Vals[i].Shape, e.fp.Shape) {
					c.Violation("program:proxied-and-plain-runs-differ", "tensor %q differs between the proxied and the un-proxied run", name)
				}
				// end-to-end against the reference graph evaluation (composition tolerance: loose)
				if want := p.Values[name]; !discontinuous && want != nil && want.DT.IsFloat() && ref.ShapeEq(want.Shape, o.Vals[i].Shape) {
					for k := range want.Bits {
						if d := absf(want.F(k) - o.Vals[i].F(k)); d > 1e-2*(1+absf(want.F(k))) || d != d {
							if want.F(k) == o.Vals[i].F(k) {
								continue
							}
							c.Violation("program:end-to-end-differs-from-reference", "tensor %q element %d: %v vs reference %v", name, k, o.Vals[i].F(k), want.F(k))
							break
						}
					}
				}
			}
		}
	}
	// (3) fault injection
	if ok {
		c01Inject(c, p, g)
	}
	// (5) entries of the caller's map that are named like values the graph computes (a stale
	// result map merged into the feed) or like nothing at all change no output
	if ok && c.Idx%3 == 0 {
		c01ExtraEntries(c, p, g, outs)
	}
	// (4) defaults and overrides are per call: one loaded model is run with the feed, then
	// with the other set of input names (override removed / added), then with the feed again
	if ok && len(p.Shadow) > 0 {
		c01DefaultsPerCall(c, p, g, outs)
	}
	if c.Idx%500 == 41 {
		c.Sample(map[string]any{"program": trunc(desc, 500), "nodes": len(p.Nodes), "declared_outputs": outs, "feed": feedString(p.Feed)})
	}
}

// c01Traced runs the program with the proxy and checks the trace
// specification. It returns the final environment and whether the run produced
// outputs without any violation.
func c01Traced(c *Ctx, p *program, g *mon.Graph, outs []string) (map[string]envEntry, bool) {
	bytes := g.Bytes()
	var m *gonnx.Model
	var px *mon.Proxy
	supplied := gonnx.Tensors{}
	var res gonnx.Tensors
	env := map[string]envEntry{}
	o := mon.Capture(nil, func() ([]tensor.Tensor, error) {
		var err error
		m, err = gonnx.NewModelFromBytes(bytes)
		if err != nil {
			return nil, fmt.Errorf("load: %w", err)
		}
		for name, t := range m.VerifParameters() {
			v, _ := mon.FromTensor(t)
			env[name] = envEntry{fp: mon.Fp(t), val: v}
		}
		for k, v := range p.Feed {
			supplied[k] = mon.ToTensor(v)
			env[k] = envEntry{fp: mon.Fp(supplied[k]), val: v}
		}
		px = mon.Attach(m)
		if len(supplied) == 0 && c.Idx%32 < 16 { // no input to supply: the caller may as well pass no map at all
			supplied = nil
			c.Count("runs-with-a-nil-input-map", 1)
		}
		res, err = m.Run(supplied)
		return nil, err
	})
	c.Eval(1)
	if o.Kind == mon.Panic {
		c.Violation("program:panic", "%s", o.Describe())
		return nil, false
	}
	if m == nil {
		c.Violation("program:does-not-load", "%v", o.Err)
		return nil, false
	}
	events := px.Events()
	good := true
	bad := func(sig, format string, a ...any) {
		good = false
		c.Violation(sig, format, a...)
	}
	// event order: lookup, init(k), validate(k), apply(k) for k = 0, 1, ...
	k, phaseIdx := 0, 0
	phases := []string{"lookup", "init", "validate", "apply"}
	applyOf := map[int]mon.Event{}
	for _, e := range events {
		if e.Phase != phases[phaseIdx] || (e.Phase != "lookup" && e.Node != k) {
			bad("trace:wrong-event-order", "event %d is %s(node %d), expected %s(node %d)", e.Seq, e.Phase, e.Node, phases[phaseIdx], k)
			break
		}
		if e.Phase == "lookup" && k < len(p.Nodes) && e.OpType != p.Nodes[k].G.Op {
			bad("trace:wrong-operator-looked-up", "node %d: looked up %q, graph says %q", k, e.OpType, p.Nodes[k].G.Op)
		}
		if e.Err != nil {
			break
		}
		if e.Phase == "apply" {
			applyOf[k] = e
			k++
		}
		phaseIdx = (phaseIdx + 1) % 4
	}
	if o.Kind == mon.Error {
		bad("program:refused-valid-program", "Run failed on a well-formed program: %v", o.Err)
		return env, false
	}
	if k != len(p.Nodes) {
		bad("trace:nodes-not-all-applied", "%d of %d nodes applied although Run succeeded", k, len(p.Nodes))
	}
	// dataflow: per node
	instances := map[string][]uintptr{}
	for idx, n := range p.Nodes {
		e, have := applyOf[idx]
		if !have {
			continue
		}
		for i, name := range n.G.Inputs {
			if i >= len(e.In) {
				bad("trace:too-few-inputs-presented", "node %d (%s): %d inputs presented for %d names", idx, n.G.Op, len(e.In), len(n.G.Inputs))
				break
			}
			if name == "" {
				if e.In[i] != nil {
					bad("trace:empty-name-not-nil", "node %d (%s): input %d has an empty name but a tensor was presented", idx, n.G.Op, i)
				}
				continue
			}
			bound, ok := env[name]
			if !ok {
				bad("trace:unbound-name", "node %d (%s): input name %q has no binding", idx, n.G.Op, name)
				continue
			}
			if e.In[i] == nil {
				bad("trace:nil-for-named-input", "node %d (%s): nil presented for input %q", idx, n.G.Op, name)
				continue
			}
			got := e.InBefore[i]
			if got.Hash != bound.fp.Hash || got.DT != bound.fp.DT || !ref.ShapeEq(got.Shape, bound.fp.Shape) {
				bad("trace:input-differs-from-binding", "node %d (%s): the tensor presented for %q (shape %v) is not the value bound to that name (shape %v): wrong tensor, or the value was modified between producer and consumer", idx, n.G.Op, name, got.Shape, bound.fp.Shape)
			}
		}
		for i := len(n.G.Inputs); i < len(e.In); i++ {
			if e.In[i] != nil {
				bad("trace:padding-not-nil", "node %d (%s): padded input %d is not nil", idx, n.G.Op, i)
			}
		}
		// reference oracle on the observed inputs
		if len(e.InVals) >= len(n.G.Inputs) {
			want, err := n.Eval(e.InVals[:len(n.G.Inputs)])
			if err != nil {
				bad("trace:reference-refuses-observed-inputs", "node %d (%s): %v", idx, n.G.Op, err)
			} else {
				for i := range n.G.Outputs {
					if i >= len(want) || i >= len(e.OutVals) {
						continue
					}
					if kind, d := CompareValue(e.OutVals[i], want[i], n.Mode); kind != "" {
						bad("node:"+n.G.Op+":"+kind, "node %d (%s) output %d: %s", idx, n.G.Op, i, d)
					}
				}
			}
		}
		if len(e.Out) != len(n.G.Outputs) {
			bad("trace:output-count-mismatch-accepted", "node %d (%s) produced %d outputs for %d names and Run did not fail", idx, n.G.Op, len(e.Out), len(n.G.Outputs))
		}
		for i, name := range n.G.Outputs {
			if name == "" || i >= len(e.Out) {
				continue
			}
			if e.Out[i] == nil {
				bad("trace:nil-output-bound", "node %d (%s): output %d (%q) is nil", idx, n.G.Op, i, name)
				continue
			}
			env[name] = envEntry{fp: e.OutFp[i], val: e.OutVals[i]}
		}
		// inputs must not be modified by the node (they may still be consumed later or returned)
		for i := range e.In {
			if i < len(e.InAfter) {
				if same, what := e.InBefore[i].Equal(e.InAfter[i]); !same {
					c.Count("diag:node-modified-its-input:"+n.G.Op, 1)
					c.Logf("diagnostic: node %d (%s) modified input %d: %s", idx, n.G.Op, i, what)
				}
			}
		}
		if t := reflect.TypeOf(e.Inner); t != nil && t.Kind() == reflect.Ptr && t.Elem().Size() > 0 {
			ptr := reflect.ValueOf(e.Inner).Pointer()
			for _, q := range instances[n.G.Op] {
				if q == ptr {
					bad("trace:operator-instance-shared", "two %s nodes were given the same operator instance", n.G.Op)
				}
			}
			instances[n.G.Op] = append(instances[n.G.Op], ptr)
		}
	}
	// result map
	want := append([]string{}, outs...)
	sort.Strings(want)
	var gotNames []string
	for name := range res {
		gotNames = append(gotNames, name)
	}
	sort.Strings(gotNames)
	if strings.Join(want, ",") != strings.Join(gotNames, ",") {
		bad("result:names-differ-from-declared-outputs", "result map has %v, declared %v", gotNames, want)
	}
	for _, name := range outs {
		t := res[name]
		if t == nil {
			bad("result:nil-output", "declared output %q is nil (no error reported)", name)
			continue
		}
		bound, ok := env[name]
		if !ok {
			bad("result:output-without-binding", "declared output %q was never bound", name)
			continue
		}
		fp := mon.Fp(t)
		if fp.Hash != bound.fp.Hash || !ref.ShapeEq(fp.Shape, bound.fp.Shape) || fp.DT != bound.fp.DT {
			bad("result:output-differs-from-binding", "declared output %q (shape %v) is not the value bound to that name (shape %v)", name, fp.Shape, bound.fp.Shape)
		}
	}
	return env, good
}

// c01Inject runs the program again with an injected failure.
func c01Inject(c *Ctx, p *program, g *mon.Graph) {
	node := c.R.Intn(len(p.Nodes))
	phase := c.R.PickStr("lookup", "init", "validate", "apply")
	injected := &mon.ErrInjected{Node: node, Phase: phase}
	lookups := 0
	tr := mon.RunGraphTraced(g, p.Feed, func(px *mon.Proxy) {
		px.Inject = func(n int, opType, ph string) error {
			if ph == "lookup" {
				lookups++
				if phase == "lookup" && lookups == node+1 {
					return injected
				}
				return nil
			}
			if n == node && ph == phase {
				return injected
			}
			return nil
		}
	})
	c.Eval(1)
	c.Count("fault-injections:"+phase, 1)
	switch tr.Outcome.Kind {
	case mon.Panic:
		c.Violation("inject:panic", "%s", tr.Outcome.Describe())
	case mon.Value:
		c.Violation("inject:error-swallowed", "a failure injected at node %d phase %s did not make Run fail (outputs returned)", node, phase)
	default:
		var ie *mon.ErrInjected
		if !errors.As(tr.Outcome.Err, &ie) {
			c.Violation("inject:another-error", "Run failed with %v instead of the injected error (node %d phase %s)", tr.Outcome.Err, node, phase)
		}
	}
	seen := false
	for _, e := range tr.Events {
		if seen {
			c.Violation("inject:execution-continued-after-failure", "event %s(node %d) after the injected failure", e.Phase, e.Node)
			break
		}
		if e.Injected {
			seen = true
		}
	}
}

// c01DefaultsPerCall: "an initializer that is also a graph input only supplies
// that input's default": the default applies in every call in which the caller
// leaves the input out, whatever earlier calls on the same Model supplied.
func c01DefaultsPerCall(c *Ctx, p *program, g *mon.Graph, outs []string) {
	other := map[string]*ref.T{}
	for k, v := range p.Feed {
		other[k] = v
	}
	for _, it := range p.Inits {
		if !p.Shadow[it.Name] {
			continue
		}
		if _, overridden := other[it.Name]; overridden {
			delete(other, it.Name)
		} else {
			other[it.Name] = uniformT(c.R, it.T.DT, it.T.Shape, 2)
		}
	}
	bytes := g.Bytes()
	sess := mon.NewSession(bytes)
	if sess.Err != nil {
		return
	}
	first := sess.Run(p.Feed, outs)
	second := sess.Run(other, outs)
	third := sess.Run(p.Feed, outs)
	fresh := mon.RunBytes(bytes, other, outs)
	c.Eval(4)
	c.Count("defaults-per-call-sequences", 1)
	if first.Kind == mon.Panic || second.Kind == mon.Panic || third.Kind == mon.Panic {
		c.Violation("program:panic", "sequence of Runs with different input-name sets: %s %s %s", trunc(first.Describe(), 100), trunc(second.Describe(), 100), trunc(third.Describe(), 100))
		return
	}
	if d := diffOutcomes(fresh, second); d != "" {
		c.Violation("program:default-or-override-leaks-between-calls", "after a Run with inputs %s, a Run with inputs %s differs from the same Run on a freshly loaded model: %s", feedNames(p.Feed), feedNames(other), d)
	}
	if d := diffOutcomes(first, third); d != "" {
		c.Violation("program:default-or-override-leaks-between-calls", "the Run with inputs %s differs after a Run with inputs %s in between: %s", feedNames(p.Feed), feedNames(other), d)
	}
}

func feedNames(f map[string]*ref.T) string {
	var names []string
	for k := range f {
		names = append(names, k)
	}
	sort.Strings(names)
	return fmt.Sprint(names)
}

// c01ExtraEntries: the declared outputs are the values the nodes compute; a
// caller tensor that happens to be named like a computed value (a declared
// output, an intermediate) or like nothing in the graph is not an input and
// must not shadow anything.
func c01ExtraEntries(c *Ctx, p *program, g *mon.Graph, outs []string) {
	feed := map[string]*ref.T{}
	for k, v := range p.Feed {
		feed[k] = v
	}
	isInput := map[string]bool{}
	for _, in := range p.Inputs {
		isInput[in.Name] = true
	}
	added := []string{}
	for _, n := range p.Nodes {
		for _, o := range n.G.Outputs {
			if v := p.Values[o]; o != "" && v != nil && !isInput[o] && c.R.Chance(0.4) && len(added) < 3 {
				feed[o] = c.R.Tensor(v.DT, v.Shape, gen.FillSmall, 50)
				added = append(added, o)
			}
		}
	}
	// ... and like the graph's constants: an initializer that is not a graph input is not a
	// default, a caller tensor of that name replaces nothing
	for _, it := range p.Inits {
		if !p.Shadow[it.Name] && !isInput[it.Name] && it.T != nil && c.R.Chance(0.5) && len(added) < 5 {
			feed[it.Name] = c.R.Tensor(it.T.DT, it.T.Shape, gen.FillSmall, 50)
			added = append(added, it.Name)
		}
	}
	feed["no_such_value"] = c.R.Tensor(ref.F32, []int{2}, gen.FillSmall, 5)
	bytes := g.Bytes()
	plain := mon.RunBytes(bytes, p.Feed, outs)
	extra := mon.RunBytes(bytes, feed, outs)
	c.Eval(2)
	c.Count("runs-with-extra-map-entries", 1)
	if d := diffOutcomes(plain, extra); d != "" {
		c.Violation("program:extra-map-entry-changes-an-output", "caller map entries named %v (values the graph computes, initializers that are not graph inputs) and \"no_such_value\" were added to the feed: %s", added, d)
	}
}
