package props

import (
	"fmt"
	"runtime"
	"sort"
	"strings"
	"sync"
	"sync/atomic"
	"time"

	"github.com/advancedclimatesystems/gonnx"
	"gorgonia.org/tensor"

	"verif/harness/gen"
	"verif/harness/mon"
	"verif/harness/ref"
)

// C17 — a loaded Model can be run from many goroutines at once.
//
// The deciding oracle is the Go race detector (every tier of this property runs
// in the -race build; the supervisor parses the detector's log). In-process
// monitors add: each concurrent Run must return bit for bit what the same input
// returns sequentially, weights must be unchanged at quiescence, no Run may
// fail or panic that succeeds sequentially.

func init() {
	Register(&Property{
		ID:    "C17",
		Title: "A loaded Model can be run from many goroutines at once",
		Cases: func(tier string) int {
			switch tier {
			case "thorough":
				return 4800
			}
			return 240
		},
		Run:         c17Run,
		RaceOnly:    true,
		Floor:       func(tier string) int { return 40 },
		Rule:        "trials of 2..16 goroutines x 3..12 Runs each on one shared Model (each goroutine with its own input tensors, released together by a start barrier), plus 0..2 goroutines loading models (same bytes and other bytes) meanwhile; models: the sample models mlp/gru/scaler (ndm sparingly) and generated programs covering every family that reads shared state (initializers as Gemm/MatMul/Conv weights and bias, as initial_h/initial_c, as Reshape/Expand/Slice/Gather parameters, as PRelu slope, as ArgMax/Reduce operands, typed-field initializers, Constant/Scaler/LinearRegressor attribute tensors); GOMAXPROCS rotated over {2,4,8,16}; in half of the trials a light operator proxy injects PRNG-chosen yields/sleeps between node phases and records the global (goroutine,node) event order. Oracles: Go race detector reports (parsed from the detector log, deduplicated by outermost frames), bit-exact comparison of every concurrent result with the sequential baseline of a fresh model, weight fingerprints at quiescence, no error/panic. A trial counts as non-trivial only if at least one pair of Runs overlapped in time (measured from one atomic clock); distinct = (model structure, goroutines, runs).",
		Technique:   "Go race detector (-race build) over stress workloads with injected yields, plus in-process monitors: sequential-baseline value comparison and weight fingerprints at quiescence",
		Assumptions: []string{"the race detector only sees accesses that are executed: the workload enumerates the roles a shared weight can play", "by C02 the sequential specification of Run is a pure function of its input, so linearizability reduces to per-call comparison with the baseline"},
		Extra: func(a *Aggregate, cov map[string]any) {
			cov["runs_executed_concurrently"] = a.Counters["runs"]
			cov["overlapping_run_pairs_observed"] = a.Counters["overlapping-pairs"]
			cov["race_detector_reports"] = a.Counters["race:reports"]
			if s, ok := a.Sets["interleaving-signature"]; ok {
				cov["distinct_interleaving_signatures"] = len(s)
			}
		},
	})
}

var c17Clock int64

func c17Run(c *Ctx) {
	r := c.R
	var spec *modelSpec
	var desc string
	kind := c.Idx % 20
	switch {
	case kind < 4:
		specs := sampleModels()
		spec = specs[r.Intn(3)]
		if r.Chance(0.08) {
			spec = specs[3]
		}
		desc = spec.Name
	case kind == 12:
		// linear-algebra roles of a shared weight: vector x matrix, matrix x vector,
		// batched x matrix, vector x batched matrix, Gemm with a transposed weight
		k, n := r.Range(2, 6), r.Range(2, 6)
		W := numTensor(r, ref.F32, []int{k, n})
		var req mon.OpReq
		mask := uint64(2)
		switch r.Intn(5) {
		case 0:
			req = mon.OpReq{Op: "MatMul", Inputs: []*ref.T{numTensor(r, ref.F32, []int{k}), W}}
		case 1:
			req, mask = mon.OpReq{Op: "MatMul", Inputs: []*ref.T{W, numTensor(r, ref.F32, []int{n})}}, 1
		case 2:
			req = mon.OpReq{Op: "MatMul", Inputs: []*ref.T{numTensor(r, ref.F32, []int{r.Range(1, 3), r.Range(1, 4), k}), W}}
		case 3:
			req = mon.OpReq{Op: "MatMul", Inputs: []*ref.T{numTensor(r, ref.F32, []int{k}), numTensor(r, ref.F32, []int{r.Range(2, 3), k, n})}}
		default:
			req = mon.OpReq{Op: "Gemm", Inputs: []*ref.T{numTensor(r, ref.F32, []int{r.Range(1, 4), n}), W, numTensor(r, ref.F32, []int{k})}, Attrs: []*mon.Attr{mon.AttrI("transB", 1)}}
			mask = 6
		}
		spec = specFromOpReq(r, req, mask)
		desc = trunc(req.Describe(), 300)
	case kind < 12:
		// single-node models from the per-operator generators, rotating over all 55
		// operators; usually every input (also the data operand) is a shared weight
		name := c15Names[(c.Idx+int(c.Seed))%len(c15Names)]
		req, _, ok := SampleValidReq(r, name, true)
		if !ok {
			c.Skip("no valid request")
			return
		}
		spec = specFromOpReq(r, req, ^uint64(0)&^(r.U64()&r.U64()&3))
		desc = trunc(req.Describe(), 300)
	default:
		p := genProgram(r, 8)
		if len(p.Nodes) == 0 {
			c.Skip("empty program")
			return
		}
		p.promote(0.15)
		d, _ := p.structure()
		desc = d
		spec = specFromProgram(p, p.declaredOutputs())
	}
	G := r.PickInt(2, 2, 3, 4, 8, 16)
	R := r.Range(3, 12)
	if spec.Heavy {
		G, R = r.PickInt(2, 3, 4), r.Range(2, 4)
	}
	procs := []int{2, 4, 8, 16}[c.Idx%4]
	old := runtime.GOMAXPROCS(procs)
	defer runtime.GOMAXPROCS(old)
	useProxy := r.Bool()
	loaders := r.PickInt(0, 1, 1, 2)
	c.SetCase("model %s | %d goroutines x %d runs | GOMAXPROCS %d | proxy-yields %v | loaders %d", trunc(desc, 600), G, R, procs, useProxy, loaders)

	// sequential baseline on a fresh model
	feeds := make([][]map[string]*ref.T, G)
	base := make([][]gonnx.Tensors, G)
	baseErr := make([][]error, G)
	bm, err := gonnx.NewModelFromBytes(spec.Bytes)
	if err != nil {
		c.Violation("concurrent:model-does-not-load", "%v", err)
		return
	}
	for g := 0; g < G; g++ {
		feeds[g] = make([]map[string]*ref.T, R)
		base[g] = make([]gonnx.Tensors, R)
		baseErr[g] = make([]error, R)
		for j := 0; j < R; j++ {
			feeds[g][j] = spec.Feed(r, 0)
			in := gonnx.Tensors{}
			for k, v := range feeds[g][j] {
				in[k] = mon.ToTensor(v)
			}
			o := mon.Capture(nil, func() ([]tensor.Tensor, error) {
				var err error
				base[g][j], err = bm.Run(in)
				return nil, err
			})
			if o.Kind == mon.Panic {
				c.Violation("concurrent:panic", "sequential baseline: %s", o.Describe())
				return
			}
			baseErr[g][j] = o.Err
		}
	}
	c.Eval(G * R)

	// the shared model
	m, err := gonnx.NewModelFromBytes(spec.Bytes)
	if err != nil {
		c.Violation("concurrent:model-does-not-load", "%v", err)
		return
	}
	weights := map[string]mon.Fingerprint{}
	for name, t := range m.VerifParameters() {
		weights[name] = mon.Fp(t)
	}
	protoFp := mon.ProtoFingerprint(m)
	var px *mon.Proxy
	var orderMu sync.Mutex
	var order []string
	if useProxy {
		px = mon.Attach(m)
		px.Light = true
		salt := r.U64()
		px.Yield = func(node int, phase string) {
			h := gen.HashStr(fmt.Sprintf("%d/%s/%d", node, phase, atomic.AddInt64(&c17Clock, 1))) ^ salt
			switch h % 7 {
			case 0:
				runtime.Gosched()
			case 1:
				time.Sleep(time.Duration(h%50) * time.Microsecond)
			}
			if phase == "apply" {
				orderMu.Lock()
				if len(order) < 400 {
					order = append(order, fmt.Sprintf("%d", node))
				}
				orderMu.Unlock()
			}
		}
	}
	type stamp struct{ start, end int64 }
	stamps := make([][]stamp, G)
	type failure struct {
		g, j int
		what string
	}
	var failMu sync.Mutex
	var fails []failure
	start := make(chan struct{})
	var wg sync.WaitGroup
	var done int32
	for g := 0; g < G; g++ {
		stamps[g] = make([]stamp, R)
		wg.Add(1)
		go func(g int) {
			defer wg.Done()
			<-start
			for j := 0; j < R; j++ {
				in := gonnx.Tensors{}
				for k, v := range feeds[g][j] {
					in[k] = mon.ToTensor(v)
				}
				var out gonnx.Tensors
				stamps[g][j].start = atomic.AddInt64(&c17Clock, 1)
				o := mon.Capture(nil, func() ([]tensor.Tensor, error) {
					var err error
					out, err = m.Run(in)
					return nil, err
				})
				stamps[g][j].end = atomic.AddInt64(&c17Clock, 1)
				what := ""
				switch {
				case o.Kind == mon.Panic:
					what = "panic: " + o.Describe()
				case (o.Err != nil) != (baseErr[g][j] != nil):
					what = fmt.Sprintf("concurrent outcome %v, sequential outcome %v", o.Err, baseErr[g][j])
				case o.Err == nil:
					what = diffResults(out, base[g][j])
				}
				if what != "" {
					failMu.Lock()
					fails = append(fails, failure{g, j, what})
					failMu.Unlock()
				}
			}
		}(g)
	}
	var lwg sync.WaitGroup
	other := sampleModels()[c.Idx%3].Bytes
	for l := 0; l < loaders; l++ {
		lwg.Add(1)
		go func(l int) {
			defer lwg.Done()
			<-start
			for atomic.LoadInt32(&done) == 0 {
				b := spec.Bytes
				if l == 1 {
					b = other
				}
				lm, err := gonnx.NewModelFromBytes(b)
				if err != nil || lm == nil {
					failMu.Lock()
					fails = append(fails, failure{-1, l, fmt.Sprintf("concurrent load failed: %v", err)})
					failMu.Unlock()
					return
				}
				runtime.Gosched()
			}
		}(l)
	}
	close(start)
	wg.Wait()
	atomic.StoreInt32(&done, 1)
	lwg.Wait()
	c.Eval(G * R)
	c.Count("runs", int64(G*R))
	c.Count("trials-with-proxy-yields", b2i(useProxy))

	// quiescent point: weights unchanged
	for name, t := range m.VerifParameters() {
		if same, what := weights[name].Equal(mon.Fp(t)); !same {
			c.Violation("concurrent:weight-modified", "weight %q changed during concurrent Runs: %s | %s", name, what, trunc(desc, 300))
		}
	}
	if mon.ProtoFingerprint(m) != protoFp {
		c.Violation("concurrent:model-proto-modified", "the decoded model (node attributes, attribute tensors, initializer protos) changed during concurrent Runs | %s", trunc(desc, 300))
	}
	for i, f := range fails {
		if i >= 3 {
			break
		}
		sig := "concurrent:result-differs-from-sequential"
		if strings.HasPrefix(f.what, "panic") {
			sig = "concurrent:panic"
		} else if strings.HasPrefix(f.what, "concurrent outcome") {
			sig = "concurrent:run-fails-only-concurrently"
		} else if strings.HasPrefix(f.what, "concurrent load") {
			sig = "concurrent:load-disturbed"
		}
		c.Violation(sig, "goroutine %d run %d: %s | %s", f.g, f.j, trunc(f.what, 400), trunc(desc, 300))
	}
	// overlap measurement
	overlaps := 0
	for a := 0; a < G; a++ {
		for b := a + 1; b < G; b++ {
			for _, x := range stamps[a] {
				for _, y := range stamps[b] {
					if x.start < y.end && y.start < x.end {
						overlaps++
					}
				}
			}
		}
	}
	c.Count("overlapping-pairs", int64(overlaps))
	if overlaps > 0 {
		c.Nontrivial(fmt.Sprintf("%s|%d|%d|%d", desc, G, R, procs))
	} else {
		c.Count("trials-without-overlap", 1)
	}
	if useProxy {
		c.Distinct("interleaving-signature", strings.Join(order, ","))
	}
	var stampList []string
	for g := range stamps {
		stampList = append(stampList, fmt.Sprintf("g%d:[%d..%d]", g, stamps[g][0].start, stamps[g][R-1].end))
	}
	sort.Strings(stampList)
	if c.Idx%40 == 3 {
		c.Sample(map[string]any{"model": trunc(desc, 300), "goroutines": G, "runs_each": R, "GOMAXPROCS": procs, "overlapping_run_pairs": overlaps, "proxy_yields": useProxy, "loaders": loaders, "first_apply_order": trunc(strings.Join(order, ","), 120), "run_intervals": trunc(strings.Join(stampList, " "), 200)})
	}
}
