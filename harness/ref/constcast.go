package ref

import (
	"encoding/binary"
	"math"
)

// CastValue converts one element by C-style conversion. ok=false when the
// conversion is implementation-defined (NaN/out-of-range float to int), which
// the property excludes from its domain.
func CastValue(from, to DType, bits uint64) (uint64, bool) {
	switch {
	case from.IsFloat():
		var v float64
		if from == F32 {
			v = float64(math.Float32frombits(uint32(bits)))
		} else {
			v = math.Float64frombits(bits)
		}
		switch {
		case to == F32:
			return uint64(math.Float32bits(float32(v))), true
		case to == F64:
			return math.Float64bits(v), true
		case to.IsSigned():
			tr := math.Trunc(v)
			lim := math.Ldexp(1, int(to.Bits())-1)
			if v != v || tr < -lim || tr >= lim {
				return 0, false
			}
			return WrapI(to, int64(tr)), true
		case to.IsUnsigned():
			tr := math.Trunc(v)
			lim := math.Ldexp(1, int(to.Bits()))
			if v != v || tr < 0 || tr >= lim {
				return 0, false
			}
			return WrapU(to, uint64(tr)), true
		}
	case from.IsSigned():
		v := int64(bits)
		switch {
		case to == F32:
			return uint64(math.Float32bits(float32(v))), true
		case to == F64:
			return math.Float64bits(float64(v)), true
		case to.IsSigned():
			return WrapI(to, v), WrapI(to, v) == uint64(v)
		case to.IsUnsigned():
			return WrapU(to, uint64(v)), v >= 0 && WrapU(to, uint64(v)) == uint64(v)
		}
	case from.IsUnsigned():
		v := bits
		switch {
		case to == F32:
			return uint64(math.Float32bits(float32(v))), true
		case to == F64:
			return math.Float64bits(float64(v)), true
		case to.IsSigned():
			w := WrapI(to, int64(v))
			return w, int64(w) >= 0 && uint64(int64(w)) == v
		case to.IsUnsigned():
			return WrapU(to, v), WrapU(to, v) == v
		}
	}
	return 0, false
}

// Cast converts every element; ok=false if any element is outside the defined domain.
func Cast(t *T, to DType) (*T, bool) {
	out := New(to, t.Shape...)
	for i, b := range t.Bits {
		v, ok := CastValue(t.DT, to, b)
		if !ok {
			return nil, false
		}
		out.Bits[i] = v
	}
	return out, true
}

// ConstantOfShape returns a tensor of the given shape filled with value
// (value nil = float32 zero).
func ConstantOfShape(shape []int64, value *T) (*T, error) {
	dt := F32
	var fill uint64
	if value != nil {
		if len(value.Bits) != 1 {
			return nil, invalid("ConstantOfShape value has %d elements", len(value.Bits))
		}
		dt, fill = value.DT, value.Bits[0]
	}
	s := make([]int, len(shape))
	for i, v := range shape {
		if v < 0 {
			return nil, invalid("negative extent %d", v)
		}
		s[i] = int(v)
	}
	out := New(dt, s...)
	for i := range out.Bits {
		out.Bits[i] = fill
	}
	return out, nil
}

// Proto is a neutral copy of the payload-carrying fields of an ONNX TensorProto.
type Proto struct {
	DataType   int32
	Dims       []int64
	Raw        []byte
	FloatData  []float32
	Int32Data  []int32
	Int64Data  []int64
	DoubleData []float64
	Uint64Data []uint64
}

// Decode implements Appendix A.11: a well-formed payload decodes bit-exactly,
// everything else is invalid.
func Decode(p Proto) (*T, error) {
	dt, ok := FromOnnxCode(p.DataType)
	if !ok {
		return nil, invalid("data_type %d is not representable", p.DataType)
	}
	count := 1
	shape := make([]int, len(p.Dims))
	hasZero := false
	for i, d := range p.Dims {
		if d < 0 {
			return nil, invalid("negative dim %d", d)
		}
		if d == 0 {
			hasZero = true
		}
		shape[i] = int(d)
	}
	for _, d := range p.Dims {
		if hasZero {
			count = 0
			break
		}
		if d > 1<<31 || count > (1<<40)/int(d) {
			return nil, invalid("dims %v overflow", p.Dims)
		}
		count *= int(d)
	}
	out := &T{DT: dt, Shape: shape}
	typed := 0
	var bits []uint64
	switch dt {
	case F32:
		typed = len(p.FloatData)
		for _, v := range p.FloatData {
			bits = append(bits, uint64(math.Float32bits(v)))
		}
	case F64:
		typed = len(p.DoubleData)
		for _, v := range p.DoubleData {
			bits = append(bits, math.Float64bits(v))
		}
	case I64:
		typed = len(p.Int64Data)
		for _, v := range p.Int64Data {
			bits = append(bits, uint64(v))
		}
	case U32, U64:
		typed = len(p.Uint64Data)
		for _, v := range p.Uint64Data {
			bits = append(bits, Wrap(dt, v))
		}
	default: // I32 I16 I8 U16 U8 Bool
		typed = len(p.Int32Data)
		for _, v := range p.Int32Data {
			bits = append(bits, Wrap(dt, uint64(int64(v))))
		}
	}
	if typed == 0 {
		sz := dt.Size()
		if len(p.Raw)%sz != 0 {
			return nil, invalid("raw payload of %d bytes is not a multiple of %d", len(p.Raw), sz)
		}
		for off := 0; off+sz <= len(p.Raw); off += sz {
			var v uint64
			switch sz {
			case 1:
				v = uint64(p.Raw[off])
			case 2:
				v = uint64(binary.LittleEndian.Uint16(p.Raw[off:]))
			case 4:
				v = uint64(binary.LittleEndian.Uint32(p.Raw[off:]))
			case 8:
				v = binary.LittleEndian.Uint64(p.Raw[off:])
			}
			if dt.IsSigned() {
				switch sz {
				case 1:
					v = uint64(int64(int8(v)))
				case 2:
					v = uint64(int64(int16(v)))
				case 4:
					v = uint64(int64(int32(v)))
				}
			}
			if dt == Bool && v != 0 {
				v = 1
			}
			bits = append(bits, v)
		}
	}
	if len(bits) != count {
		return nil, invalid("%d elements for dims %v", len(bits), p.Dims)
	}
	if bits == nil {
		bits = []uint64{}
	}
	out.Bits = bits
	return out, nil
}
