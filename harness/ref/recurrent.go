package ref

import (
	"math"
	"strings"
)

// RecAttrs are the attributes of RNN/GRU/LSTM relevant to the forward direction.
type RecAttrs struct {
	Hidden            int
	Activations       []string // nil = defaults
	LinearBeforeReset bool
	InputForget       bool
	// ActAlpha / ActBeta: activation_alpha / activation_beta, one entry per activation (the
	// generator only uses them when every activation of the list consumes them, so that
	// "consumed in the order of the activation functions" has one reading); nil = defaults.
	ActAlpha, ActBeta []float64
}

// act returns activation i of the list with its parameters applied.
func (at RecAttrs) Act(acts []string, i int) (func(float64) float64, bool) {
	f, ok := Activation(acts[i])
	if !ok || (at.ActAlpha == nil && at.ActBeta == nil) {
		return f, ok
	}
	alpha, beta, hasA, hasB := 0.0, 0.0, false, false
	if i < len(at.ActAlpha) {
		alpha, hasA = at.ActAlpha[i], true
	}
	if i < len(at.ActBeta) {
		beta, hasB = at.ActBeta[i], true
	}
	switch strings.ToLower(acts[i]) {
	case "hardsigmoid":
		if !hasA {
			alpha = 0.2
		}
		if !hasB {
			beta = 0.5
		}
		return func(x float64) float64 { return math.Min(1, math.Max(0, alpha*x+beta)) }, true
	case "leakyrelu":
		if !hasA {
			alpha = 0.01
		}
		return func(x float64) float64 {
			if x >= 0 {
				return x
			}
			return alpha * x
		}, true
	case "elu":
		if !hasA {
			alpha = 1
		}
		return func(x float64) float64 {
			if x >= 0 {
				return x
			}
			return alpha * (math.Exp(x) - 1)
		}, true
	}
	return f, ok
}

// Activation returns the ONNX activation function for a name (case-insensitive
// for the names gonnx spells in lower case); ok=false for names outside the
// ONNX list.
func Activation(name string) (func(float64) float64, bool) {
	switch strings.ToLower(name) {
	case "relu":
		return func(x float64) float64 {
			if x > 0 || x != x {
				return x
			}
			return 0
		}, true
	case "tanh":
		return math.Tanh, true
	case "sigmoid":
		return func(x float64) float64 { return 1 / (1 + math.Exp(-x)) }, true
	case "leakyrelu":
		return func(x float64) float64 {
			if x >= 0 {
				return x
			}
			return 0.01 * x
		}, true
	case "hardsigmoid":
		return func(x float64) float64 { return math.Min(1, math.Max(0, 0.2*x+0.5)) }, true
	case "elu":
		return func(x float64) float64 {
			if x >= 0 {
				return x
			}
			return math.Exp(x) - 1
		}, true
	case "softsign":
		return func(x float64) float64 { return x / (1 + math.Abs(x)) }, true
	case "softplus":
		return func(x float64) float64 { return math.Log1p(math.Exp(x)) }, true
	}
	return nil, false
}

type recShapes struct{ S, B, I, H int }

func recCheck(kind string, gates int, x, w, r, b, h0 *T, at RecAttrs) (recShapes, error) {
	var z recShapes
	if x.Rank() != 3 || w.Rank() != 3 || r.Rank() != 3 {
		return z, invalid("%s operand ranks", kind)
	}
	z = recShapes{S: x.Shape[0], B: x.Shape[1], I: x.Shape[2], H: at.Hidden}
	if z.H < 1 {
		return z, invalid("hidden_size %d", z.H)
	}
	if !ShapeEq(w.Shape, []int{1, gates * z.H, z.I}) || !ShapeEq(r.Shape, []int{1, gates * z.H, z.H}) {
		return z, invalid("%s W %v / R %v for hidden %d input %d", kind, w.Shape, r.Shape, z.H, z.I)
	}
	if b != nil && !ShapeEq(b.Shape, []int{1, 2 * gates * z.H}) {
		return z, invalid("%s B %v", kind, b.Shape)
	}
	if h0 != nil && !ShapeEq(h0.Shape, []int{1, z.B, z.H}) {
		return z, invalid("%s initial_h %v", kind, h0.Shape)
	}
	return z, nil
}

func fl(t *T) []float64 {
	if t == nil {
		return nil
	}
	return t.Floats()
}

// gateLin computes X_t W_g^T + Hin R_g^T + Wb_g + Rb_g for gate g into out[B*H].
func gateLin(z recShapes, gates, g int, xt, hin, w, r, b []float64, out []float64) {
	for n := 0; n < z.B; n++ {
		for j := 0; j < z.H; j++ {
			acc := 0.0
			row := g*z.H + j
			for i := 0; i < z.I; i++ {
				acc += xt[n*z.I+i] * w[row*z.I+i]
			}
			for i := 0; i < z.H; i++ {
				acc += hin[n*z.H+i] * r[row*z.H+i]
			}
			if b != nil {
				acc += b[row] + b[gates*z.H+row]
			}
			out[n*z.H+j] = acc
		}
	}
}

func recOutputs(dt DType, z recShapes, ys [][]float64, states ...[]float64) []*T {
	Y := New(dt, z.S, 1, z.B, z.H)
	for t := range ys {
		for i, v := range ys[t] {
			Y.Bits[t*z.B*z.H+i] = EncF(dt, v)
		}
	}
	outs := []*T{Y}
	for _, s := range states {
		o := New(dt, 1, z.B, z.H)
		for i, v := range s {
			o.Bits[i] = EncF(dt, v)
		}
		outs = append(outs, o)
	}
	return outs
}

func zerosOr(v []float64, n int) []float64 {
	if v != nil {
		return append([]float64{}, v...)
	}
	return make([]float64, n)
}

// RNN evaluates the forward ONNX RNN: outputs Y, Y_h.
func RNN(x, w, r, b, h0 *T, at RecAttrs) ([]*T, error) {
	z, err := recCheck("RNN", 1, x, w, r, b, h0, at)
	if err != nil {
		return nil, err
	}
	acts := at.Activations
	if acts == nil {
		acts = []string{"Tanh"}
	}
	if len(acts) != 1 {
		return nil, invalid("RNN needs 1 activation, got %d", len(acts))
	}
	f, ok := at.Act(acts, 0)
	if !ok {
		return nil, invalid("activation %q", acts[0])
	}
	xf, wf, rf, bf := fl(x), fl(w), fl(r), fl(b)
	h := zerosOr(fl(h0), z.B*z.H)
	var ys [][]float64
	for t := 0; t < z.S; t++ {
		h = RNNStep(z, xf[t*z.B*z.I:(t+1)*z.B*z.I], h, wf, rf, bf, f)
		ys = append(ys, h)
	}
	return recOutputs(x.DT, z, ys, h), nil
}

// RNNStep is one step of the RNN recurrence.
func RNNStep(z recShapes, xt, h, w, r, b []float64, f func(float64) float64) []float64 {
	out := make([]float64, z.B*z.H)
	gateLin(z, 1, 0, xt, h, w, r, b, out)
	for i := range out {
		out[i] = f(out[i])
	}
	return out
}

// GRU evaluates the forward ONNX GRU: outputs Y, Y_h.
func GRU(x, w, r, b, h0 *T, at RecAttrs) ([]*T, error) {
	z, err := recCheck("GRU", 3, x, w, r, b, h0, at)
	if err != nil {
		return nil, err
	}
	acts := at.Activations
	if acts == nil {
		acts = []string{"Sigmoid", "Tanh"}
	}
	if len(acts) != 2 {
		return nil, invalid("GRU needs 2 activations, got %d", len(acts))
	}
	f, ok1 := at.Act(acts, 0)
	g, ok2 := at.Act(acts, 1)
	if !ok1 || !ok2 {
		return nil, invalid("activations %v", acts)
	}
	xf, wf, rf, bf := fl(x), fl(w), fl(r), fl(b)
	h := zerosOr(fl(h0), z.B*z.H)
	var ys [][]float64
	for t := 0; t < z.S; t++ {
		h = GRUStep(z, xf[t*z.B*z.I:(t+1)*z.B*z.I], h, wf, rf, bf, f, g, at.LinearBeforeReset)
		ys = append(ys, h)
	}
	return recOutputs(x.DT, z, ys, h), nil
}

// GRUStep is one step of the GRU recurrence (gate order z r h).
func GRUStep(z recShapes, xt, h, w, r, b []float64, f, g func(float64) float64, lbr bool) []float64 {
	n := z.B * z.H
	zt, rt, ht := make([]float64, n), make([]float64, n), make([]float64, n)
	gateLin(z, 3, 0, xt, h, w, r, b, zt)
	gateLin(z, 3, 1, xt, h, w, r, b, rt)
	for i := 0; i < n; i++ {
		zt[i], rt[i] = f(zt[i]), f(rt[i])
	}
	for bb := 0; bb < z.B; bb++ {
		for j := 0; j < z.H; j++ {
			row := 2*z.H + j
			xw := 0.0
			for i := 0; i < z.I; i++ {
				xw += xt[bb*z.I+i] * w[row*z.I+i]
			}
			wb, rb := 0.0, 0.0
			if b != nil {
				wb, rb = b[row], b[3*z.H+row]
			}
			var v float64
			if !lbr {
				hr := 0.0
				for i := 0; i < z.H; i++ {
					hr += rt[bb*z.H+i] * h[bb*z.H+i] * r[row*z.H+i]
				}
				v = xw + hr + rb + wb
			} else {
				hr := 0.0
				for i := 0; i < z.H; i++ {
					hr += h[bb*z.H+i] * r[row*z.H+i]
				}
				v = xw + rt[bb*z.H+j]*(hr+rb) + wb
			}
			ht[bb*z.H+j] = g(v)
		}
	}
	out := make([]float64, n)
	for i := 0; i < n; i++ {
		out[i] = (1-zt[i])*ht[i] + zt[i]*h[i]
	}
	return out
}

// LSTM evaluates the forward ONNX LSTM: outputs Y, Y_h, Y_c.
func LSTM(x, w, r, b, h0, c0, p *T, at RecAttrs) ([]*T, error) {
	z, err := recCheck("LSTM", 4, x, w, r, b, h0, at)
	if err != nil {
		return nil, err
	}
	if c0 != nil && !ShapeEq(c0.Shape, []int{1, z.B, z.H}) {
		return nil, invalid("LSTM initial_c %v", c0.Shape)
	}
	if p != nil && !ShapeEq(p.Shape, []int{1, 3 * z.H}) {
		return nil, invalid("LSTM P %v", p.Shape)
	}
	acts := at.Activations
	if acts == nil {
		acts = []string{"Sigmoid", "Tanh", "Tanh"}
	}
	if len(acts) != 3 {
		return nil, invalid("LSTM needs 3 activations, got %d", len(acts))
	}
	f, ok1 := at.Act(acts, 0)
	g, ok2 := at.Act(acts, 1)
	hh, ok3 := at.Act(acts, 2)
	if !ok1 || !ok2 || !ok3 {
		return nil, invalid("activations %v", acts)
	}
	xf, wf, rf, bf, pf := fl(x), fl(w), fl(r), fl(b), fl(p)
	h := zerosOr(fl(h0), z.B*z.H)
	c := zerosOr(fl(c0), z.B*z.H)
	n := z.B * z.H
	var ys [][]float64
	it, ot, ft, ct := make([]float64, n), make([]float64, n), make([]float64, n), make([]float64, n)
	for t := 0; t < z.S; t++ {
		xt := xf[t*z.B*z.I : (t+1)*z.B*z.I]
		gateLin(z, 4, 0, xt, h, wf, rf, bf, it)
		gateLin(z, 4, 1, xt, h, wf, rf, bf, ot)
		gateLin(z, 4, 2, xt, h, wf, rf, bf, ft)
		gateLin(z, 4, 3, xt, h, wf, rf, bf, ct)
		nc, nh := make([]float64, n), make([]float64, n)
		for i := 0; i < n; i++ {
			j := i % z.H
			pi, po, pfg := 0.0, 0.0, 0.0
			if pf != nil {
				pi, po, pfg = pf[j], pf[z.H+j], pf[2*z.H+j]
			}
			iv := f(it[i] + pi*c[i])
			fv := f(ft[i] + pfg*c[i])
			if at.InputForget {
				fv = 1 - iv
			}
			cv := g(ct[i])
			nc[i] = fv*c[i] + iv*cv
			ov := f(ot[i] + po*nc[i])
			nh[i] = ov * hh(nc[i])
		}
		h, c = nh, nc
		ys = append(ys, h)
	}
	return recOutputs(x.DT, z, ys, h, c), nil
}

// RecShapes exposes the shape tuple for step-wise checks.
func RecShapes(s, b, i, h int) recShapes { return recShapes{S: s, B: b, I: i, H: h} }
