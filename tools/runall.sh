#!/bin/bash
# runs every check of a tier and validates every evidence file
tier=${1:-quick}
cd /verif
rc=0
for i in $(seq -w 1 18); do
  p=C$i
  start=$(date +%s)
  out=$(./check.sh $p $tier 2>&1); code=$?
  end=$(date +%s)
  echo "$p exit=$code $((end-start))s $(echo "$out" | grep -c '^KNOWN-FINDING') known | $(echo "$out" | grep '^SUMMARY' | cut -c1-200)"
  if [ $code -ne 0 ]; then echo "$out" | grep -v KNOWN | head -5 | cut -c1-400; rc=1; fi
done
python3-vt - <<'PY'
import json, jsonschema, glob
sch = json.load(open('/root/.vp/EVIDENCE.schema.json'))
for f in sorted(glob.glob('/verif/evidence/C*.json')):
    try:
        jsonschema.validate(json.load(open(f)), sch)
    except Exception as e:
        print("INVALID evidence", f, str(e)[:300])
print("evidence validated")
PY
exit $rc
