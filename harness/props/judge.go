package props

import (
	"fmt"
	"gorgonia.org/tensor"
	"math"

	"verif/harness/gen"
	"verif/harness/mon"
	"verif/harness/ref"
)

// ExpKind is the expectation class of a request (DESIGN §2.4.1).
type ExpKind int

// Expectation classes.
const (
	MustEqual ExpKind = iota // valid request in the must-compute core
	MustError                // ONNX declares the request invalid
	MayRefuse                // valid, but the property allows refusing: right value or error
)

func (k ExpKind) String() string { return [...]string{"MUST_EQUAL", "MUST_ERROR", "MAY_REFUSE"}[k] }

// CmpMode selects how values are compared.
type CmpMode int

// Comparison modes.
const (
	CmpBits   CmpMode = iota // every bit pattern equal
	CmpIEEE                  // floats: NaN == NaN, +0 == -0; everything else exact
	CmpTol                   // floats within Approx.Tol; special values by class
	CmpSigned                // floats: NaN == NaN (any payload), everything else bit-exact: +0 and -0 differ
)

// Expect is the expectation for one request.
type Expect struct {
	Kind ExpKind
	Want []*ref.Approx
	Mode CmpMode
	Why  string
}

// Exact wraps exact expected outputs.
func Exact(ts ...*ref.T) []*ref.Approx {
	out := make([]*ref.Approx, len(ts))
	for i, t := range ts {
		if t != nil {
			out[i] = &ref.Approx{T: t}
		}
	}
	return out
}

// CompareValue compares one observed tensor with its expectation. It returns
// "" when equal, else the kind of difference and a detail string.
func CompareValue(got *ref.T, want *ref.Approx, mode CmpMode) (kind, detail string) {
	w := want.T
	if got == nil {
		return "nil-output", "output tensor is nil"
	}
	if got.DT != w.DT {
		return "wrong-dtype", fmt.Sprintf("dtype %v, expected %v", got.DT, w.DT)
	}
	if !ref.ShapeEq(got.Shape, w.Shape) {
		return "wrong-shape", fmt.Sprintf("shape %v, expected %v", got.Shape, w.Shape)
	}
	if len(got.Bits) != len(w.Bits) {
		return "wrong-shape", fmt.Sprintf("%d elements for shape %v", len(got.Bits), got.Shape)
	}
	for i := range w.Bits {
		if got.Bits[i] == w.Bits[i] {
			continue
		}
		if !w.DT.IsFloat() || mode == CmpBits {
			return "wrong-value", fmt.Sprintf("element %d: got %s, expected %s", i, elemStr(got, i), elemStr(w, i))
		}
		g, e := got.F(i), w.F(i)
		switch {
		case e != e:
			if g != g {
				continue
			}
		case g != g:
		case math.IsInf(e, 0) || math.IsInf(g, 0):
			// an infinite value must match exactly (bit patterns differ here)
		case g == e && mode != CmpSigned: // +0 vs -0
			continue
		case mode == CmpTol && want.Tol != nil && math.Abs(g-e) <= want.Tol[i]:
			continue
		}
		d := fmt.Sprintf("element %d: got %s, expected %s", i, elemStr(got, i), elemStr(w, i))
		if mode == CmpTol && want.Tol != nil {
			d += fmt.Sprintf(" (|diff| %.3g > tol %.3g)", math.Abs(g-e), want.Tol[i])
		}
		return "wrong-value", d
	}
	return "", ""
}

func elemStr(t *ref.T, i int) string {
	switch {
	case t.DT.IsFloat():
		return fmt.Sprintf("%g(0x%x)", t.F(i), t.Bits[i])
	case t.DT.IsUnsigned():
		return fmt.Sprintf("%d", t.Bits[i])
	case t.DT == ref.Bool:
		return fmt.Sprint(t.B(i))
	}
	return fmt.Sprintf("%d", t.I(i))
}

// Verdict is the judged result of one execution.
type Verdict struct {
	OK     bool
	Kind   string // violation kind
	Detail string
}

// Judge compares an outcome with the expectation.
func Judge(exp Expect, o mon.Outcome) Verdict {
	switch o.Kind {
	case mon.Panic:
		return Verdict{Kind: "panic", Detail: o.Describe()}
	case mon.Error:
		if exp.Kind == MustEqual {
			return Verdict{Kind: "refused-valid", Detail: fmt.Sprintf("valid request refused: %s", o.Describe())}
		}
		return Verdict{OK: true}
	}
	if exp.Kind == MustError {
		return Verdict{Kind: "accepted-invalid", Detail: fmt.Sprintf("invalid request (%s) answered with %s", exp.Why, trunc(o.Describe(), 300))}
	}
	if o.ReadErr != "" {
		return Verdict{Kind: "malformed-output", Detail: o.ReadErr}
	}
	if len(o.Vals) != len(exp.Want) {
		return Verdict{Kind: "wrong-count", Detail: fmt.Sprintf("%d outputs, expected %d", len(o.Vals), len(exp.Want))}
	}
	for i, w := range exp.Want {
		if w == nil {
			continue // output not requested / not judged
		}
		if k, d := CompareValue(o.Vals[i], w, exp.Mode); k != "" {
			return Verdict{Kind: k, Detail: fmt.Sprintf("output %d: %s", i, d)}
		}
	}
	return Verdict{OK: true}
}

// attributeLess lists the operators that have no attribute at all in opset 13.
var attributeLess = map[string]bool{"Add": true, "Sub": true, "Mul": true, "Div": true, "And": true, "Or": true, "Xor": true, "Not": true,
	"Equal": true, "Greater": true, "GreaterOrEqual": true, "Less": true, "LessOrEqual": true, "Abs": true, "Acos": true, "Acosh": true,
	"Asin": true, "Asinh": true, "Atan": true, "Atanh": true, "Cos": true, "Cosh": true, "Sin": true, "Sinh": true, "Tan": true, "Tanh": true,
	"Relu": true, "Sigmoid": true, "PRelu": true, "MatMul": true, "Expand": true, "Reshape": true, "Shape": true, "Squeeze": true,
	"Unsqueeze": true, "Slice": true}

// KnownMatcher inspects a violating execution and returns the signature of a
// known defect when — and only when — the observed behaviour is exactly the
// known wrong one; "" otherwise.
type KnownMatcher func(req mon.OpReq, exp Expect, o mon.Outcome, v Verdict) string

// CheckOp runs a request through the operator API and (optionally) as a
// single-node model, judges both and records violations. It returns true when
// no violation was found.
func CheckOp(c *Ctx, req mon.OpReq, exp Expect, viaModel bool, mo mon.ModelOpts, known KnownMatcher) bool {
	ok := true
	if mo.IR == 0 && c.Idx%3 == 0 {
		mo.IR = []int64{1, 3, 4, 6, 8, 9, 10, -1}[(c.Idx/3)%8]
	}
	if c.Idx%5 == 2 { // node names are optional
		mo.NoNames = true
	}
	if c.Idx%7 == 3 { // the node's domain may be spelled out
		mo.SpellDomains = true
	}
	o, muts := mon.RunOpAPI(req)
	c.Eval(1)
	c.Count(fmt.Sprintf("outcome:%s/%s", exp.Kind, o.Kind), 1)
	if v := Judge(exp, o); !v.OK {
		ok = false
		report(c, "api", req, exp, o, v, known)
	}
	if len(muts) > 0 {
		c.Count("diag:operator-modified-its-input-tensor", 1)
		c.Logf("diagnostic: operator API call modified input %d: %s", muts[0].Index, muts[0].What)
	}
	if c.Idx%8 == 3 && ok {
		// the same request on an operator instance that was already applied to other inputs
		var warm [][]*ref.T
		for n := c.R.Range(1, 2); n > 0; n-- {
			if w, _, wok := SampleValidReq(c.R, req.Op, true); wok {
				warm = append(warm, w.Inputs)
			}
		}
		if len(warm) > 0 && c.R.Chance(0.3) {
			// one of the other input lists is of another shape at one operand: it may well be
			// refused inside Apply - a refused call leaves nothing behind in the instance either
			k := c.R.Intn(len(warm))
			perturbed := append([]*ref.T{}, warm[k]...)
			for try := 0; try < 4 && len(perturbed) > 0; try++ {
				if j := c.R.Intn(len(perturbed)); perturbed[j] != nil && perturbed[j].DT.IsFloat() && len(perturbed[j].Bits) > 0 {
					perturbed[j] = variantOf(c.R, perturbed[j], c.R.Bool())
					break
				}
			}
			warm = append(warm[:k], append([][]*ref.T{perturbed}, warm[k:]...)...)
		}
		if len(warm) > 0 {
			or, _, stale := mon.RunOpReused(req, warm, c.Idx%16 == 3)
			c.Eval(1)
			c.Count("reused-instance-calls", 1)
			if v := Judge(exp, or); !v.OK {
				ok = false
				report(c, fmt.Sprintf("api, operator instance already applied to %d other input list(s), first %s", len(warm), trunc(describeInputs(warm[0]), 200)), req, exp, or, v, known)
			} else if stale != "" {
				ok = false
				c.Violation(req.Op+":earlier-result-overwritten", "[api, one operator instance applied several times] %s | request: %s", stale, trunc(req.Describe(), 500))
			}
		}
	}
	if c.Idx%8 == 1 && ok && len(req.Attrs) > 1 {
		// the attributes of a node are a set: the same request with its attribute list in
		// another order (reversed or rotated)
		shuffled := req
		shuffled.Attrs = append([]*mon.Attr{}, req.Attrs...)
		if n := len(shuffled.Attrs); c.R.Bool() || n == 2 {
			for i, j := 0, n-1; i < j; i, j = i+1, j-1 {
				shuffled.Attrs[i], shuffled.Attrs[j] = shuffled.Attrs[j], shuffled.Attrs[i]
			}
		} else {
			k := c.R.Range(1, n-1)
			shuffled.Attrs = append(shuffled.Attrs[k:], shuffled.Attrs[:k]...)
		}
		os, _ := mon.RunOpAPI(shuffled)
		c.Eval(1)
		c.Count("attribute-order-variants", 1)
		if v := Judge(exp, os); !v.OK {
			ok = false
			report(c, "api, attribute list in another order", shuffled, exp, os, v, known)
		}
	}
	if c.Idx%32 == 18 && ok && len(req.Attrs) > 0 {
		// attributes without their type field (as hand-built nodes and IR-1 files have them; the
		// value fields are unchanged): honoured as before or refused, never silently ignored
		untyped := req
		untyped.Attrs = make([]*mon.Attr, len(req.Attrs))
		for i, a := range req.Attrs {
			// (field by field: proto.Clone drops a float field holding -0)
			untyped.Attrs[i] = &mon.Attr{Name: a.Name, RefAttrName: a.RefAttrName, DocString: a.DocString, F: a.F, I: a.I, S: a.S, T: a.T, G: a.G,
				SparseTensor: a.SparseTensor, Tp: a.Tp, Floats: a.Floats, Ints: a.Ints, Strings: a.Strings, Tensors: a.Tensors, Graphs: a.Graphs,
				SparseTensors: a.SparseTensors, TypeProtos: a.TypeProtos}
		}
		expU := exp
		if expU.Kind == MustEqual {
			expU.Kind = MayRefuse
		}
		ou, _ := mon.RunOpAPI(untyped)
		c.Eval(1)
		c.Count("untyped-attribute-variants", 1)
		if v := Judge(expU, ou); !v.OK {
			ok = false
			report(c, "api, attributes without their type field", untyped, expU, ou, v, known)
		}
	}
	if c.Idx%32 == 10 && ok && len(req.Attrs) == 0 && attributeLess[req.Op] {
		// an attribute the operator does not have in opset 13 (left over from an older opset's
		// broadcasting scheme, or simply unknown): the node is refused or computed as without it
		stray := req
		switch c.R.Intn(5) {
		case 3: // attributes the operator only gets in a LATER opset
			stray.Attrs = []*mon.Attr{mon.AttrI("allowzero", 1)}
		case 4:
			stray.Attrs = []*mon.Attr{mon.AttrI(c.R.PickStr("start", "end"), int64(c.R.PickInt(1, -1, 2, -2)))}
		case 0:
			stray.Attrs = []*mon.Attr{mon.AttrI("axis", int64(c.R.Range(0, 2)))}
		case 1:
			stray.Attrs = []*mon.Attr{mon.AttrI("broadcast", 1), mon.AttrI("axis", int64(c.R.Range(0, 1)))}
		default:
			stray.Attrs = []*mon.Attr{mon.AttrInts("consumed_inputs", []int64{0, 1})}
		}
		expS := exp
		if expS.Kind == MustEqual {
			expS.Kind = MayRefuse
		}
		os, _ := mon.RunOpAPI(stray)
		c.Eval(1)
		c.Count("requests-with-a-stray-attribute", 1)
		if v := Judge(expS, os); !v.OK {
			ok = false
			report(c, "api, node carries an attribute the operator does not have", stray, expS, os, v, known)
		}
	}
	if c.Idx%32 == 26 && ok {
		// the node object was used before with other attributes (another valid node of this
		// operator) and has been edited in place since
		if prev, _, pok := SampleValidReq(c.R, req.Op, true); pok {
			oe := mon.RunOpOnEditedNode(prev, req)
			c.Eval(1)
			c.Count("node-objects-edited-in-place-between-two-Inits", 1)
			if v := Judge(exp, oe); !v.OK {
				ok = false
				report(c, fmt.Sprintf("api, the node object was initialised before with the attributes of %s and edited in place since", trunc(prev.Describe(), 160)), req, exp, oe, v, known)
			}
		}
	}
	if c.Idx%64 == 2 && ok {
		// what an operator's introspection returns belongs to the caller: the entries of the
		// constraint list of ONE instance are replaced, then the request runs on a fresh one
		if probe, err := getOp(req.Op); err == nil {
			cons := probe.GetInputTypeConstraints()
			for i := range cons {
				cons[i] = []tensor.Dtype{tensor.Complex128}
			}
			oc, _ := mon.RunOpAPI(req)
			c.Eval(1)
			c.Count("calls-after-scribbled-type-constraints", 1)
			if v := Judge(exp, oc); !v.OK {
				ok = false
				report(c, "api, after the caller replaced the entries of the constraint list another instance had returned", req, exp, oc, v, known)
			}
		}
	}
	if c.Idx%8 == 6 && ok {
		// the input list as a prefix of a longer array with other tensors behind its length
		osp := mon.RunOpAPISpare(req)
		c.Eval(1)
		c.Count("spare-capacity-list-calls", 1)
		if v := Judge(exp, osp); !v.OK {
			ok = false
			report(c, "api, input list with spare capacity holding other tensors", req, exp, osp, v, known)
		}
	}
	if c.Idx%8 == 7 && ok {
		// operands that are Clone()s of the caller's tensors, used for two calls
		o1, o2 := mon.RunOpAPIClones(req)
		c.Eval(2)
		c.Count("cloned-operand-calls", 1)
		if v := Judge(exp, o1); !v.OK {
			ok = false
			report(c, "api, operands are Clone()s of the caller's tensors", req, exp, o1, v, known)
		} else if v := Judge(exp, o2); !v.OK {
			ok = false
			report(c, "api, second call on the same cloned operand objects (fresh operator instance)", req, exp, o2, v, known)
		}
	}
	if c.Idx%8 == 5 && ok {
		// the same instance and the same tensor objects, whose contents the caller has
		// overwritten in place since the previous call
		if ou, ran, stale := mon.RunOpUpdatedInPlace(req, c.Idx%16 == 13); ran {
			c.Eval(1)
			c.Count("operands-updated-in-place-calls", 1)
			if v := Judge(exp, ou); !v.OK {
				ok = false
				report(c, "api, second call on the same operator instance and tensor objects after the operands' contents were overwritten in place", req, exp, ou, v, known)
			} else if stale != "" {
				ok = false
				c.Violation(req.Op+":earlier-result-overwritten", "[api, one operator instance applied twice to operands of the same shapes] %s | request: %s", stale, trunc(req.Describe(), 500))
			}
		}
	}
	if viaModel && hasAbsentInput(req) && !mo.Truncate {
		// the same single-node model behind a node that OMITS one of its outputs ("" among
		// its output names): the skipped inputs of the node under test are written "" too
		// and must still reach the operator as absent
		g, feed := mon.BuildOpModel(req, mo)
		addOmittedOutputUpstream(g)
		ou := mon.RunGraph(g, feed)
		c.Eval(1)
		c.Count("models-behind-an-omitted-output", 1)
		if v := Judge(exp, ou); !v.OK {
			ok = false
			report(c, "model, behind a node with an omitted output", req, exp, ou, v, known)
		}
	}
	if viaModel && c.Idx%16 == 8 && mo.InitMask != 0 {
		// the caller's map also holds tensors named like the model's constants (initializers
		// that are not graph inputs), with other contents: they replace nothing
		g, feed := mon.BuildOpModel(req, mo)
		strays := 0
		for _, it := range g.Inits {
			if it.T == nil || it.T.DT == ref.Str || len(it.T.Bits) == 0 {
				continue
			}
			other := it.T.Clone()
			for i := range other.Bits {
				other.Bits[i] = it.T.Bits[(i+1)%len(it.T.Bits)]
			}
			if it.T.DT.IsFloat() {
				other.Bits[0] = ref.EncF(it.T.DT, 7.5)
			}
			feed[it.Name] = other
			strays++
		}
		if strays > 0 {
			ost := mon.RunGraph(g, feed)
			c.Eval(1)
			c.Count("models-run-with-caller-entries-named-like-initializers", 1)
			if v := Judge(exp, ost); !v.OK {
				ok = false
				report(c, "model, the caller's map also holds tensors named like the model's (non-input) initializers", req, exp, ost, v, known)
			}
		}
	}
	if viaModel && c.Idx%16 == 0 && exp.Kind == MustEqual && len(exp.Want) > 0 && exp.Want[0] != nil {
		// the node between two other nodes: its data operand and its first result are
		// intermediate values of the graph (neither caller tensors, weights nor outputs)
		if g, feed, made := sandwichModel(req, mo, exp.Want[0].T, c.Idx%32 == 16); made {
			for n := 1; n <= 2 && ok; n++ {
				osw := mon.RunGraph(g, feed)
				c.Eval(1)
				if v := Judge(exp, osw); !v.OK {
					ok = false
					report(c, fmt.Sprintf("model, node between two Reshape nodes (operand and result are intermediate values), load+Run %d", n), req, exp, osw, v, known)
				}
			}
			c.Count("models-with-the-node-between-two-others", 1)
		}
	}
	if viaModel && c.Idx%16 == 4 && exp.Kind == MustEqual && ok {
		// the node behind another node of its own operator type that carries other (valid, non-default)
		// attributes and reads its own weights: what the node computes does not depend on how an
		// earlier node of the same type was configured. The sibling's results are outputs of the graph.
		if sib, sexp, sok := SampleValidReq(c.R, req.Op, true); sok {
			g, feed := mon.BuildOpModel(req, mo)
			nOut := len(g.Outputs)
			sn := mon.GNode{Op: sib.Op, Name: "sibling", Attrs: sib.Attrs}
			for i, in := range sib.Inputs {
				if in == nil {
					sn.Inputs = append(sn.Inputs, "")
					continue
				}
				name := fmt.Sprintf("sib_i%d", i)
				sn.Inputs = append(sn.Inputs, name)
				g.Inits = append(g.Inits, mon.GInit{Name: name, T: in})
			}
			for i := range sexp.Want {
				name := fmt.Sprintf("sib_o%d", i)
				sn.Outputs = append(sn.Outputs, name)
				g.Outputs = append(g.Outputs, mon.GInput{Name: name, NoType: true})
			}
			if len(sn.Outputs) > 0 {
				g.Nodes = append([]mon.GNode{sn}, g.Nodes...)
				osib := mon.RunGraph(g, feed)
				c.Eval(1)
				if osib.Kind == mon.Value && len(osib.Vals) >= nOut {
					osib.Vals = osib.Vals[:nOut]
					if len(osib.Raw) >= nOut {
						osib.Raw = osib.Raw[:nOut]
					}
				}
				c.Count("models-with-the-node-behind-a-sibling-of-its-type", 1)
				if osib.Kind == mon.Error && osib.Phase == "load" {
					// the sibling's weights are of a type no initializer can carry (complex, ...): not a model
					c.Count("sibling-models-that-cannot-be-written", 1)
				} else if v := Judge(exp, osib); !v.OK {
					ok = false
					report(c, fmt.Sprintf("model, node behind a sibling %s", trunc(sib.Describe(), 300)), req, exp, osib, v, known)
				}
			}
		}
	}
	if viaModel {
		om := mon.RunOpModel(req, mo)
		c.Eval(1)
		c.Count(fmt.Sprintf("outcome-model:%s/%s", exp.Kind, om.Kind), 1)
		if v := Judge(exp, om); !v.OK {
			ok = false
			report(c, "model", req, exp, om, v, known)
		} else if c.Idx%8 == 4 {
			// the same single-node model loaded once and run three times with fresh caller tensors
			g, feed := mon.BuildOpModel(req, mo)
			var outs []string
			for _, o := range g.Outputs {
				outs = append(outs, o.Name)
			}
			if sess := mon.NewSession(g.Bytes()); sess.Err == nil {
				for n := 1; n <= 3; n++ {
					on := sess.Run(feed, outs)
					c.Eval(1)
					if v := Judge(exp, on); !v.OK {
						ok = false
						report(c, fmt.Sprintf("model, Run %d on one loaded model", n), req, exp, on, v, known)
						break
					}
				}
				c.Count("single-node-models-run-three-times", 1)
			}
		}
	}
	if c.Verbose {
		c.Logf("expect %s (%s); observed %s", exp.Kind, exp.Why, trunc(o.Describe(), 600))
		for i, w := range exp.Want {
			if w != nil {
				c.Logf("  want[%d] = %s", i, w.T)
			}
		}
	}
	return ok
}

func report(c *Ctx, path string, req mon.OpReq, exp Expect, o mon.Outcome, v Verdict, known KnownMatcher) {
	sig := fmt.Sprintf("%s:%s", req.Op, v.Kind)
	if known != nil {
		if k := known(req, exp, o, v); k != "" {
			sig = k
		}
	}
	c.Violation(sig, "[%s path] %s | request: %s | expectation: %s %s", path, trunc(v.Detail, 500), trunc(req.Describe(), 700), exp.Kind, exp.Why)
}

// CheckOpsShared runs a sequence of requests that share operand objects
// (the same *ref.T in several requests is one tensor object for all calls) and
// judges every call against its own expectation, which is computed from the
// operand values the caller built. Through the operator API the calls are made
// one after another; when every request must compute, the sequence is also run
// as one graph (shared operands = one input or initializer consumed by several
// nodes), twice on the same loaded model.
func CheckOpsShared(c *Ctx, reqs []mon.OpReq, exps []Expect, viaModel bool, isInit func(*ref.T) bool, known KnownMatcher) bool {
	ok := true
	outs := mon.RunOpsShared(reqs)
	c.Eval(len(reqs))
	c.Count("shared-operand-sequences", 1)
	for j, o := range outs {
		if v := Judge(exps[j], o); !v.OK {
			ok = false
			report(c, fmt.Sprintf("api, call %d of a sequence sharing operand objects", j+1), reqs[j], exps[j], o, v, known)
		}
	}
	if !viaModel {
		return ok
	}
	for _, e := range exps {
		if e.Kind != MustEqual {
			return ok
		}
	}
	runs := mon.RunOpsSharedModel(reqs, isInit, c.R.Bool(), 2)
	for n, per := range runs {
		c.Eval(len(per))
		for j, o := range per {
			if v := Judge(exps[j], o); !v.OK {
				ok = false
				report(c, fmt.Sprintf("model, run %d, node %d of a graph sharing operands", n+1, j+1), reqs[j], exps[j], o, v, known)
			}
		}
	}
	return ok
}

func describeInputs(ins []*ref.T) string {
	s := ""
	for i, t := range ins {
		if i > 0 {
			s += ", "
		}
		s += t.String()
	}
	return s
}

func hasAbsentInput(r mon.OpReq) bool {
	for _, in := range r.Inputs {
		if in == nil {
			return true
		}
	}
	return false
}

// addOmittedOutputUpstream prepends a small GRU node whose first output (Y) is
// omitted; its Y_h is not a graph output (a dead value), so the outputs of the
// graph stay those of the node under test.
// sandwichModel renders the request as a three-node model: Reshape(input 0, its own
// shape) -> the node under test -> Reshape(result 0, its own shape). The two Reshape
// nodes change no value; they make the data operand and the first result of the node
// intermediate values of the graph.
func sandwichModel(req mon.OpReq, mo mon.ModelOpts, want0 *ref.T, viaTranspose bool) (*mon.Graph, map[string]*ref.T, bool) {
	if len(req.Inputs) == 0 || req.Inputs[0] == nil || req.Inputs[0].DT == ref.Str || want0.DT == ref.Str || len(req.Inputs[0].Bits) == 0 || len(want0.Bits) == 0 {
		return nil, nil, false
	}
	// viaTranspose: the node in front is a Transpose (default perm) of the operand stored transposed,
	// so the operand the node reads is the result of a transposition (same elements, same order)
	viaTranspose = viaTranspose && len(req.Inputs[0].Shape) >= 2
	if viaTranspose {
		if tr, err := ref.Transpose(req.Inputs[0], nil); err == nil {
			orig := req.Inputs[0]
			ins := append([]*ref.T{}, req.Inputs...)
			for i := range ins {
				if ins[i] == orig {
					ins[i] = tr
				}
			}
			req.Inputs = ins
		} else {
			viaTranspose = false
		}
	}
	g, feed := mon.BuildOpModel(req, mo)
	if len(g.Nodes) != 1 || len(g.Nodes[0].Inputs) == 0 || g.Nodes[0].Inputs[0] != "i0" || len(g.Nodes[0].Outputs) == 0 || g.Nodes[0].Outputs[0] == "" || len(g.Outputs) == 0 {
		return nil, nil, false
	}
	shapeOf := func(t *ref.T) *ref.T {
		v := make([]int64, len(t.Shape))
		for i, d := range t.Shape {
			v[i] = int64(d)
		}
		return gen.I64s(v...)
	}
	node := g.Nodes[0]
	first := node.Outputs[0]
	node.Inputs = append([]string{}, node.Inputs...)
	node.Outputs = append([]string{}, node.Outputs...)
	for i, name := range node.Inputs { // the operand may be read at several positions
		if name == "i0" {
			node.Inputs[i] = "sw_operand"
		}
	}
	node.Outputs[0] = "sw_result"
	g.Inits = append(g.Inits, mon.GInit{Name: "sw_shape_in", T: shapeOf(req.Inputs[0])}, mon.GInit{Name: "sw_shape_out", T: shapeOf(want0)})
	before := mon.GNode{Op: "Reshape", Name: "before", Inputs: []string{"i0", "sw_shape_in"}, Outputs: []string{"sw_operand"}}
	if viaTranspose {
		perm := make([]int64, len(req.Inputs[0].Shape))
		for i := range perm {
			perm[i] = int64(len(perm) - 1 - i)
		}
		before = mon.GNode{Op: "Transpose", Name: "before", Inputs: []string{"i0"}, Outputs: []string{"sw_operand"}, Attrs: []*mon.Attr{mon.AttrInts("perm", perm)}}
	}
	g.Nodes = []mon.GNode{
		before,
		node,
		{Op: "Reshape", Name: "after", Inputs: []string{"sw_result", "sw_shape_out"}, Outputs: []string{first}},
	}
	return g, feed, true
}

func addOmittedOutputUpstream(g *mon.Graph) {
	const H = 2
	x := ref.FromF(ref.F32, []int{2, 1, 3}, []float64{0.5, -1, 0.25, 1, 0.75, -0.5})
	w := ref.New(ref.F32, 1, 3*H, 3)
	rr := ref.New(ref.F32, 1, 3*H, H)
	for i := range w.Bits {
		w.Bits[i] = ref.EncF(ref.F32, float64(i%5-2)/8)
	}
	for i := range rr.Bits {
		rr.Bits[i] = ref.EncF(ref.F32, float64(i%3-1)/4)
	}
	g.Inits = append(g.Inits, mon.GInit{Name: "up_x", T: x}, mon.GInit{Name: "up_w", T: w}, mon.GInit{Name: "up_r", T: rr})
	up := mon.GNode{Op: "GRU", Name: "upstream", Inputs: []string{"up_x", "up_w", "up_r"}, Outputs: []string{"", "up_h"}, Attrs: []*mon.Attr{mon.AttrI("hidden_size", H)}}
	g.Nodes = append([]mon.GNode{up}, g.Nodes...)
}
