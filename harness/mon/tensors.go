// Package mon holds the monitors: conversion between the reference value type
// and gorgonia tensors, deep fingerprints, outcome capture at the API boundary,
// the operator proxy and the model builders.
package mon

import (
	"fmt"
	"hash/fnv"
	"math"
	"reflect"
	"runtime"
	"strconv"

	"gorgonia.org/tensor"

	"verif/harness/ref"
)

var dtypeMap = map[tensor.Dtype]ref.DType{
	tensor.Float32: ref.F32, tensor.Float64: ref.F64,
	tensor.Int8: ref.I8, tensor.Int16: ref.I16, tensor.Int32: ref.I32, tensor.Int64: ref.I64,
	tensor.Uint8: ref.U8, tensor.Uint16: ref.U16, tensor.Uint32: ref.U32, tensor.Uint64: ref.U64,
	tensor.Bool: ref.Bool, tensor.Complex64: ref.C64, tensor.Complex128: ref.C128, tensor.String: ref.Str,
}

// GoDtype maps a reference dtype to the gorgonia dtype.
func GoDtype(d ref.DType) tensor.Dtype {
	for k, v := range dtypeMap {
		if v == d {
			return k
		}
	}
	panic(fmt.Sprintf("no gorgonia dtype for %v", d))
}

// RefDtype maps a gorgonia dtype to the reference dtype (ok=false for others, e.g. int).
func RefDtype(d tensor.Dtype) (ref.DType, bool) {
	v, ok := dtypeMap[d]
	return v, ok
}

func backing(t *ref.T) any {
	n := len(t.Bits)
	switch t.DT {
	case ref.F32:
		b := make([]float32, n)
		for i, v := range t.Bits {
			b[i] = math.Float32frombits(uint32(v))
		}
		return b
	case ref.F64:
		b := make([]float64, n)
		for i, v := range t.Bits {
			b[i] = math.Float64frombits(v)
		}
		return b
	case ref.I8:
		b := make([]int8, n)
		for i, v := range t.Bits {
			b[i] = int8(v)
		}
		return b
	case ref.I16:
		b := make([]int16, n)
		for i, v := range t.Bits {
			b[i] = int16(v)
		}
		return b
	case ref.I32:
		b := make([]int32, n)
		for i, v := range t.Bits {
			b[i] = int32(v)
		}
		return b
	case ref.I64:
		b := make([]int64, n)
		for i, v := range t.Bits {
			b[i] = int64(v)
		}
		return b
	case ref.U8:
		b := make([]uint8, n)
		for i, v := range t.Bits {
			b[i] = uint8(v)
		}
		return b
	case ref.U16:
		b := make([]uint16, n)
		for i, v := range t.Bits {
			b[i] = uint16(v)
		}
		return b
	case ref.U32:
		b := make([]uint32, n)
		for i, v := range t.Bits {
			b[i] = uint32(v)
		}
		return b
	case ref.U64:
		b := make([]uint64, n)
		copy(b, t.Bits)
		return b
	case ref.Bool:
		b := make([]bool, n)
		for i, v := range t.Bits {
			b[i] = v != 0
		}
		return b
	case ref.C64:
		b := make([]complex64, n)
		for i, v := range t.Bits {
			b[i] = complex(float32(v), 0)
		}
		return b
	case ref.C128:
		b := make([]complex128, n)
		for i, v := range t.Bits {
			b[i] = complex(float64(v), 0)
		}
		return b
	case ref.Str:
		b := make([]string, n)
		for i, v := range t.Bits {
			b[i] = fmt.Sprint(v)
		}
		return b
	}
	panic("backing: dtype")
}

// ToTensor builds a fresh gorgonia tensor from a reference value (nil -> nil).
// Rank-0 values become gorgonia scalars.
func ToTensor(t *ref.T) tensor.Tensor {
	if t == nil {
		return nil
	}
	b := backing(t)
	// gorgonia reads the address of the backing slice into a uintptr before it stores
	// the slice (storage.AsByteSlice): the backing must stay reachable from here until
	// the tensor exists (see the recorded finding GCFindingSignature).
	defer runtime.KeepAlive(b)
	if len(t.Shape) == 0 {
		return tensor.New(tensor.FromScalar(reflect.ValueOf(b).Index(0).Interface()))
	}
	return tensor.New(tensor.WithShape(t.Shape...), tensor.WithBacking(b))
}

// ToTensors converts a list.
//
// An operand that is the same *ref.T at several positions of the list becomes
// ONE tensor object passed at all of them (the caller built one tensor and uses
// it twice, e.g. as initial_h and initial_c).
func ToTensors(ts []*ref.T) []tensor.Tensor {
	out := make([]tensor.Tensor, len(ts))
	seen := map[*ref.T]tensor.Tensor{}
	for i, t := range ts {
		if t == nil {
			continue
		}
		if prev, ok := seen[t]; ok {
			out[i] = prev
			continue
		}
		out[i] = ToTensor(t)
		seen[t] = out[i]
	}
	return out
}

func encodeScalar(dt ref.DType, v any) (uint64, error) {
	switch x := v.(type) {
	case float32:
		return uint64(math.Float32bits(x)), nil
	case float64:
		return math.Float64bits(x), nil
	case int8:
		return uint64(int64(x)), nil
	case int16:
		return uint64(int64(x)), nil
	case int32:
		return uint64(int64(x)), nil
	case int64:
		return uint64(x), nil
	case uint8:
		return uint64(x), nil
	case uint16:
		return uint64(x), nil
	case uint32:
		return uint64(x), nil
	case uint64:
		return x, nil
	case bool:
		if x {
			return 1, nil
		}
		return 0, nil
	case complex64:
		return uint64(real(x)), nil
	case complex128:
		return uint64(real(x)), nil
	case string:
		if v, err := strconv.ParseUint(x, 10, 64); err == nil {
			return v, nil
		}
		h := fnv.New64a()
		h.Write([]byte(x))
		return h.Sum64(), nil
	}
	return 0, fmt.Errorf("unsupported element %T", v)
}

func encodeSlice(data any, out []uint64) error {
	switch b := data.(type) {
	case []float32:
		if len(b) != len(out) {
			return fmt.Errorf("backing length %d != %d", len(b), len(out))
		}
		for i, x := range b {
			out[i] = uint64(math.Float32bits(x))
		}
	case []float64:
		if len(b) != len(out) {
			return fmt.Errorf("backing length %d != %d", len(b), len(out))
		}
		for i, x := range b {
			out[i] = math.Float64bits(x)
		}
	default:
		rv := reflect.ValueOf(data)
		if rv.Kind() != reflect.Slice {
			return fmt.Errorf("backing is %T", data)
		}
		if rv.Len() != len(out) {
			return fmt.Errorf("backing length %d != %d", rv.Len(), len(out))
		}
		for i := range out {
			v, err := encodeScalar(0, rv.Index(i).Interface())
			if err != nil {
				return err
			}
			out[i] = v
		}
	}
	return nil
}

// FromTensor reads a gorgonia tensor into a reference value, element by
// element in logical (row-major coordinate) order, whatever the layout.
func FromTensor(t tensor.Tensor) (*ref.T, error) {
	if t == nil {
		return nil, nil
	}
	defer runtime.KeepAlive(t) // Data() holds the memory through a uintptr for a moment
	dt, ok := RefDtype(t.Dtype())
	if !ok {
		return nil, fmt.Errorf("unsupported dtype %v", t.Dtype())
	}
	shape := append([]int{}, t.Shape()...)
	for _, e := range shape {
		if e < 0 {
			return nil, fmt.Errorf("negative extent in shape %v", shape)
		}
	}
	out := ref.New(dt, shape...)
	if len(out.Bits) == 0 {
		return out, nil // zero-element tensor: nothing to read (gorgonia's Data() cannot be called on it)
	}
	data := t.Data()
	if reflect.ValueOf(data).Kind() != reflect.Slice {
		if len(out.Bits) != 1 {
			return nil, fmt.Errorf("scalar backing for shape %v", shape)
		}
		v, err := encodeScalar(dt, data)
		if err != nil {
			return nil, err
		}
		out.Bits[0] = v
		return out, nil
	}
	d, isDense := t.(*tensor.Dense)
	if isDense && !d.RequiresIterator() && !d.IsMaterializable() && !(d.DataOrder().IsColMajor() && len(shape) > 1) {
		if err := encodeSlice(data, out.Bits); err != nil {
			return nil, err
		}
		return out, nil
	}
	return fromTensorAt(t, out)
}

func fromTensorAt(t tensor.Tensor, out *ref.T) (*ref.T, error) {
	c := make([]int, len(out.Shape))
	for i := range out.Bits {
		ref.Unravel(i, out.Shape, c)
		v, err := t.At(c...)
		if err != nil {
			return nil, fmt.Errorf("At(%v): %w", c, err)
		}
		b, err := encodeScalar(out.DT, v)
		if err != nil {
			return nil, err
		}
		out.Bits[i] = b
	}
	return out, nil
}

// FromTensorAt always uses coordinate access (self-test cross-check of the fast path).
func FromTensorAt(t tensor.Tensor) (*ref.T, error) {
	dt, ok := RefDtype(t.Dtype())
	if !ok {
		return nil, fmt.Errorf("unsupported dtype %v", t.Dtype())
	}
	out := ref.New(dt, t.Shape()...)
	if len(out.Shape) == 0 {
		return FromTensor(t)
	}
	return fromTensorAt(t, out)
}

// Fingerprint is a deep snapshot of a tensor as seen through its public API.
type Fingerprint struct {
	Nil     bool
	DT      string
	Shape   []int
	Strides []int
	Hash    uint64 // logical elements (row-major by coordinate)
	RawHash uint64 // the backing as returned by Data()
	RawLen  int
	Err     string
}

// Fp computes the fingerprint of t.
func Fp(t tensor.Tensor) Fingerprint {
	if t == nil {
		return Fingerprint{Nil: true}
	}
	f := Fingerprint{DT: t.Dtype().String(), Shape: append([]int{}, t.Shape()...), Strides: append([]int{}, t.Strides()...)}
	defer func() {
		if r := recover(); r != nil {
			f.Err = fmt.Sprint("panic while fingerprinting: ", r)
		}
	}()
	v, err := FromTensor(t)
	if err != nil {
		f.Err = err.Error()
	} else {
		f.Hash = HashBits(v.Bits)
	}
	if ref.NumElems(f.Shape) == 0 {
		return f
	}
	data := t.Data()
	rv := reflect.ValueOf(data)
	if rv.Kind() == reflect.Slice {
		f.RawLen = rv.Len()
		raw := make([]uint64, rv.Len())
		if encodeSlice(data, raw) == nil {
			f.RawHash = HashBits(raw)
		}
	} else {
		f.RawLen = -1
		if b, err := encodeScalar(0, data); err == nil {
			f.RawHash = b
		}
	}
	return f
}

// HashBits hashes a bit-pattern slice (FNV-1a over the 8-byte words).
func HashBits(b []uint64) uint64 {
	h := uint64(14695981039346656037)
	for _, w := range b {
		for k := 0; k < 8; k++ {
			h ^= (w >> (8 * uint(k))) & 0xff
			h *= 1099511628211
		}
	}
	return h
}

// Equal compares two fingerprints; the string describes the first difference.
func (f Fingerprint) Equal(g Fingerprint) (bool, string) {
	switch {
	case f.Nil != g.Nil:
		return false, "nil-ness changed"
	case f.Nil:
		return true, ""
	case f.Err != g.Err:
		return false, fmt.Sprintf("readability changed: %q -> %q", f.Err, g.Err)
	case f.DT != g.DT:
		return false, fmt.Sprintf("dtype %s -> %s", f.DT, g.DT)
	case !ref.ShapeEq(f.Shape, g.Shape):
		return false, fmt.Sprintf("shape %v -> %v", f.Shape, g.Shape)
	case !ref.ShapeEq(f.Strides, g.Strides):
		return false, fmt.Sprintf("strides %v -> %v", f.Strides, g.Strides)
	case f.Hash != g.Hash:
		return false, "element values changed"
	case f.RawLen != g.RawLen || f.RawHash != g.RawHash:
		return false, "backing array changed"
	}
	return true, ""
}
