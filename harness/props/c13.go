package props

import (
	"fmt"
	"sort"
	"strings"

	"github.com/advancedclimatesystems/gonnx"
	"github.com/advancedclimatesystems/gonnx/onnx"
	"gorgonia.org/tensor"

	"verif/harness/gen"
	"verif/harness/mon"
	"verif/harness/ref"
)

// C13 — Run accepts exactly the input sets that satisfy the declared signature.

func init() {
	Register(&Property{
		ID:    "C13",
		Title: "Run accepts exactly the input sets that satisfy the declared signature",
		Cases: func(tier string) int {
			switch tier {
			case "thorough":
				return 3000000
			case "race":
				return 20000
			}
			return 200000
		},
		Run:            c13Run,
		Floor:          func(tier string) int { return 3000 },
		Rule:           "(signatures may have no required input at all and are then run with a nil map; 8% of the declarations leave elem_type out) (histories may contain a Run that conforms in shape but fails inside a node; defaults may be empty; InputDimSize must agree with InputShapes on every axis) (one case in sixteen: negative / huge dim_values - acceptance derived from what InputShapes reports, 'reported is enforced') signatures with 1..3 graph inputs of rank 1..4 whose dimensions are each fixed / symbolic / unspecified (symbolic non-leading axes included), some inputs shadowed by initializers, some declared but not consumed by any node; identity-like graphs (one Relu per consumed input) so that acceptance is observable as a correct value; supplied sets: a name omitted, permuted insertion order, extra names (also named like a pure initializer), a rank from 0..5, one axis resized to {declared-1, declared+1, 1, 7}, the tensor object of an earlier conforming Run reshaped in place by its owner; each supplied set is judged on a freshly loaded model, after one conforming Run, or after conforming Run + rejected empty set + conforming Run on the same Model (acceptance must not depend on earlier calls). Oracle (Appendix A.12): accepted iff every non-initializer input is present with the declared rank and matching fixed dimensions; on rejection Run returns an error and nil outputs, the operator proxy sees no apply event and no supplied tensor changes; on acceptance every output equals relu(input) and extra tensors change nothing; a supplied value for a shadowed input replaces the initializer. In a quarter of the cases the caller scribbles over the values returned by InputShapes()/InputNames() before the Run. Introspection: InputNames/ParamNames/InputShapes/InputDimSize agree with the declaration and with what Run enforces (dynamic <=> every probed size accepted). Non-trivial = the supplied set deviates from the declaration in exactly one respect or exercises a symbolic/unspecified dimension; distinct = (signature, deviation).",
		RaceInThorough: true,
		Technique:      "runtime monitoring: acceptance oracle from the declared signature, proxy trace check (no apply before/after a rejection), deep fingerprints of supplied tensors, introspection cross-check",
		Assumptions:    []string{"element types are not part of the checked signature (the statement speaks of rank and dimensions only)"},
	})
}

type sigInput struct {
	name     string
	dims     []mon.Dim
	shadowed bool
	initVal  *ref.T
	unused   bool // declared, but no node reads it
}

func c13Run(c *Ctx) {
	if c.Idx%16 == 11 {
		c13Reported(c)
		return
	}
	r := c.R
	nIn := r.Range(1, 3)
	var ins []sigInput
	g := &mon.Graph{}
	names := []string{"x", "input_1", "data"}
	anyRequired := false
	for i := 0; i < nIn; i++ {
		rank := r.Range(1, 4)
		in := sigInput{name: names[i], dims: make([]mon.Dim, rank)}
		concrete := make([]int, rank)
		for d := range in.dims {
			concrete[d] = r.Range(1, 5)
			switch r.Intn(4) {
			case 0:
				in.dims[d] = mon.Dim{Param: r.PickStr("N", "batch", "seq", "", "N", "batch", "7", "16", "+4", "007", "0", "-1", "1e3")}
				if in.dims[d].Param == "" && r.Bool() {
					in.dims[d] = mon.Dim{Unset: true} // (else: a dim_param that is present but empty)
				}
			case 1:
				in.dims[d] = mon.Dim{Unset: true}
			default:
				in.dims[d] = mon.Dim{Value: int64(concrete[d])}
			}
		}
		if r.Chance(0.25) && (anyRequired || i < nIn-1 || c.Idx%4 == 1) { // (one case in four: possibly no required input at all)
			in.shadowed = true
			in.initVal = r.Tensor(ref.F32, concrete, gen.FillSmall, 5)
			g.Inits = append(g.Inits, mon.GInit{Name: in.name, T: in.initVal, Raw: r.Bool()})
		} else {
			anyRequired = true
		}
		// (the signature is rank and extents: a declaration that leaves the element type out declares the same shape)
		g.Inputs = append(g.Inputs, mon.GInput{Name: in.name, DT: ref.F32, Dims: in.dims, NoElem: r.Chance(0.08)})
		if in.shadowed && r.Chance(0.25) {
			// a default without elements (extent 0 on an open axis) that no node reads: it is a
			// default like any other, the input stays optional
			for d := range in.dims {
				if in.dims[d].Value == 0 {
					empty := append([]int{}, concrete...)
					empty[d] = 0
					in.initVal = ref.New(ref.F32, empty...)
					g.Inits[len(g.Inits)-1].T = in.initVal
					in.unused = true
					break
				}
			}
		}
		if in.unused {
		} else if r.Chance(0.2) {
			in.unused = true // a declared input (shadowed or not) that no node consumes
		} else {
			g.Nodes = append(g.Nodes, mon.GNode{Op: "Relu", Inputs: []string{in.name}, Outputs: []string{"y" + fmt.Sprint(i)}})
			g.Outputs = append(g.Outputs, mon.GInput{Name: "y" + fmt.Sprint(i), NoType: true})
		}
		ins = append(ins, in)
	}
	// graph.value_info annotates values; an entry that happens to be named like an input (with
	// other extents) or like an intermediate declares nothing the caller has to satisfy
	if r.Chance(0.3) {
		for _, in := range ins {
			if r.Bool() {
				other := make([]mon.Dim, len(in.dims))
				for d := range other {
					other[d] = mon.Dim{Value: int64(r.Range(6, 9))}
				}
				if r.Chance(0.3) {
					other = append(other, mon.Dim{Value: 2})
				}
				g.ValueInfos = append(g.ValueInfos, mon.GInput{Name: in.name, DT: ref.F32, Dims: other})
			}
		}
		g.ValueInfos = append(g.ValueInfos, mon.GInput{Name: "y0", DT: ref.F32, Dims: []mon.Dim{{Value: 3}}})
	}
	// a pure initializer (not a graph input) consumed by one more node
	pure := r.Tensor(ref.F32, []int{2}, gen.FillSmall, 5)
	g.Inits = append(g.Inits, mon.GInit{Name: "w_pure", T: pure})
	g.Nodes = append(g.Nodes, mon.GNode{Op: "Relu", Inputs: []string{"w_pure"}, Outputs: []string{"yw"}})
	g.Outputs = append(g.Outputs, mon.GInput{Name: "yw", NoType: true})

	// the supplied set: start from a conforming one, then deviate in one respect
	feed := map[string]*ref.T{}
	shapes := map[string][]int{}
	for _, in := range ins {
		shape := make([]int, len(in.dims))
		for d, dim := range in.dims {
			if dim.Value > 0 {
				shape[d] = int(dim.Value)
			} else {
				shape[d] = r.Range(1, 6)
			}
		}
		shapes[in.name] = shape
		if !in.shadowed || r.Chance(0.4) {
			feed[in.name] = r.Tensor(ref.F32, shape, gen.FillSmall, 5)
		}
	}
	conforming := map[string]*ref.T{}
	for k, v := range feed {
		conforming[k] = v
	}
	deviation := "none"
	accept := true
	victim := ins[r.Intn(nIn)]
	inPlace := false // the deviating tensor is the object of an earlier conforming Run, reshaped in place
	switch r.Intn(11) {
	case 10: // two axes off at once, in opposite directions (or the extents in another order)
		if t, ok := feed[victim.name]; ok && len(victim.dims) >= 2 {
			shape := append([]int{}, t.Shape...)
			p := r.Perm(len(shape))
			i, j := p[0], p[1]
			if r.Bool() && shape[i] != shape[j] {
				shape[i], shape[j] = shape[j], shape[i]
			} else {
				k := r.Range(1, 2)
				shape[i] += k
				shape[j] -= k
				if shape[j] < 1 {
					shape[j] += 2 * k
					shape[i] -= 2 * k
				}
			}
			valid := true
			for _, e := range shape {
				if e < 1 {
					valid = false
				}
			}
			if valid && !ref.ShapeEq(shape, t.Shape) {
				feed[victim.name] = r.Tensor(ref.F32, shape, gen.FillSmall, 5)
				deviation = fmt.Sprintf("two axes of %s changed at once %v->%v", victim.name, t.Shape, shape)
				if !victim.shadowed {
					for d := range shape {
						if victim.dims[d].Value > 0 && int64(shape[d]) != victim.dims[d].Value {
							accept = false
						}
					}
				}
			}
		}
	case 9: // the SAME tensor object as in an earlier conforming Run, reshaped in place by its owner
		if t, ok := feed[victim.name]; ok && len(t.Bits) > 1 {
			var shape []int
			switch r.Intn(3) {
			case 0:
				shape = []int{len(t.Bits)}
			case 1:
				shape = append([]int{1}, t.Shape...)
			default:
				for i := len(t.Shape) - 1; i >= 0; i-- {
					shape = append(shape, t.Shape[i])
				}
			}
			if !ref.ShapeEq(shape, t.Shape) {
				nt := t.Clone()
				nt.Shape = shape
				feed[victim.name] = nt
				inPlace = true
				deviation = fmt.Sprintf("the tensor object of the earlier Run for %s reshaped in place %v->%v", victim.name, t.Shape, shape)
				if !victim.shadowed {
					conforms := len(shape) == len(victim.dims)
					for d := 0; conforms && d < len(shape); d++ {
						if victim.dims[d].Value > 0 && int64(shape[d]) != victim.dims[d].Value {
							conforms = false
						}
					}
					accept = conforms
				}
			}
		}
	case 0, 1: // conforming
	case 2: // omit a name
		if _, ok := feed[victim.name]; ok {
			delete(feed, victim.name)
			deviation = "omitted " + victim.name
			if !victim.shadowed {
				accept = false
			} else {
				deviation += " (shadowed)"
			}
		}
	case 3: // another rank
		if _, ok := feed[victim.name]; ok {
			newRank := r.Range(0, 5)
			if newRank != len(victim.dims) {
				shape := r.Shape(newRank, newRank, 4, 200)
				feed[victim.name] = r.Tensor(ref.F32, shape, gen.FillSmall, 5)
				deviation = fmt.Sprintf("rank %d for %s(rank %d)", newRank, victim.name, len(victim.dims))
				if !victim.shadowed {
					accept = false
				}
			}
		}
	case 4, 5: // resize one axis
		if t, ok := feed[victim.name]; ok {
			d := r.Intn(len(victim.dims))
			shape := append([]int{}, t.Shape...)
			old := shape[d]
			shape[d] = r.PickInt(old-1, old+1, 1, 7)
			if shape[d] < 1 {
				shape[d] = old + 2
			}
			if shape[d] != old {
				feed[victim.name] = r.Tensor(ref.F32, shape, gen.FillSmall, 5)
				kind := "fixed"
				if victim.dims[d].Value == 0 {
					kind = "dynamic"
				}
				deviation = fmt.Sprintf("axis %d of %s (%s) resized %d->%d", d, victim.name, kind, old, shape[d])
				if victim.dims[d].Value > 0 && !victim.shadowed {
					accept = false
				}
			}
		}
	case 6: // extra names
		feed["unrelated"] = r.Tensor(ref.F32, []int{3}, gen.FillSmall, 5)
		deviation = "extra tensor 'unrelated'"
		if r.Bool() {
			feed["w_pure"] = r.Tensor(ref.F32, []int{2}, gen.FillSmall, 5)
			deviation = "extra tensor named like the pure initializer"
		}
	case 7: // an output name supplied as input
		feed["y0"] = r.Tensor(ref.F32, []int{2}, gen.FillSmall, 5)
		deviation = "extra tensor named like an output"
	case 8: // empty set
		for k := range feed {
			delete(feed, k)
		}
		deviation = "empty input set"
		for _, in := range ins {
			if !in.shadowed {
				accept = false
			}
		}
	}
	// earlier calls on the same Model: what Run accepts must not depend on them
	history := r.Intn(4)
	if inPlace && (history == 0 || history == 3) {
		history = 1
	}
	sigStr := sigString(ins)
	c.SetCase("signature %s; supplied %s; deviation: %s; expect accept=%v; earlier calls on the model: %s", sigStr, feedString(feed), deviation, accept, []string{"none", "one conforming Run", "conforming Run, rejected empty set, conforming Run", "a Run with conforming shapes that fails inside a node (bool tensors)"}[history])
	c.Count(fmt.Sprintf("history:%d", history), 1)
	hasDyn := strings.Contains(sigStr, "?") || strings.Contains(sigStr, "N") || strings.Contains(sigStr, "batch") || strings.Contains(sigStr, "seq")
	if deviation != "none" || hasDyn {
		c.Nontrivial(sigStr + "|" + deviation)
	}
	c.Count(fmt.Sprintf("expect-accept:%v", accept), 1)

	// run with the proxy, keeping the supplied tensors for fingerprinting
	bytes := g.Bytes()
	var m *gonnx.Model
	var px *mon.Proxy
	supplied := gonnx.Tensors{}
	before := map[string]mon.Fingerprint{}
	var res gonnx.Tensors
	priorEvents := 0
	o := mon.Capture(nil, func() ([]tensor.Tensor, error) {
		var err error
		m, err = gonnx.NewModelFromBytes(bytes)
		if err != nil {
			return nil, fmt.Errorf("load: %w", err)
		}
		px = mon.Attach(m)
		held := map[string]tensor.Tensor{}
		prior := func(f map[string]*ref.T) error {
			in := gonnx.Tensors{}
			for k, v := range f {
				in[k] = mon.ToTensor(v)
				if inPlace && k == victim.name {
					if held[k] == nil {
						held[k] = in[k]
					}
					in[k] = held[k]
				}
			}
			_, err := m.Run(in)
			return err
		}
		if history == 3 {
			// shapes conform, so the signature check passes; Relu refuses bool, so the Run fails
			// inside a node - with every caller tensor already handed over
			in := gonnx.Tensors{}
			for k, v := range conforming {
				in[k] = mon.ToTensor(ref.New(ref.Bool, v.Shape...))
			}
			_, _ = m.Run(in) // (succeeds when no node reads a supplied input: fine too)
		}
		if history >= 1 && history <= 2 {
			if err := prior(conforming); err != nil {
				return nil, fmt.Errorf("earlier conforming Run: %w", err)
			}
		}
		if history == 2 {
			_ = prior(map[string]*ref.T{})
			if err := prior(conforming); err != nil {
				return nil, fmt.Errorf("earlier conforming Run after a rejected one: %w", err)
			}
		}
		if c.Idx%4 == 2 {
			// what the introspection methods return belongs to the caller: scribbling over it
			// must not change what Run enforces (nor what the next introspection call reports)
			sh := m.InputShapes()
			for k, dims := range sh {
				for i := range dims {
					dims[i].Size += 3
					dims[i].IsDynamic = !dims[i].IsDynamic
					dims[i].Name = "scribbled"
				}
				if len(k)%2 == 0 {
					delete(sh, k)
				}
			}
			names := m.InputNames()
			for i := range names {
				names[i] = "scribbled"
			}
			outNames := m.OutputNames()
			for i := range outNames {
				outNames[i] = "scribbled"
			}
			paramNames := m.ParamNames()
			for i := range paramNames {
				paramNames[i] = "scribbled"
			}
		}
		priorEvents = len(px.Events())
		for k, v := range feed {
			supplied[k] = mon.ToTensor(v)
			if t := held[k]; inPlace && k == victim.name && t != nil {
				if err := t.Reshape(v.Shape...); err == nil {
					supplied[k] = t
				}
			}
			before[k] = mon.Fp(supplied[k])
		}
		if len(supplied) == 0 && c.Idx%8 < 4 { // no input to supply: the caller may as well pass no map at all
			supplied = nil
			c.Count("runs-with-a-nil-input-map", 1)
		}
		res, err = m.Run(supplied)
		return nil, err
	})
	c.Eval(1)
	if o.Kind == mon.Panic {
		c.Violation("signature:panic", "%s", o.Describe())
		return
	}
	if m == nil {
		c.Violation("signature:model-does-not-load", "%v", o.Err)
		return
	}
	applies := 0
	for _, e := range px.Events()[minInt(priorEvents, len(px.Events())):] {
		if e.Phase == "apply" {
			applies++
		}
	}
	for k, t := range supplied {
		if ok, what := before[k].Equal(mon.Fp(t)); !ok {
			c.Violation("signature:supplied-tensor-modified", "tensor %q changed during Run: %s", k, what)
		}
	}
	switch {
	case !accept && o.Kind != mon.Error:
		c.Violation("signature:accepted-nonconforming-set", "Run accepted a set that violates the declaration (%s; earlier calls on the model: %d)", deviation, history)
	case !accept:
		if res != nil {
			c.Violation("signature:outputs-with-error", "Run returned outputs together with an error")
		}
		if applies > 0 {
			c.Violation("signature:computed-before-rejecting", "%d apply events before the rejection", applies)
		}
	case accept && o.Kind == mon.Error:
		c.Violation("signature:rejected-conforming-set", "Run rejected a conforming set (%s; earlier calls: %d): %v", deviation, history, o.Err)
	default:
		// outputs must be relu of what was supplied (or of the initializer default)
		for i, in := range ins {
			if in.unused {
				continue
			}
			src, ok := feed[in.name]
			if !ok {
				src = in.initVal
			}
			want, _ := ref.Unary("Relu", src)
			got, err := mon.FromTensor(res["y"+fmt.Sprint(i)])
			if err != nil || got == nil {
				c.Violation("signature:output-missing", "output y%d: %v", i, err)
				continue
			}
			if k, d := CompareValue(got, want, CmpIEEE); k != "" {
				c.Violation("signature:wrong-output:"+k, "output y%d (input %s, supplied=%v): %s", i, in.name, ok, d)
			}
		}
		wantW, _ := ref.Unary("Relu", pure)
		if got, err := mon.FromTensor(res["yw"]); err != nil || got == nil {
			c.Violation("signature:output-missing", "output yw: %v", err)
		} else if k, d := CompareValue(got, wantW, CmpIEEE); k != "" {
			c.Violation("signature:extra-tensor-changed-an-output", "output of the pure initializer: %s (%s)", d, deviation)
		}
		if len(res) != len(g.Outputs) {
			c.Violation("signature:wrong-output-count", "%d outputs for %d declared", len(res), len(g.Outputs))
		}
	}
	// introspection
	c13Introspect(c, m, ins)
	if c.Idx%4000 == 37 {
		c.Sample(map[string]any{"signature": sigStr, "supplied": feedString(feed), "deviation": deviation, "expected_accept": accept, "observed_error": fmt.Sprint(o.Err)})
	}
}

// c13Reported: "the shapes reported by the model's introspection methods are the ones
// Run enforces", on declarations whose reading is the library's to choose (a negative
// dim_value, a dim_value next to nothing else, huge values): whatever InputShapes reports
// for an axis - dynamic, or fixed with some size - is what Run must enforce, and
// InputDimSize must report the same sizes.
func c13Reported(c *Ctx) {
	r := c.R
	rank := r.Range(1, 4)
	dims := make([]mon.Dim, rank)
	shape := make([]int, rank)
	odd := false
	for d := range dims {
		shape[d] = r.Range(1, 5)
		switch r.Intn(6) {
		case 0:
			dims[d] = mon.Dim{Value: int64(r.PickInt(-1, -1, -2, -7, -shape[d]))}
			odd = true
		case 1:
			dims[d] = mon.Dim{Param: r.PickStr("N", "batch", "-1", "0")}
		case 2:
			dims[d] = mon.Dim{Unset: true}
		case 3:
			dims[d] = mon.Dim{Value: int64(shape[d]) + int64(r.PickInt(1<<32, 1<<31, 256))}
			odd = true
		default:
			dims[d] = mon.Dim{Value: int64(shape[d])}
		}
	}
	if r.Chance(0.3) { // the supplied tensor deviates at one axis
		shape[r.Intn(rank)] += r.Range(1, 2)
	}
	g := &mon.Graph{Inputs: []mon.GInput{{Name: "x", DT: ref.F32, Dims: dims}},
		Nodes:   []mon.GNode{{Op: "Relu", Inputs: []string{"x"}, Outputs: []string{"y"}}},
		Outputs: []mon.GInput{{Name: "y", NoType: true}}}
	x := r.Tensor(ref.F32, shape, gen.FillSmall, 5)
	sig := sigString([]sigInput{{name: "x", dims: dims}})
	c.SetCase("reported-is-enforced: signature %s; supplied %v", sig, shape)
	if odd {
		c.Nontrivial("reported|" + sig + fmt.Sprint(shape))
	}
	c.Count("reported-is-enforced-cases", 1)
	var m, older *gonnx.Model
	var reported, olderReported onnxShape
	var olderErr error
	var res gonnx.Tensors
	o := mon.Capture(nil, func() ([]tensor.Tensor, error) {
		var err error
		if c.Idx%32 == 27 {
			// the owner of a ModelProto object made a model from it, ran it, edited the input
			// declaration in place and makes a new model from the same object: that model reports
			// and enforces what the object declares NOW
			other := make([]mon.Dim, rank)
			for d := range other {
				other[d] = mon.Dim{Value: int64(shape[d] + 1 + d)}
			}
			g0 := *g
			g0.Inputs = []mon.GInput{{Name: "x", DT: ref.F32, Dims: other}}
			mp := g0.Proto()
			if m0, err0 := gonnx.NewModel(mp); err0 == nil {
				older = m0
				first := make([]int, rank)
				for d := range first {
					first[d] = shape[d] + 1 + d
				}
				_, _ = m0.Run(gonnx.Tensors{"x": mon.ToTensor(ref.New(ref.F32, first...))})
				_ = m0.InputShapes()
			}
			mp.Graph.Input[0] = mon.ValueInfo(g.Inputs[0])
			c.Count("reported-is-enforced-after-an-in-place-edit-of-the-declaration", 1)
			if m, err = gonnx.NewModel(mp); err != nil {
				return nil, fmt.Errorf("load: %w", err)
			}
		} else if m, err = gonnx.NewModelFromBytes(g.Bytes()); err != nil {
			return nil, fmt.Errorf("load: %w", err)
		}
		reported = m.InputShapes()["x"]
		if older != nil {
			// the model made BEFORE the edit: whatever it reports now is what it enforces now
			olderReported = older.InputShapes()["x"]
			_, olderErr = older.Run(gonnx.Tensors{"x": mon.ToTensor(x)})
		}
		res, err = m.Run(gonnx.Tensors{"x": mon.ToTensor(x)})
		return nil, err
	})
	c.Eval(1)
	if o.Kind == mon.Panic {
		c.Violation("signature:panic", "%s", o.Describe())
		return
	}
	if m == nil {
		return // a declaration the library refuses to load is not this property's subject
	}
	if len(reported) != rank {
		c.Violation("introspection:InputShapes-rank", "x: %d dims reported, %d declared", len(reported), rank)
		return
	}
	accept := true
	for d := range reported {
		if !reported[d].IsDynamic && reported[d].Size != int64(shape[d]) {
			accept = false
		}
		if n, err := m.InputDimSize("x", d); err != nil || (!reported[d].IsDynamic && int64(n) != reported[d].Size) {
			c.Violation("introspection:InputDimSize", "x axis %d: InputDimSize %d, %v; InputShapes reports size %d dynamic=%v", d, n, err, reported[d].Size, reported[d].IsDynamic)
		}
		if dims[d].Value > 0 && (reported[d].IsDynamic || reported[d].Size != dims[d].Value) {
			c.Violation("introspection:Size", "x axis %d: reported size %d dynamic=%v, declared %d", d, reported[d].Size, reported[d].IsDynamic, dims[d].Value)
		}
		if dims[d].Value == 0 && !reported[d].IsDynamic {
			c.Violation("introspection:IsDynamic", "x axis %d: reported as fixed (size %d), declared without a value", d, reported[d].Size)
		}
	}
	if older != nil && len(olderReported) == rank {
		olderAccept := true
		for d := range olderReported {
			if !olderReported[d].IsDynamic && olderReported[d].Size != int64(shape[d]) {
				olderAccept = false
			}
		}
		if olderAccept != (olderErr == nil) {
			c.Violation("signature:reported-is-not-enforced", "the model made before the declaration was edited in place reports %v, and its Run of shape %v gives error %v", describeDims(olderReported), shape, olderErr)
		}
	}
	switch {
	case accept && o.Kind == mon.Error:
		c.Violation("signature:rejected-conforming-set", "Run rejected shape %v although InputShapes reports %v: %v", shape, describeDims(reported), o.Err)
	case !accept && o.Kind != mon.Error:
		c.Violation("signature:accepted-nonconforming-set", "Run accepted shape %v although InputShapes reports %v", shape, describeDims(reported))
	case !accept && res != nil:
		c.Violation("signature:outputs-with-error", "Run returned outputs together with an error")
	}
}

type onnxShape = onnx.Shape

func describeDims(s onnxShape) string {
	var parts []string
	for _, d := range s {
		if d.IsDynamic {
			parts = append(parts, "dynamic")
		} else {
			parts = append(parts, fmt.Sprint(d.Size))
		}
	}
	return "[" + strings.Join(parts, " ") + "]"
}

func c13Introspect(c *Ctx, m *gonnx.Model, ins []sigInput) {
	names := m.InputNames()
	if len(names) != len(ins) {
		c.Violation("introspection:InputNames", "%v for %d declared inputs", names, len(ins))
		return
	}
	shapes := m.InputShapes()
	for i, in := range ins {
		if names[i] != in.name {
			c.Violation("introspection:InputNames", "position %d is %q, declared %q", i, names[i], in.name)
		}
		sh := shapes[in.name]
		if len(sh) != len(in.dims) {
			c.Violation("introspection:InputShapes-rank", "%s: %d dims reported, %d declared", in.name, len(sh), len(in.dims))
			continue
		}
		for d, dim := range in.dims {
			if sh[d].IsDynamic != (dim.Value == 0) {
				c.Violation("introspection:IsDynamic", "%s axis %d: IsDynamic=%v, declared value %d", in.name, d, sh[d].IsDynamic, dim.Value)
			}
			if dim.Value > 0 && sh[d].Size != dim.Value {
				c.Violation("introspection:Size", "%s axis %d: size %d, declared %d", in.name, d, sh[d].Size, dim.Value)
			}
			if n, err := m.InputDimSize(in.name, d); err != nil || (dim.Value > 0 && int64(n) != dim.Value) {
				c.Violation("introspection:InputDimSize", "%s axis %d: %d, %v (declared %d)", in.name, d, n, err, dim.Value)
			} else if int64(n) != sh[d].Size {
				// the two introspection methods describe the same signature (also for inputs that have a default)
				c.Violation("introspection:InputDimSize", "%s axis %d: InputDimSize reports %d, InputShapes reports size %d (dynamic %v)", in.name, d, n, sh[d].Size, sh[d].IsDynamic)
			}
			if sh[d].Name != dim.Param {
				c.Violation("introspection:dim-name", "%s axis %d: name %q, declared %q", in.name, d, sh[d].Name, dim.Param)
			}
		}
		if _, err := m.InputDimSize(in.name, len(in.dims)); err == nil {
			c.Violation("introspection:InputDimSize-out-of-range", "%s axis %d reported without error", in.name, len(in.dims))
		}
	}
	if _, err := m.InputDimSize("no_such_input", 0); err == nil {
		c.Violation("introspection:InputDimSize-unknown-input", "no error for an unknown input")
	}
	params := m.ParamNames()
	want := []string{}
	for _, in := range ins {
		if in.shadowed {
			want = append(want, in.name)
		}
	}
	want = append(want, "w_pure")
	if strings.Join(params, ",") != strings.Join(want, ",") {
		c.Violation("introspection:ParamNames", "%v, declared %v", params, want)
	}
	c.Eval(1)
}

func sigString(ins []sigInput) string {
	var parts []string
	for _, in := range ins {
		s := in.name
		if in.shadowed {
			s += "(init)"
		}
		if in.unused {
			s += "(unused)"
		}
		s += "["
		for d, dim := range in.dims {
			if d > 0 {
				s += ","
			}
			switch {
			case dim.Value > 0:
				s += fmt.Sprint(dim.Value)
			case dim.Unset:
				s += "?"
			default:
				s += dim.Param
			}
		}
		parts = append(parts, s+"]")
	}
	return strings.Join(parts, " ")
}

func feedString(feed map[string]*ref.T) string {
	var parts []string
	for k, v := range feed {
		parts = append(parts, fmt.Sprintf("%s%v", k, v.Shape))
	}
	sort.Strings(parts)
	return "{" + strings.Join(parts, " ") + "}"
}
