package props

import (
	"fmt"
	"math"

	"verif/harness/gen"
	"verif/harness/mon"
	"verif/harness/ref"
)

// C09 — ArgMax, ReduceMax/Min, Softmax, LogSoftmax.

func init() {
	Register(&Property{
		ID:    "C09",
		Title: "ArgMax, ReduceMax/Min, Softmax, LogSoftmax act on exactly the requested axes",
		Cases: func(tier string) int {
			switch tier {
			case "thorough":
				return 6000000
			case "race":
				return 40000
			}
			return 900000
		},
		Run:            c09Run,
		Floor:          func(tier string) int { return 5000 },
		Rule:           "(ArgMax inputs also hold +Inf and the largest finite values) (an axes attribute that is present and empty counts as not given) ArgMax (ranks 1..4, every axis in both spellings and the default, keepdims 0/1/absent, forced ties at first/last positions, NaNs only judged for 'index in range'), ReduceMax/ReduceMin (every axes subset in both spellings, absent axes with and without keepdims, no attributes at all, all accepted element types), Softmax/LogSoftmax (every axis, default axis, magnitudes from 1e-30 to half the float maximum incl. rows that overflow exp and all-large-negative rows); invalid axes must be refused. ArgMax/Reduce exact; softmax family within the float64 max-subtracted reference tolerance plus the structural assertions (non-negative, slice sums within K*8u of 1, exp(LogSoftmax) sums to 1, finite for finite inputs). All valid requests MUST_EQUAL. Non-trivial = rank >= 2 or ties or large magnitudes or invalid; distinct = (operator, dtype, shape, attributes, value hash)." + ruleShared + ruleReused,
		RaceInThorough: true,
		Technique:      "runtime monitoring: differential execution against the reference reductions (exact) and a float64 max-subtracted softmax with a sound tolerance, plus online structural assertions",
		Assumptions:    []string{"NaN ordering in ArgMax is unspecified: with NaNs only the index range is asserted", "softmax inputs are kept within half the float range so that differences are representable"},
	})
	validGens["ArgMax"] = func(r *gen.R, nd bool) (mon.OpReq, Expect, bool) { return genArgMax(r, true) }
	validGens["ReduceMax"] = func(r *gen.R, nd bool) (mon.OpReq, Expect, bool) { return genReduce(r, "ReduceMax", true) }
	validGens["ReduceMin"] = func(r *gen.R, nd bool) (mon.OpReq, Expect, bool) { return genReduce(r, "ReduceMin", true) }
	validGens["Softmax"] = func(r *gen.R, nd bool) (mon.OpReq, Expect, bool) { return genSoftmax(r, "Softmax", true) }
	validGens["LogSoftmax"] = func(r *gen.R, nd bool) (mon.OpReq, Expect, bool) { return genSoftmax(r, "LogSoftmax", true) }
}

// tiePool draws values from a tiny pool so that ties are frequent.
func tieTensor(r *gen.R, dt ref.DType, shape []int) *ref.T {
	t := ref.New(dt, shape...)
	pool := []float64{-3, -1, 0, 2, 2, 5, 5, 7}
	k := r.Range(2, len(pool))
	for i := range t.Bits {
		v := pool[r.Intn(k)]
		if dt.IsUnsigned() && v < 0 {
			v = -v
		}
		t.Bits[i] = ref.EncF(dt, v)
	}
	if (dt == ref.I64 || dt == ref.U64) && r.Chance(0.25) {
		// 64-bit values beyond 2^53 that differ only in their low bits (distinct as integers,
		// equal after a conversion to float64)
		base := []uint64{1 << 60, 1<<63 - 8, 1<<53 + 1, 1 << 62}[r.Intn(4)]
		for i := range t.Bits {
			t.Bits[i] = base + uint64(r.Intn(5))
			if dt == ref.I64 && r.Chance(0.2) {
				t.Bits[i] = uint64(-int64(t.Bits[i]))
			}
		}
	}
	return t
}

func genArgMax(r *gen.R, validOnly bool) (mon.OpReq, Expect, bool) {
	dt := r.PickDT(ref.F32, ref.F64, ref.I32, ref.I64, ref.U32, ref.U64)
	shape := r.Shape(1, 4, 5, 120)
	var x *ref.T
	if r.Chance(0.6) {
		x = tieTensor(r, dt, shape)
	} else {
		x = r.Tensor(dt, shape, gen.FillSmall, 50)
	}
	if dt.IsFloat() && r.Chance(0.2) { // infinities and the extreme finite values are ordered like any others
		big := math.MaxFloat32
		if dt == ref.F64 {
			big = math.MaxFloat64
		}
		for i := range x.Bits {
			if r.Chance(0.3) {
				x.Bits[i] = ref.EncF(dt, r.PickFloat(math.Inf(1), math.Inf(-1), big, -big, 0, big, math.Inf(1)))
			}
		}
	}
	if presetOperand != nil {
		x, shape, dt = presetOperand, presetOperand.Shape, presetOperand.DT
	}
	withNaN := false
	if dt.IsFloat() && !validOnly && r.Chance(0.1) {
		x.Bits[r.Intn(len(x.Bits))] = ref.EncF(dt, math.NaN())
		withNaN = true
	}
	rank := len(shape)
	axis := r.Range(-rank, rank-1)
	req := mon.OpReq{Op: "ArgMax", Inputs: []*ref.T{x}}
	axisGiven := r.Chance(0.85)
	if !axisGiven {
		axis = 0
	}
	if !validOnly && r.Chance(0.1) {
		axis = r.PickInt(rank, rank+1, -rank-1, -rank-3)
		if r.Chance(0.15) {
			axis = int(extremeAxis(r))
		}
		axisGiven = true
	}
	if axisGiven {
		req.Attrs = append(req.Attrs, mon.AttrI("axis", int64(axis)))
	}
	keep := true
	switch r.Intn(3) {
	case 0:
		keep = false
		req.Attrs = append(req.Attrs, mon.AttrI("keepdims", 0))
	case 1:
		req.Attrs = append(req.Attrs, mon.AttrI("keepdims", 1))
	}
	if r.Chance(0.2) {
		req.Attrs = append(req.Attrs, mon.AttrI("select_last_index", 0))
	}
	want, err := ref.ArgMax(x, axis, keep)
	if err != nil {
		return req, Expect{Kind: MustError, Why: err.Error()}, true
	}
	if withNaN {
		// only "an index in range" is asserted: expressed as MAY_REFUSE-free structural check by the caller
		return req, Expect{Kind: MustEqual, Want: []*ref.Approx{nil}, Why: "NaN present: index range only"}, true
	}
	return req, Expect{Kind: MustEqual, Want: Exact(want), Mode: CmpBits, Why: "valid request"}, true
}

func genReduce(r *gen.R, op string, validOnly bool) (mon.OpReq, Expect, bool) {
	dt := r.PickDT(ref.F32, ref.F64, ref.I32, ref.I64, ref.U32, ref.U64, ref.U8, ref.I8)
	shape := r.Shape(1, 4, 5, 120)
	var x *ref.T
	if r.Chance(0.4) {
		x = tieTensor(r, dt, shape)
	} else {
		x = r.Tensor(dt, shape, gen.FillSmall, 100)
		if dt.IsFloat() && r.Chance(0.3) { // infinities and extremes are ordered too
			for i := range x.Bits {
				if r.Chance(0.2) {
					x.Bits[i] = ref.EncF(dt, r.PickFloat(math.Inf(1), math.Inf(-1), math.MaxFloat32, -math.MaxFloat32, 0))
				}
			}
		}
	}
	if presetOperand != nil {
		x, shape = presetOperand, presetOperand.Shape
	}
	rank := len(shape)
	req := mon.OpReq{Op: op, Inputs: []*ref.T{x}}
	var axes []int64
	repeated := false
	axesGiven := r.Chance(0.75)
	if axesGiven {
		for _, a := range r.Perm(rank) {
			if r.Chance(0.5) || len(axes) == 0 {
				axes = append(axes, spell(r, a, rank))
			}
		}
		if !validOnly && r.Chance(0.1) {
			axes = append(axes, int64(r.PickInt(rank, rank+1, -rank-1, -rank-2)))
			if r.Chance(0.15) {
				axes[len(axes)-1] = extremeAxis(r)
			}
		}
		if !validOnly && len(axes) > 0 && r.Chance(0.06) {
			a := axes[r.Intn(len(axes))]
			if a < 0 {
				a += int64(rank)
			} else {
				a -= int64(rank)
			}
			if r.Chance(0.3) {
				a = axes[0]
			}
			axes = append(axes, a)
			repeated = true
		}
		req.Attrs = append(req.Attrs, mon.AttrInts("axes", axes))
	} else if r.Chance(0.3) {
		// an axes attribute that is present and lists no axis (what decoding a model whose
		// exporter wrote axes=[] yields): none are given, all are reduced
		empty := mon.AttrInts("axes", nil)
		if r.Bool() {
			empty.Ints = nil
		}
		req.Attrs = append(req.Attrs, empty)
	}
	keep := true
	switch r.Intn(3) {
	case 0:
		keep = false
		req.Attrs = append(req.Attrs, mon.AttrI("keepdims", 0))
	case 1:
		req.Attrs = append(req.Attrs, mon.AttrI("keepdims", 1))
	}
	var ax []int64
	if axesGiven {
		ax = axes
	}
	if repeated { // the reference treats the list as a set
		seen := map[int64]bool{}
		var set []int64
		inRange := true
		for _, a := range ax {
			if a < int64(-rank) || a >= int64(rank) {
				inRange = false
			}
			n := a
			if n < 0 {
				n += int64(rank)
			}
			if !seen[n] {
				seen[n] = true
				set = append(set, a)
			}
		}
		if inRange {
			want, err := ref.ReduceMaxMin(x, set, keep, op == "ReduceMax")
			if err == nil {
				return req, Expect{Kind: MayRefuse, Want: Exact(want), Mode: CmpIEEE, Why: "an axis is named twice: refused, or reduced as a set"}, true
			}
		}
	}
	want, err := ref.ReduceMaxMin(x, ax, keep, op == "ReduceMax")
	if err != nil {
		return req, Expect{Kind: MustError, Why: err.Error()}, true
	}
	return req, Expect{Kind: MustEqual, Want: Exact(want), Mode: CmpIEEE, Why: "valid request"}, true
}

func genSoftmax(r *gen.R, op string, validOnly bool) (mon.OpReq, Expect, bool) {
	dt := r.PickDT(ref.F32, ref.F32, ref.F64)
	shape := r.Shape(1, 4, 6, 120)
	x := ref.New(dt, shape...)
	maxMag := math.MaxFloat32 / 2.2
	if dt == ref.F64 {
		maxMag = math.MaxFloat64 / 2.2
	}
	mode := r.Intn(7)
	if validOnly {
		mode = 0
	}
	sign := float64(1 - 2*r.Intn(2))
	for i := range x.Bits {
		var v float64
		switch mode {
		case 0: // ordinary logits
			v = r.Uniform(-8, 8)
		case 1: // large positive: exp overflows
			v = r.Uniform(80, 1000)
			if dt == ref.F64 {
				v = r.Uniform(700, 5000)
			}
		case 2: // all large negative
			v = -r.Uniform(90, 2000)
			if dt == ref.F64 {
				v = -r.Uniform(750, 5000)
			}
		case 3: // whole range, log-uniform magnitudes
			v = math.Exp(r.Uniform(math.Log(1e-30), math.Log(maxMag))) * float64(1-2*r.Intn(2))
		case 4: // mixed: one dominant entry
			v = r.Uniform(-5, 5)
			if r.Chance(0.15) {
				v = r.PickFloat(1e4, -1e4, 3e38/2.5, -3e38/2.5, 100, -100)
			}
		case 6: // values of one sign in the upper half of the float range (their differences stay finite)
			v = sign * r.Uniform(0.55, 0.99) * maxMag * 2.2
		default: // tiny values
			v = r.Uniform(-1, 1) * 1e-30
		}
		if mode != 6 && math.Abs(v) > maxMag {
			v = math.Copysign(maxMag, v)
		}
		x.Bits[i] = ref.EncF(dt, v)
	}
	if presetOperand != nil {
		x, shape = presetOperand, presetOperand.Shape
	}
	rank := len(shape)
	axis := r.Range(-rank, rank-1)
	req := mon.OpReq{Op: op, Inputs: []*ref.T{x}}
	given := r.Chance(0.85)
	if !given {
		axis = -1
	}
	if !validOnly && r.Chance(0.08) {
		axis = r.PickInt(rank, rank+2, -rank-1, -rank-2)
		if r.Chance(0.15) {
			axis = int(extremeAxis(r))
		}
		given = true
	}
	if given {
		req.Attrs = []*mon.Attr{mon.AttrI("axis", int64(axis))}
	}
	want, err := ref.Softmax(x, axis, op == "LogSoftmax")
	if err != nil {
		return req, Expect{Kind: MustError, Why: err.Error()}, true
	}
	return req, Expect{Kind: MustEqual, Want: []*ref.Approx{want}, Mode: CmpTol, Why: fmt.Sprintf("valid request (value mode %d)", mode)}, true
}

func c09Run(c *Ctx) {
	if c.Idx%16 == 9 {
		c09Shared(c)
		return
	}
	var req mon.OpReq
	var exp Expect
	switch c.R.Intn(10) {
	case 0, 1, 2:
		req, exp, _ = genArgMax(c.R, false)
	case 3, 4:
		req, exp, _ = genReduce(c.R, "ReduceMax", false)
	case 5, 6:
		req, exp, _ = genReduce(c.R, "ReduceMin", false)
	case 7, 8:
		req, exp, _ = genSoftmax(c.R, "Softmax", false)
	default:
		req, exp, _ = genSoftmax(c.R, "LogSoftmax", false)
	}
	c.SetCase("%s", req.Describe())
	x := req.Inputs[0]
	c.Nontrivial(fmt.Sprintf("%s|%v|%v|%v|%x", req.Op, x.DT, x.Shape, attrsString(req), mon.HashBits(x.Bits)))
	c.Distinct("operator-dtype", req.Op+"/"+x.DT.String())
	c.Count("class:"+req.Op+"/"+exp.Kind.String(), 1)
	mo := mon.ModelOpts{InitMask: uint64(c.R.Intn(2)), RawInits: c.R.Bool()}
	viaModel := c.Idx%4 == 0
	ok := CheckOp(c, req, exp, viaModel, mo, c09Known)
	// structural assertions on the observed value (operator API path)
	if ok && exp.Kind == MustEqual {
		o, _ := mon.RunOpAPI(req)
		if o.Kind == mon.Value && len(o.Vals) == 1 && o.Vals[0] != nil {
			c09Structural(c, req, o.Vals[0])
		}
	}
	if c.Idx%8000 == 17 {
		s := map[string]any{"request": trunc(req.Describe(), 300), "expectation": exp.Kind.String(), "why": exp.Why}
		if len(exp.Want) > 0 && exp.Want[0] != nil {
			s["expected"] = trunc(exp.Want[0].T.String(), 200)
		}
		c.Sample(s)
	}
}

func attrsString(req mon.OpReq) string {
	s := ""
	for _, a := range req.Attrs {
		s += mon.AttrString(a) + " "
	}
	return s
}

func attrInt(req mon.OpReq, name string, def int64) int64 {
	for _, a := range req.Attrs {
		if a.Name == name {
			return a.I
		}
	}
	return def
}

func maxAbs(t *ref.T) float64 {
	m := 0.0
	for i := range t.Bits {
		if v := math.Abs(t.F(i)); v > m && !math.IsInf(v, 0) {
			m = v
		}
	}
	return m
}

func c09Structural(c *Ctx, req mon.OpReq, got *ref.T) {
	x := req.Inputs[0]
	switch req.Op {
	case "ArgMax":
		axis, ok := ref.NormAxis(int(attrInt(req, "axis", 0)), x.Rank())
		if !ok {
			return
		}
		if got.DT != ref.I64 {
			c.Violation("ArgMax:wrong-dtype", "ArgMax returned %v, not int64", got.DT)
		}
		for i := range got.Bits {
			if v := got.I(i); v < 0 || v >= int64(x.Shape[axis]) {
				c.Violation("ArgMax:index-out-of-range", "index %d for extent %d | %s", v, x.Shape[axis], trunc(req.Describe(), 300))
				break
			}
		}
		keep := attrInt(req, "keepdims", 1) != 0
		wantRank := x.Rank() - 1
		if keep {
			wantRank = x.Rank()
		}
		if got.Rank() != wantRank {
			c.Violation("ArgMax:wrong-shape", "rank %d with keepdims=%v for input rank %d | %s", got.Rank(), keep, x.Rank(), trunc(req.Describe(), 300))
		}
	case "Softmax", "LogSoftmax":
		axis, ok := ref.NormAxis(int(attrInt(req, "axis", -1)), x.Rank())
		if !ok || !ref.ShapeEq(got.Shape, x.Shape) {
			return
		}
		if req.Op == "Softmax" {
			// "LogSoftmax equals its logarithm" - also for tiny probabilities, where an absolute
			// tolerance says nothing: wherever Softmax is a normal number, its logarithm is what
			// LogSoftmax returns for the same input and axis
			twin := req
			twin.Op = "LogSoftmax"
			if ol, _ := mon.RunOpAPI(twin); ol.Kind == mon.Value && len(ol.Vals) == 1 && ol.Vals[0] != nil && len(ol.Vals[0].Bits) == len(got.Bits) {
				c.Eval(1)
				rel, tiny := 2e-5, 1.2e-38
				if x.DT == ref.F64 {
					rel, tiny = 1e-11, 2.3e-308
				}
				for i := range got.Bits {
					sft, lg := got.F(i), ol.Vals[0].F(i)
					if sft < tiny || lg != lg || math.IsInf(lg, 0) {
						continue
					}
					if d := math.Abs(math.Log(sft) - lg); d > rel*(1+math.Abs(lg))+rel*math.Abs(maxAbs(x)) {
						c.Violation("Softmax:not-the-exponential-of-LogSoftmax", "element %d: Softmax %v (logarithm %v), LogSoftmax %v | %s", i, sft, math.Log(sft), lg, trunc(req.Describe(), 300))
						break
					}
				}
			}
		}
		k := x.Shape[axis]
		u := 0x1p-24
		if x.DT == ref.F64 {
			u = 0x1p-53
		}
		inner := ref.NumElems(x.Shape[axis+1:])
		outer := ref.NumElems(x.Shape[:axis])
		if req.Op == "Softmax" {
			// a bound relative to each probability (the general tolerance is absolute and grows with
			// the magnitude of the inputs): p_i = exp(x_i - max) / sum, where the argument is formed
			// with one rounding and the exponentials and the sum with a few more
			slack := 2.4e-38 // below the smallest normal number results may be flushed or lose digits
			if x.DT == ref.F64 {
				slack = 4.5e-308
			}
			finite := true
			for i := range x.Bits {
				if v := x.F(i); v != v || math.IsInf(v, 0) {
					finite = false
				}
			}
			for o := 0; finite && o < outer; o++ {
				for in := 0; in < inner; in++ {
					mx := math.Inf(-1)
					for j := 0; j < k; j++ {
						mx = math.Max(mx, x.F((o*k+j)*inner+in))
					}
					sum := 0.0
					for j := 0; j < k; j++ {
						sum += math.Exp(x.F((o*k+j)*inner+in) - mx)
					}
					for j := 0; j < k; j++ {
						d := x.F((o*k+j)*inner+in) - mx
						p := math.Exp(d) / sum
						g := got.F((o*k+j)*inner + in)
						if math.Abs(g-p) > p*(4*u*math.Abs(d)+float64(k+16)*16*u)+slack {
							c.Violation("Softmax:wrong-value", "element %d of the slice: %v, expected %v (input %v, %v below the slice maximum; bound relative to the probability) | %s", j, g, p, x.F((o*k+j)*inner+in), -d, trunc(req.Describe(), 300))
							return
						}
					}
				}
			}
		}
		for o := 0; o < outer; o++ {
			for in := 0; in < inner; in++ {
				sum := 0.0
				for j := 0; j < k; j++ {
					v := got.F((o*k+j)*inner + in)
					if v != v || math.IsInf(v, 0) {
						c.Violation(req.Op+":non-finite-result", "non-finite result %v for finite inputs | %s", v, trunc(req.Describe(), 300))
						return
					}
					if req.Op == "Softmax" {
						if v < 0 {
							c.Violation("Softmax:negative-element", "%v | %s", v, trunc(req.Describe(), 300))
							return
						}
						sum += v
					} else {
						if v > 8*u {
							c.Violation("LogSoftmax:positive-element", "%v | %s", v, trunc(req.Describe(), 300))
							return
						}
						sum += math.Exp(v)
					}
				}
				tol := float64(k)*8*u + 1e-30
				if req.Op == "LogSoftmax" {
					// exp of a rounded logarithm: relative error u*|y| per term
					tol = float64(k) * 64 * u * (1 + math.Log(float64(k)))
					for j := 0; j < k; j++ {
						v := got.F((o*k+j)*inner + in)
						tol += 2 * u * math.Abs(v) * math.Exp(v)
					}
				}
				if math.Abs(sum-1) > tol {
					c.Violation(req.Op+":slice-does-not-sum-to-1", "slice sums to %v (tol %g) | %s", sum, tol, trunc(req.Describe(), 300))
					return
				}
			}
		}
	}
}

// c09Known recognises the recorded defect "ArgMax prefers a later +Inf over a +Inf at the
// first position of the slice" (gorgonia's argmax returns at the first +Inf it meets after
// position 0, so [+Inf 1 +Inf] gives 2): the observed indices must be exactly what that
// scan gives for every slice, and the input must hold +Inf.
func c09Known(req mon.OpReq, exp Expect, o mon.Outcome, v Verdict) string {
	if req.Op != "ArgMax" || o.Kind != mon.Value || len(o.Vals) != 1 || o.Vals[0] == nil || len(req.Inputs) != 1 {
		return ""
	}
	x := req.Inputs[0]
	if !x.DT.IsFloat() || x.Rank() == 0 {
		return ""
	}
	axis := 0
	for _, a := range req.Attrs {
		if a.Name == "axis" {
			axis = int(a.I)
		}
	}
	ax, ok := ref.NormAxis(axis, x.Rank())
	if !ok {
		return ""
	}
	outer, n, inner := 1, x.Shape[ax], 1
	for _, d := range x.Shape[:ax] {
		outer *= d
	}
	for _, d := range x.Shape[ax+1:] {
		inner *= d
	}
	got := o.Vals[0]
	if len(got.Bits) != outer*inner {
		return ""
	}
	sawInf := false
	for ou := 0; ou < outer; ou++ {
		for in := 0; in < inner; in++ {
			best, f := 0, x.F((ou*n)*inner+in)
			for k := 1; k < n; k++ {
				val := x.F((ou*n+k)*inner + in)
				if val != val || math.IsInf(val, 1) {
					best = k
					break
				}
				if val > f {
					best, f = k, val
				}
			}
			if int64(got.Bits[ou*inner+in]) != int64(best) {
				return ""
			}
		}
	}
	for i := range x.Bits {
		if math.IsInf(x.F(i), 1) {
			sawInf = true
		}
	}
	if !sawInf {
		return ""
	}
	return "ArgMax:later-infinity-preferred-over-infinity-at-the-first-position(gorgonia)"
}
