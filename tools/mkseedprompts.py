#!/usr/bin/env python3
"""mkseedprompts.py <round-letter> [two] — prepare an independent seeded-break round.

For every property creates a scratch worktree /tmp/sb/Cxx of /repo (HEAD) and
/tmp/sb/out/Cxx/PROMPT.txt from tools/seedprompt_template.txt. The prompt holds only
the property text, the worktree path and one line per earlier kept change for that
property (so that the new change is different); nothing from /verif is readable
through it. Afterwards: one fresh sub-agent per PROMPT.txt, then
tools/seedtest.sh Cxx /tmp/sb/out/Cxx, keep as seeded/Cxx-<letter>/, and
`git -C /repo worktree remove --force /tmp/sb/Cxx`."""
import glob, json, os, subprocess, sys
letter = sys.argv[1]
tmpl = open('/verif/tools/seedprompt_template2.txt' if len(sys.argv) > 2 and sys.argv[2] == 'two' else '/verif/tools/seedprompt_template.txt').read()
props = {}
for l in open('/verif/properties.jsonl'):
    d = json.loads(l)
    props[d['id']] = d
os.makedirs('/tmp/sb/out', exist_ok=True)
for pid, d in props.items():
    wt, out = '/tmp/sb/' + pid, '/tmp/sb/out/' + pid
    if not os.path.isdir(wt):
        subprocess.check_call(['git', '-C', '/repo', 'worktree', 'add', '-q', '--detach', wt, 'HEAD'])
    os.makedirs(out, exist_ok=True)
    os.makedirs(out + '/A', exist_ok=True)
    os.makedirs(out + '/B', exist_ok=True)
    earlier = []
    for m in sorted(glob.glob('/verif/seeded/%s-*/meta.json' % pid)):
        earlier.append('(%d) %s' % (len(earlier) + 1, json.load(open(m))['change']))
    prop = "Property %s: %s\n\nStatement: %s\n\nQuantified over: %s\n" % (d['id'], d['title'], d['statement'], d['quantifier']['text'])
    kind = "You are free to choose any place in the library that the property depends on (read the code paths behind every operator / function the statement names, and the helpers they share)."
    if len(sys.argv) > 3 and sys.argv[3] == 'adversarial':
        kind += " Assume the verification suite is thorough in the obvious ways: it compares every operator with an independent reference on hundreds of thousands of random inputs (all ranks, types, attribute combinations, special values), runs generated graphs and the sample models repeatedly on one loaded model and from many goroutines under the race detector, fingerprints caller tensors and weights before and after every call, re-uses operand tensors and operator instances across calls, and fuzzes the loaders. Look for what such a suite could still overlook: rare value- or shape-coincidences, interactions of two features that are each tested alone, boundaries of integer arithmetic, behaviour that depends on the ORDER of things (map iteration, attribute order, node order, input declaration order), error paths and partial failures, and state that only differs after an unusual sequence."
        kind += " The suite also already: permutes attribute lists; passes axis/shape/index values at the int64 boundaries; applies one operator instance repeatedly (to other inputs, to the same tensor objects whose contents were overwritten in place, checking that earlier results stay intact); runs a refused call followed by a valid one on the same tensors; uses operands of >60000 elements now and then; mixes Runs with and without overriding an input's default; lets failing Runs execute concurrently and compares error texts; places unknown operator types anywhere in the graph; writes skipped inputs as \"\" behind nodes with omitted outputs. It also: compares the sign of zero results; uses int64 values beyond 2^53 and shape/target entries whose products overflow int64; names one axis twice in both spellings; passes zero-element tensors, tensors of >1000 elements, gorgonia element types that are not ONNX types; loads the same ModelProto object twice (NewModel, from bytes, from file, from zip incl. entries that cannot be opened) and checks that it is left unchanged; scribbles over what InputShapes()/InputNames() return; gives symbolic dimensions numeric names; uses 1-3 inputs with defaults per graph and any subset overridden per call; two-digit batch/hidden sizes; attribute values at integer boundaries; operands of two element types in the broadcast helpers; output names of unknown operators that collide with initializers, inputs or earlier outputs. And: varies the declared ir_version; puts stray entries (named like computed values) into the caller's input map; passes input lists with spare capacity; uses NaN/Inf/-0 operands and all-zero filters for Conv; passes one tensor object at several operand positions; overwrites the slices returned by GetInputTypeConstraints/InputShapes; uses ranks up to 11, results beyond 2^24 elements, axes of >1024 entries, batches of 17..513; user-named Go element types; rank-0 and zero-element tensors at every gate position; operator types containing % verbs; raw payloads shared by two initializers of different type. Since the last round it also: replays a deviating case behind the cases evaluated before it (so state the library keeps between calls - pools, caches, memos - is attributed correctly); overrides defaulted inputs with tensors of other extents than the default; spells the default opset domain as ai.onnx; refills the caller's input tensor objects in place between Runs; feeds NaN/Inf to every operator inside models; uses up to 40 Conv filters, spatial extents beyond 100 and other GOMAXPROCS values; parameterised recurrent activations with activation_alpha/beta; operands that are Clone()s; nodes sandwiched between other nodes (operand and result are intermediates); Concat with empty inputs; empty axes attributes; negative dim_values; zero extents in broadcasting; one broadcast source shared by concurrent callers; random back-to-back gate probes and gates re-asked after valid Runs; Gemm with the batch as the transposed operand; concurrent Runs of differing shapes; several perturbations of one initializer at once; unknown operators with dangling inputs. OUT OF SCOPE (do not use): operands of caller-defined types that merely embed *tensor.Dense, operands that are non-contiguous views / lazily transposed tensors, calling Init twice on one operator instance, applying ONE operator instance from several goroutines, callers that write into tensors returned by Run, and the order in which a float implementation evaluates a product of three factors (intermediate overflow/underflow for operands of extreme magnitude). Prefer REALISTIC regressions (what a refactor, a performance optimisation, a dependency upgrade or a bug fix gone slightly wrong would introduce) over contrived size thresholds."
    t = tmpl.replace('{WT}', wt).replace('{OUT}', out).replace('{PROPERTY}', prop).replace('{KIND}', kind)
    t = t.replace('Two earlier mutants', 'Earlier mutants').replace('{AVOID}', '; '.join(earlier))
    open(out + '/PROMPT.txt', 'w').write(t)
print('prepared', len(props), 'prompts for round', letter)
