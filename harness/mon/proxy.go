package mon

import (
	"bytes"
	"fmt"
	"runtime"
	"strconv"
	"sync"

	"github.com/advancedclimatesystems/gonnx"
	"github.com/advancedclimatesystems/gonnx/onnx"
	"github.com/advancedclimatesystems/gonnx/ops"
	"gorgonia.org/tensor"

	"verif/harness/ref"
)

// Event is one observation made by the operator proxy (monitor M2).
type Event struct {
	Seq      int
	Goid     int64
	Node     int    // index of the node in the graph (-1 until Init is seen)
	Phase    string // lookup | init | validate | apply
	OpType   string
	Inner    ops.Operator
	Err      error
	Injected bool
	// validate / apply
	NIn       int
	NilIn     []bool
	In        []tensor.Tensor
	InBefore  []Fingerprint
	InAfter   []Fingerprint
	Out       []tensor.Tensor
	OutFp     []Fingerprint
	InVals    []*ref.T // values of the inputs as read immediately before Apply
	OutVals   []*ref.T // values of the outputs as read immediately after Apply
	NodeProto *onnx.NodeProto
}

// Proxy wraps Model.GetOperator and records one event per phase of every node.
type Proxy struct {
	mu     sync.Mutex
	events []Event
	seq    int
	inner  gonnx.OpGetter
	nodes  []*onnx.NodeProto
	// Inject, when set, is consulted before each phase; a non-nil error is
	// returned instead of executing the phase (fault injection, M7).
	Inject func(node int, opType, phase string) error
	// Yield, when set, is called between phases (delay injection for C17).
	Yield func(node int, phase string)
	// Light disables fingerprinting (only ordering and errors are recorded).
	Light bool
}

// Attach installs a proxy on the model. The real Run/applyOp code executes
// unchanged; only the operator objects it obtains are wrapped.
func Attach(m *gonnx.Model) *Proxy {
	p := &Proxy{inner: m.GetOperator, nodes: m.VerifModelProto().GetGraph().GetNode()}
	m.GetOperator = p.get
	return p
}

// Detach restores the original getter.
func (p *Proxy) Detach(m *gonnx.Model) { m.GetOperator = p.inner }

// Events returns a copy of the recorded events.
func (p *Proxy) Events() []Event {
	p.mu.Lock()
	defer p.mu.Unlock()
	return append([]Event{}, p.events...)
}

// Reset clears the recorded events.
func (p *Proxy) Reset() {
	p.mu.Lock()
	p.events = nil
	p.mu.Unlock()
}

func (p *Proxy) record(e Event) {
	e.Goid = goid()
	p.mu.Lock()
	e.Seq = p.seq
	p.seq++
	p.events = append(p.events, e)
	p.mu.Unlock()
}

func goid() int64 {
	var buf [64]byte
	n := runtime.Stack(buf[:], false)
	b := bytes.TrimPrefix(buf[:n], []byte("goroutine "))
	if i := bytes.IndexByte(b, ' '); i > 0 {
		v, _ := strconv.ParseInt(string(b[:i]), 10, 64)
		return v
	}
	return -1
}

func (p *Proxy) get(opType string) (ops.Operator, error) {
	if p.Inject != nil {
		if err := p.Inject(-1, opType, "lookup"); err != nil {
			p.record(Event{Node: -1, Phase: "lookup", OpType: opType, Err: err, Injected: true})
			return nil, err
		}
	}
	op, err := p.inner(opType)
	p.record(Event{Node: -1, Phase: "lookup", OpType: opType, Inner: op, Err: err})
	if err != nil {
		return op, err
	}
	return &proxyOp{p: p, inner: op, opType: opType, node: -1}, nil
}

type proxyOp struct {
	p      *Proxy
	inner  ops.Operator
	opType string
	node   int
	np     *onnx.NodeProto
}

func (o *proxyOp) String() string { return o.inner.String() }

func (o *proxyOp) Init(n *onnx.NodeProto) error {
	o.np = n
	for k, g := range o.p.nodes {
		if g == n {
			o.node = k
			break
		}
	}
	if o.p.Yield != nil {
		o.p.Yield(o.node, "init")
	}
	if o.p.Inject != nil {
		if err := o.p.Inject(o.node, o.opType, "init"); err != nil {
			o.p.record(Event{Node: o.node, Phase: "init", OpType: o.opType, Inner: o.inner, Err: err, Injected: true, NodeProto: n})
			return err
		}
	}
	err := o.inner.Init(n)
	o.p.record(Event{Node: o.node, Phase: "init", OpType: o.opType, Inner: o.inner, Err: err, NodeProto: n})
	return err
}

func nils(ts []tensor.Tensor) []bool {
	b := make([]bool, len(ts))
	for i, t := range ts {
		b[i] = t == nil
	}
	return b
}

func (o *proxyOp) ValidateInputs(in []tensor.Tensor) ([]tensor.Tensor, error) {
	if o.p.Yield != nil {
		o.p.Yield(o.node, "validate")
	}
	if o.p.Inject != nil {
		if err := o.p.Inject(o.node, o.opType, "validate"); err != nil {
			o.p.record(Event{Node: o.node, Phase: "validate", OpType: o.opType, Inner: o.inner, Err: err, Injected: true, NIn: len(in), NodeProto: o.np})
			return nil, err
		}
	}
	supplied := append([]tensor.Tensor{}, in...)
	out, err := o.inner.ValidateInputs(in)
	o.p.record(Event{Node: o.node, Phase: "validate", OpType: o.opType, Inner: o.inner, Err: err, NIn: len(supplied), NilIn: nils(supplied), In: supplied, Out: append([]tensor.Tensor{}, out...), NodeProto: o.np})
	return out, err
}

func (o *proxyOp) Apply(in []tensor.Tensor) ([]tensor.Tensor, error) {
	if o.p.Yield != nil {
		o.p.Yield(o.node, "apply")
	}
	if o.p.Inject != nil {
		if err := o.p.Inject(o.node, o.opType, "apply"); err != nil {
			o.p.record(Event{Node: o.node, Phase: "apply", OpType: o.opType, Inner: o.inner, Err: err, Injected: true, NIn: len(in), NodeProto: o.np})
			return nil, err
		}
	}
	e := Event{Node: o.node, Phase: "apply", OpType: o.opType, Inner: o.inner, NIn: len(in), NilIn: nils(in), In: append([]tensor.Tensor{}, in...), NodeProto: o.np}
	if !o.p.Light {
		e.InBefore = make([]Fingerprint, len(in))
		e.InVals = make([]*ref.T, len(in))
		for i, t := range in {
			e.InBefore[i] = Fp(t)
			e.InVals[i], _ = readBack(t)
		}
	}
	out, err := o.inner.Apply(in)
	e.Err = err
	e.Out = append([]tensor.Tensor{}, out...)
	if !o.p.Light {
		e.InAfter = make([]Fingerprint, len(in))
		for i, t := range in {
			e.InAfter[i] = Fp(t)
		}
		e.OutFp = make([]Fingerprint, len(out))
		e.OutVals = make([]*ref.T, len(out))
		for i, t := range out {
			e.OutFp[i] = Fp(t)
			e.OutVals[i], _ = readBack(t)
		}
	}
	o.p.record(e)
	if o.p.Yield != nil {
		o.p.Yield(o.node, "applied")
	}
	return out, err
}

func (o *proxyOp) GetMinInputs() int { return o.inner.GetMinInputs() }
func (o *proxyOp) GetMaxInputs() int { return o.inner.GetMaxInputs() }
func (o *proxyOp) GetInputTypeConstraints() [][]tensor.Dtype {
	return o.inner.GetInputTypeConstraints()
}

// ErrInjected is the error returned by fault injection.
type ErrInjected struct {
	Node  int
	Phase string
}

func (e *ErrInjected) Error() string {
	return fmt.Sprintf("verif: injected fault at node %d phase %s", e.Node, e.Phase)
}
