#!/bin/bash
# seedround.sh <out-root> [A B ...] — evaluates every /tmp/sb/out/Cxx/<variant> of a round with
# tools/seedtest.sh and prints one line per change:
#   Cxx/V before=<pass|FAIL> suite=<ok|BROKEN> with=<FAIL|pass> check=<exit> <first signature>
ROOT=${1:-/tmp/sb/out}; shift
VARS=${@:-A B}
for d in $(ls -d $ROOT/C*); do
  p=$(basename $d)
  for v in $VARS; do
    [ -f $d/$v/patch.diff ] || { echo "$p/$v no deliverable"; continue; }
    out=$(/verif/tools/seedtest.sh $p $d/$v 2>&1)
    before=$(echo "$out" | sed -n '/demo WITHOUT/,/applying patch/p' | grep -c "^--- FAIL\|DATA RACE\|^FAIL")
    with=$(echo "$out" | sed -n '/demo WITH the change/,/my checks/p' | grep -c "^--- FAIL\|DATA RACE")
    suite=$(echo "$out" | sed -n '/suite WITH/,/demo WITH/p' | grep "^--- FAIL" | grep -vc TestOps)
    apply=$(echo "$out" | grep -c "DOES NOT APPLY")
    rc=$(echo "$out" | grep -m1 "^check " | sed 's/.*exit=//')
    sig=$(echo "$out" | grep -v KNOWN | grep -m1 "signature=" | sed 's/^ *signature=//' | cut -d' ' -f1 | cut -c1-90)
    echo "$p/$v before=$([ $before -eq 0 ] && echo pass || echo FAIL) suite=$([ $suite -eq 0 ] && echo ok || echo BROKEN) with=$([ $with -gt 0 ] && echo FAIL || echo pass) apply=$([ $apply -eq 0 ] && echo ok || echo NO) check=$rc $sig"
  done
done
git -C /repo status --short | head -3
