package props

import (
	"fmt"
	"math"

	"verif/harness/gen"
	"verif/harness/mon"
	"verif/harness/ref"
)

// C03 — elementwise binary arithmetic, comparison and logic with ONNX broadcasting.

// c03Shapes: all shapes of rank 0..4 with extents in {1,2,3} (121 shapes).
var c03Shapes = func() [][]int {
	out := [][]int{{}}
	var rec func(p []int, rank int)
	rec = func(p []int, rank int) {
		if len(p) == rank {
			out = append(out, append([]int{}, p...))
			return
		}
		for e := 1; e <= 3; e++ {
			rec(append(p, e), rank)
		}
	}
	for r := 1; r <= 4; r++ {
		rec(nil, r)
	}
	return out
}()

var c03MustDT = []ref.DType{ref.F32, ref.F64, ref.I32, ref.I64}

const c03Sampled = 900000

func c03ExhaustiveCount() int {
	return len(c03Shapes) * len(c03Shapes) * len(ref.BinaryOps) * len(c03MustDT)
}

func init() {
	Register(&Property{
		ID:    "C03",
		Title: "Elementwise binary arithmetic, comparison and logic follow ONNX broadcasting",
		Cases: func(tier string) int {
			switch tier {
			case "thorough":
				return c03ExhaustiveCount() + 6000000
			case "race":
				return 60000
			}
			return c03Sampled
		},
		Run:            c03Run,
		Floor:          func(tier string) int { return 5000 },
		Rule:           "(every 512th case: sequences of shape pairs that coincide under weak memo keys - polynomial folds with bases 10..61, unseparated decimals) 12 operators x ordered shape pairs of rank 0..4 with extents {1,2,3} (sampled in quick; thorough enumerates all 121^2 pairs x 12 operators x {float32,float64,int32,int64} completely, logic operators on bool, then 10^6 sampled cases) x element types x value pools with NaN, +-Inf, +-0, subnormals, integer extremes and forced ties; executed through the operator API and (every 4th case) as a single-node model through Run; compared with the reference (broadcast index map + IEEE / wrap-around scalar semantics). Expectation classes: MUST_EQUAL for float32/float64/int32/int64 (bool for logic), MAY_REFUSE for other accepted types, MUST_ERROR for incompatible shapes, mixed operand types and logic on non-bool. Integer division by zero is outside the domain (skipped). Non-trivial = broadcasting stretches an operand, or shapes are incompatible, or special values/ties are present; distinct = (operator, dtype, shapeA, shapeB, value-class)." + ruleShared + ruleReused,
		Exhaustive:     func(tier string) bool { return false },
		RaceInThorough: true,
		Technique:      "runtime monitoring: differential execution of the real operators (API and Run) against an independent reference model over generated and bounded-exhaustive shape/type/value spaces",
		Assumptions:    []string{"reference scalar semantics = Go's IEEE-754 float32/float64 arithmetic and two's-complement integer arithmetic", "integer division by zero excluded (undefined in ONNX)"},
	})
}

func c03Run(c *Ctx) {
	if c.Idx%16 == 9 && !(c.Tier == "thorough" && c.Idx < c03ExhaustiveCount()) {
		c03Shared(c)
		return
	}
	if c.Idx%512 == 37 && !(c.Tier == "thorough" && c.Idx < c03ExhaustiveCount()) {
		c03KeyCollisions(c)
		return
	}
	var op string
	var dt ref.DType
	var sa, sb []int
	mode := gen.FillMixed
	if c.Tier == "thorough" && c.Idx < c03ExhaustiveCount() {
		i := c.Idx
		n := len(c03Shapes)
		sb = c03Shapes[i%n]
		i /= n
		sa = c03Shapes[i%n]
		i /= n
		op = ref.BinaryOps[i%len(ref.BinaryOps)]
		i /= len(ref.BinaryOps)
		dt = c03MustDT[i]
		if ref.IsLogic(op) {
			dt = ref.Bool
		}
	} else {
		op = ref.BinaryOps[c.R.Intn(len(ref.BinaryOps))]
		sa = c03Shapes[c.R.Intn(len(c03Shapes))]
		if c.R.Chance(0.65) {
			sb = c03Compatible(c.R, sa)
		} else {
			sb = c03Shapes[c.R.Intn(len(c03Shapes))]
		}
		if c.R.Bool() {
			sa, sb = sb, sa
		}
		switch {
		case ref.IsLogic(op):
			dt = ref.Bool
			if c.R.Chance(0.08) {
				dt = c.R.PickDT(ref.F32, ref.I32, ref.I64, ref.U8)
			}
		case c.R.Chance(0.8):
			dt = c03MustDT[c.R.Intn(4)]
		default:
			dt = gen.AllDecodable[c.R.Intn(len(gen.AllDecodable))]
		}
		mode = c.R.PickInt(gen.FillMixed, gen.FillMixed, gen.FillSpecial, gen.FillSmall, gen.FillUnique)
		if c.Idx%40000 == 778 { // a large result (code paths that switch on the element count)
			sa, sb = []int{523, 1}, []int{1, 503}
			if c.R.Bool() {
				sa, sb = []int{263069}, []int{263069}
			}
		}
	}
	a := c.R.Tensor(dt, sa, mode, 50)
	b := c.R.Tensor(dt, sb, mode, 50)
	mixed := false
	if c.Tier != "thorough" || c.Idx >= c03ExhaustiveCount() {
		if c.R.Chance(0.03) && dt != ref.Bool { // mixed operand types: invalid
			odt := c.R.PickDT(ref.F32, ref.F64, ref.I32, ref.I64)
			if odt != dt {
				b = c.R.Tensor(odt, sb, gen.FillSmall, 9)
				mixed = true
			}
		}
	}
	// force ties so that > / >= and < / <= are told apart
	if !mixed && !ref.IsArith(op) {
		if shape, err := ref.BroadcastShape(sa, sb); err == nil {
			for i := 0; i < ref.NumElems(shape); i++ {
				if c.R.Chance(0.35) {
					b.Bits[ref.SrcIndex(i, shape, sb)] = a.Bits[ref.SrcIndex(i, shape, sa)]
				}
			}
		}
	}
	// integer division: keep divisors non-zero (division by zero is outside the domain)
	if op == "Div" && dt.IsInt() {
		for i := range b.Bits {
			if b.Bits[i] == 0 {
				b.Bits[i] = 1
			}
		}
	}
	req := mon.OpReq{Op: op, Inputs: []*ref.T{a, b}}
	c.SetCase("%s", req.Describe())
	exp, skip := c03Expect(op, a, b)
	if skip != "" {
		c.Skip(skip)
		return
	}
	_, berr := ref.BroadcastShape(sa, sb)
	if !ref.ShapeEq(sa, sb) || a.HasNaN() || b.HasNaN() || berr != nil {
		c.Nontrivial(fmt.Sprintf("%s|%v|%v|%v|%d|%v", op, dt, sa, sb, mode, mixed))
	}
	c.Distinct("operator-dtype", op+"/"+dt.String())
	viaModel := c.Idx%4 == 0
	mo := mon.ModelOpts{InitMask: uint64(c.R.Intn(4)), RawInits: c.R.Bool(), DynamicIn: c.R.Chance(0.3)}
	CheckOp(c, req, exp, viaModel, mo, c03Known)
	if c.Idx%5000 == 1 {
		s := map[string]any{"request": trunc(req.Describe(), 300), "expectation": exp.Kind.String()}
		if len(exp.Want) > 0 && exp.Want[0] != nil {
			s["expected"] = trunc(exp.Want[0].T.String(), 200)
		}
		c.Sample(s)
	}
}

func c03Compatible(r *gen.R, sa []int) []int {
	rank := r.Range(0, 4)
	sb := make([]int, rank)
	for i := range sb {
		j := len(sa) - rank + i
		switch {
		case j >= 0 && r.Chance(0.6):
			sb[i] = sa[j]
		case j >= 0 && sa[j] == 1:
			sb[i] = r.Range(1, 3)
		default:
			sb[i] = 1
			if j < 0 {
				sb[i] = r.Range(1, 3)
			}
		}
	}
	return sb
}

// c03Expect classifies a request per the property statement.
func c03Expect(op string, a, b *ref.T) (Expect, string) {
	if a.DT != b.DT {
		return Expect{Kind: MustError, Why: "operand element types differ"}, ""
	}
	if ref.IsLogic(op) && a.DT != ref.Bool {
		return Expect{Kind: MustError, Why: "logic operator on a non-bool type"}, ""
	}
	want, err := ref.Binary(op, a, b)
	if err == ref.ErrUndefined {
		return Expect{}, "integer division by zero"
	}
	if err != nil {
		return Expect{Kind: MustError, Why: err.Error()}, ""
	}
	kind := MayRefuse
	switch {
	case ref.IsLogic(op):
		kind = MustEqual
	case a.DT == ref.F32 || a.DT == ref.F64 || a.DT == ref.I32 || a.DT == ref.I64:
		kind = MustEqual
	}
	mode := CmpIEEE
	if ref.IsArith(op) {
		mode = CmpSigned // IEEE-754 also fixes the sign of a zero result
	}
	return Expect{Kind: kind, Want: Exact(want), Mode: mode, Why: "valid request"}, ""
}

// c03Known recognises the recorded defect "float Div returns +Inf for every
// x/0" (gorgonia's division kernel): every differing element has a zero
// divisor and the observed value is +Inf.
func c03Known(req mon.OpReq, exp Expect, o mon.Outcome, v Verdict) string {
	if req.Op != "Div" || v.Kind != "wrong-value" || len(o.Vals) != 1 || o.Vals[0] == nil || len(exp.Want) != 1 {
		return ""
	}
	got, want := o.Vals[0], exp.Want[0].T
	a, b := req.Inputs[0], req.Inputs[1]
	if !a.DT.IsFloat() || got.DT != want.DT || !ref.ShapeEq(got.Shape, want.Shape) {
		return ""
	}
	diffs := 0
	for i := range want.Bits {
		g, e := got.F(i), want.F(i)
		if g == e || (g != g && e != e) {
			continue
		}
		diffs++
		div := b.F(ref.SrcIndex(i, want.Shape, b.Shape))
		num := a.F(ref.SrcIndex(i, want.Shape, a.Shape))
		if div != 0 || !math.IsInf(g, 1) || math.IsInf(num, 0) && false {
			return ""
		}
	}
	if diffs == 0 {
		return ""
	}
	return "Div:float-division-by-zero-gives-plus-inf"
}

// c03KeyCollisions: two operator calls in a row whose shape pairs coincide under the common weak
// memo keys (see weakKeySeqs in c14.go): what an operator answers for a pair of shapes may not
// depend on the pairs some operator answered earlier in the process.
func c03KeyCollisions(c *Ctx) {
	seqs := weakKeySeqs(2 + int((uint64(c.Seed)+uint64(c.Idx/512))%7))
	ops13 := []string{"Add", "Sub", "Mul", "Div", "Less", "Greater", "Equal", "LessOrEqual", "GreaterOrEqual"}
	for k := 0; k < 6; k++ {
		s := seqs[(c.Idx/512*6+k)%len(seqs)]
		for _, p := range s {
			op := ops13[c.R.Intn(len(ops13))]
			a := c.R.Tensor(ref.F32, p.a, gen.FillSmall, 50)
			b := c.R.Tensor(ref.F32, p.b, gen.FillSmall, 50)
			if op == "Div" {
				op = "Add"
			}
			req := mon.OpReq{Op: op, Inputs: []*ref.T{a, b}}
			c.SetCase("%s", req.Describe())
			exp, skip := c03Expect(op, a, b)
			if skip != "" {
				continue
			}
			c.Nontrivial(fmt.Sprintf("weak-key|%s|%v|%v", op, p.a, p.b))
			c.Count("weak-key-collision-pairs", 1)
			CheckOp(c, req, exp, false, mon.ModelOpts{}, c03Known)
		}
	}
}
