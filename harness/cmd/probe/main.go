//go:build verif

// probe: output-aliasing experiment against the real library (not part of any
// check; the observation is recorded in DESIGN.md 8.6).
package main

import (
	"fmt"

	"github.com/advancedclimatesystems/gonnx"
	"gorgonia.org/tensor"

	"verif/harness/mon"
	"verif/harness/ref"
)

func run(name string, g *mon.Graph, feed map[string]*ref.T) {
	m, err := gonnx.NewModelFromBytes(g.Bytes())
	if err != nil {
		fmt.Println(name, "load:", err)
		return
	}
	in := gonnx.Tensors{}
	for k, v := range feed {
		in[k] = mon.ToTensor(v)
	}
	out1, err := m.Run(in)
	if err != nil {
		fmt.Println(name, "run1:", err)
		return
	}
	var before []string
	for k, t := range out1 {
		before = append(before, fmt.Sprint(k, "=", t.Data()))
		switch d := t.Data().(type) {
		case []float32:
			for i := range d {
				d[i] = 99
			}
		case []int64:
			for i := range d {
				d[i] = 99
			}
		}
	}
	out2, err := m.Run(in)
	if err != nil {
		fmt.Println(name, "run2:", err)
		return
	}
	for k, t := range out2 {
		fmt.Println(name, "first:", before, "second:", k, "=", t.Data())
	}
	for k, t := range in {
		fmt.Println(name, "caller input", k, "=", t.Data())
	}
	_ = tensor.Float32
}

func main() {
	f := func(v ...float64) *ref.T { return ref.FromF(ref.F32, []int{len(v)}, v) }
	// 1. Constant value_floats straight to the output
	run("constant-floats", &mon.Graph{
		Nodes:   []mon.GNode{{Op: "Constant", Outputs: []string{"y"}, Attrs: []*mon.Attr{mon.AttrFloats("value_floats", []float32{1, 2, 3})}}},
		Outputs: []mon.GInput{{Name: "y", NoType: true}},
	}, nil)
	// 2. initializer through Reshape to the same shape
	run("reshape-init", &mon.Graph{
		Inits:   []mon.GInit{{Name: "w", T: f(1, 2, 3)}, {Name: "s", T: ref.FromI(ref.I64, []int{1}, []int64{3})}},
		Nodes:   []mon.GNode{{Op: "Reshape", Inputs: []string{"w", "s"}, Outputs: []string{"y"}}},
		Outputs: []mon.GInput{{Name: "y", NoType: true}},
	}, nil)
	// 3. initializer through Concat with one input
	run("concat1-init", &mon.Graph{
		Inits:   []mon.GInit{{Name: "w", T: f(1, 2, 3)}},
		Nodes:   []mon.GNode{{Op: "Concat", Inputs: []string{"w"}, Outputs: []string{"y"}, Attrs: []*mon.Attr{mon.AttrI("axis", 0)}}},
		Outputs: []mon.GInput{{Name: "y", NoType: true}},
	}, nil)
	// 4. initializer through Expand to the same shape
	run("expand-init", &mon.Graph{
		Inits:   []mon.GInit{{Name: "w", T: f(1, 2, 3)}, {Name: "s", T: ref.FromI(ref.I64, []int{1}, []int64{3})}},
		Nodes:   []mon.GNode{{Op: "Expand", Inputs: []string{"w", "s"}, Outputs: []string{"y"}}},
		Outputs: []mon.GInput{{Name: "y", NoType: true}},
	}, nil)
	// 5. initializer declared as graph output
	run("init-as-output", &mon.Graph{
		Inits:   []mon.GInit{{Name: "w", T: f(1, 2, 3)}},
		Inputs:  []mon.GInput{{Name: "x", DT: ref.F32, Dims: mon.FixedDims([]int{3})}},
		Nodes:   []mon.GNode{{Op: "Relu", Inputs: []string{"x"}, Outputs: []string{"y"}}},
		Outputs: []mon.GInput{{Name: "y", NoType: true}, {Name: "w", NoType: true}},
	}, map[string]*ref.T{"x": f(1, -2, 3)})
	// 6. Constant with a typed-field tensor value
	run("constant-tensor", &mon.Graph{
		Nodes:   []mon.GNode{{Op: "Constant", Outputs: []string{"y"}, Attrs: []*mon.Attr{mon.AttrT("value", mon.TensorProto("v", f(4, 5, 6), false))}}},
		Outputs: []mon.GInput{{Name: "y", NoType: true}},
	}, nil)
	// 7. caller input through Squeeze/Unsqueeze
	run("unsqueeze-input", &mon.Graph{
		Inits:   []mon.GInit{{Name: "a", T: ref.FromI(ref.I64, []int{1}, []int64{0})}},
		Inputs:  []mon.GInput{{Name: "x", DT: ref.F32, Dims: mon.FixedDims([]int{3})}},
		Nodes:   []mon.GNode{{Op: "Unsqueeze", Inputs: []string{"x", "a"}, Outputs: []string{"y"}}},
		Outputs: []mon.GInput{{Name: "y", NoType: true}},
	}, map[string]*ref.T{"x": f(1, -2, 3)})
}
