package ref

import (
	"errors"
	"fmt"
)

// ErrInvalid marks a request that ONNX declares invalid (the library must
// answer with an error).
var ErrInvalid = errors.New("invalid per ONNX")

func invalid(format string, a ...any) error {
	return fmt.Errorf("%w: %s", ErrInvalid, fmt.Sprintf(format, a...))
}

// BroadcastShape computes the multidirectional broadcast shape (Appendix A.1).
func BroadcastShape(a, b []int) ([]int, error) {
	r := len(a)
	if len(b) > r {
		r = len(b)
	}
	out := make([]int, r)
	for i := 0; i < r; i++ {
		ea, eb := 1, 1
		if j := i - (r - len(a)); j >= 0 {
			ea = a[j]
		}
		if j := i - (r - len(b)); j >= 0 {
			eb = b[j]
		}
		switch {
		case ea == eb:
			out[i] = ea
		case ea == 1:
			out[i] = eb
		case eb == 1:
			out[i] = ea
		default:
			return nil, invalid("shapes %v and %v do not broadcast", a, b)
		}
	}
	return out, nil
}

// UniBroadcastable reports whether b broadcasts unidirectionally to a.
func UniBroadcastable(a, b []int) bool {
	if len(b) > len(a) {
		return false
	}
	s, err := BroadcastShape(a, b)
	return err == nil && ShapeEq(s, a)
}

// SrcIndex maps an index of the broadcast result (flat, row-major over out) to
// the flat index in a source of shape src (stretched axes pinned to 0).
func SrcIndex(outIdx int, out, src []int) int {
	r := len(out)
	off := r - len(src)
	idx := 0
	stride := 1
	for i := r - 1; i >= 0; i-- {
		c := outIdx % out[i]
		outIdx /= out[i]
		j := i - off
		if j < 0 {
			continue
		}
		if src[j] != 1 {
			idx += c * stride
		}
		stride *= src[j]
	}
	return idx
}

// BroadcastTo materialises t broadcast to shape out (which must be valid).
func BroadcastTo(t *T, out []int) *T {
	r := New(t.DT, out...)
	for i := range r.Bits {
		r.Bits[i] = t.Bits[SrcIndex(i, out, t.Shape)]
	}
	return r
}
