#!/usr/bin/env python3
"""Runs the repository's test suite with the verif guard OFF and compares with
/root/.vp/BASELINE.json (254 stable passes)."""
import json, subprocess, os, sys
env = dict(os.environ, GOFLAGS="-mod=mod", GOPROXY="off", GOSUMDB="off", GOTOOLCHAIN="local")
p = subprocess.run(["go", "test", "-json", "-vet=off", "-count=1", "-timeout", "25m", "./..."], cwd="/repo", env=env, capture_output=True, text=True)
passed = set()
failed = set()
for line in p.stdout.splitlines():
    try:
        e = json.loads(line)
    except Exception:
        continue
    if "Test" in e and e.get("Action") in ("pass", "fail"):
        name = e["Package"] + "::" + e["Test"]
        (passed if e["Action"] == "pass" else failed).add(name)
base = set(json.load(open("/root/.vp/BASELINE.json"))["stable_pass"])
missing = sorted(base - passed)
print("baseline passes: %d/%d; failed tests: %s" % (len(base & passed), len(base), sorted(failed)))
if missing:
    print("MISSING (%d):" % len(missing), missing[:6])
    sys.exit(1)
