package props

import (
	"fmt"
	"math"
	"runtime"

	"verif/harness/gen"
	"verif/harness/mon"
	"verif/harness/ref"
)

// C05 — Conv equals direct convolution for every geometry.

func init() {
	Register(&Property{
		ID:    "C05",
		Title: "Conv equals direct convolution for every geometry, not only square ones",
		Cases: func(tier string) int {
			switch tier {
			case "thorough":
				return 1200000
			case "race":
				return 6000
			}
			return 110000
		},
		Run:            c05Run,
		Floor:          func(tier string) int { return 2000 },
		Rule:           "(also up to 40 filters, spatial extents of 8-14 / 18-26 / 97-104 with pads up to 12, and one case in eight under GOMAXPROCS 1/2/3/5/7) generated 1-D and 2-D convolutions: N, C, M in 1..3, spatial extents 1..7 (H != W favoured), kernel extents 1..3 (kh != kw favoured), strides and dilations 1..3 per axis independently, pads 0..3 per side independently, the four auto_pad modes, kernel_shape given or inferred, bias absent / skipped by \"\" / present, prime-valued signed data; invalid: group != 1, 3-D input, kernel channels != input channels, kernel larger than the padded image, bias length != M, kernel_shape contradicting W. float32 MUST_EQUAL (ONNX output shape; every element within the dot-product rounding bound of the direct float64 convolution), float64 MAY_REFUSE, invalid/unsupported MUST_ERROR. Non-trivial = the geometry is asymmetric in at least one way (H != W, kh != kw, per-axis strides/dilations differ, begin/end pads differ, auto_pad set) and a reference with begin/end pads exchanged or axes exchanged gives a different answer; distinct = (shapes, attributes)." + ruleShared + ruleReused,
		RaceInThorough: true,
		Technique:      "runtime monitoring: differential execution against a direct nested-loop convolution in float64 with a sound dot-product error bound; discriminative non-triviality rule",
		Assumptions:    []string{"ONNX Conv formulas as written in DESIGN.md Appendix A.5 (auto_pad on the dilated kernel extent)"},
	})
	validGens["Conv"] = func(r *gen.R, _ bool) (mon.OpReq, Expect, bool) {
		req, exp, _, ok := genConv(r, true)
		return req, exp, ok
	}
}

type convInfo struct {
	at       ref.ConvAttrs
	asym     bool
	discrim  bool
	biasMode int
	spatial  int
	x, w, b  *ref.T
}

func primeTensor(r *gen.R, dt ref.DType, shape []int) *ref.T { return r.Primes(dt, shape) }

func genConv(r *gen.R, validOnly bool) (mon.OpReq, Expect, convInfo, bool) {
	var info convInfo
	dt := ref.F32
	if !validOnly && r.Chance(0.1) {
		dt = ref.F64
	}
	nsp := 2
	if r.Chance(0.3) {
		nsp = 1
	}
	N, C, M := r.Range(1, 3), r.Range(1, 3), r.Range(1, 3)
	in := make([]int, nsp)
	ks := make([]int, nsp)
	strides := make([]int, nsp)
	dil := make([]int, nsp)
	pads := make([]int, 2*nsp)
	for d := 0; d < nsp; d++ {
		in[d] = r.Range(1, 7)
		ks[d] = r.Range(1, 3)
		strides[d] = r.PickInt(1, 1, 2, 3)
		dil[d] = r.PickInt(1, 1, 1, 2, 3)
		pads[d] = r.PickInt(0, 0, 1, 2, 3)
		pads[nsp+d] = r.PickInt(0, 0, 1, 2, 3)
	}
	switch {
	case r.Chance(0.06):
		// many filters (more than the machine has cores, and not a multiple of their number)
		M = r.Range(4, 40)
	case r.Chance(0.1):
		// wide spatial extents (two and three digits), one filter
		N, C, M = 1, r.Range(1, 2), 1
		for d := 0; d < nsp; d++ {
			switch r.Intn(4) {
			case 0:
				in[d] = r.Range(8, 14)
			case 1:
				in[d] = r.Range(18, 26)
			case 2:
				in[d] = r.Range(97, 104)
			}
			if r.Chance(0.15) {
				pads[d], pads[nsp+d] = r.Range(9, 12), r.Range(0, 12)
			}
		}
	}
	if nsp == 2 && in[0] == in[1] && r.Chance(0.8) {
		in[1] = in[0]%7 + 1
	}
	if nsp == 2 && ks[0] == ks[1] && r.Chance(0.6) {
		ks[1] = ks[0]%3 + 1
	}
	mode := r.PickStr("", "NOTSET", "NOTSET", "SAME_UPPER", "SAME_LOWER", "VALID")
	hugeStride := !validOnly && r.Chance(0.012)
	if hugeStride {
		// a stride far beyond the padded input (one output position on that axis), explicit pads only
		mode = r.PickStr("", "NOTSET")
		strides[r.Intn(nsp)] = r.PickInt(math.MaxInt64, 1<<62, 1<<40, math.MaxInt32+1, math.MaxInt64-1)
	}
	at := ref.ConvAttrs{AutoPad: mode}
	req := mon.OpReq{Op: "Conv"}
	if mode != "" {
		req.Attrs = append(req.Attrs, mon.AttrS("auto_pad", mode))
	}
	if hugeStride || r.Chance(0.7) {
		at.Strides = strides
		req.Attrs = append(req.Attrs, mon.AttrIntsI("strides", strides))
	}
	if r.Chance(0.6) {
		at.Dilations = dil
		req.Attrs = append(req.Attrs, mon.AttrIntsI("dilations", dil))
	}
	if (mode == "" || mode == "NOTSET") && r.Chance(0.7) {
		at.Pads = pads
		req.Attrs = append(req.Attrs, mon.AttrIntsI("pads", pads))
	}
	if r.Chance(0.5) {
		at.KernelShape = append([]int{}, ks...)
		req.Attrs = append(req.Attrs, mon.AttrIntsI("kernel_shape", ks))
	}
	if r.Chance(0.2) {
		at.Group = 1
		req.Attrs = append(req.Attrs, mon.AttrI("group", 1))
	}
	xs := append([]int{N, C}, in...)
	ws := append([]int{M, C}, ks...)
	x := primeTensor(r, dt, xs)
	w := primeTensor(r, dt, ws)
	var b *ref.T
	info.biasMode = r.Intn(3)
	if info.biasMode == 2 {
		b = primeTensor(r, dt, []int{M})
	}
	if !validOnly && r.Chance(0.08) {
		// IEEE special values: weight x (padded) input is summed as it is, 0 x Inf and 0 x NaN are NaN
		sp := func() uint64 { return ref.EncF(dt, r.PickFloat(math.Inf(1), math.Inf(-1), math.NaN())) }
		if r.Bool() {
			x.Bits[r.Intn(len(x.Bits))] = sp()
		} else {
			w.Bits[r.Intn(len(w.Bits))] = sp()
		}
		if r.Bool() { // one filter with all weights zero
			m, per := r.Intn(M), len(w.Bits)/M
			for i := m * per; i < (m+1)*per; i++ {
				w.Bits[i] = 0
			}
			if r.Bool() && len(x.Bits) > 0 {
				x.Bits[r.Intn(len(x.Bits))] = sp()
			}
		}
	}
	why := ""
	if !validOnly && r.Chance(0.12) {
		switch r.Intn(7) {
		case 6: // an operand without spatial axes (rank 0 or 1), with all, some or none of the attributes given
			low := []int{}
			if r.Bool() {
				low = []int{r.Range(1, 4)}
			}
			switch r.Intn(3) {
			case 0:
				xs = low
				x = primeTensor(r, dt, xs)
			case 1:
				ws = low
				w = primeTensor(r, dt, ws)
			default:
				xs, ws = low, low
				x, w = primeTensor(r, dt, xs), primeTensor(r, dt, ws)
			}
			switch r.Intn(3) {
			case 0:
				req.Attrs = nil
			case 1:
				if len(req.Attrs) > 0 {
					i := r.Intn(len(req.Attrs))
					req.Attrs = append(append([]*mon.Attr{}, req.Attrs[:i]...), req.Attrs[i+1:]...)
				}
			}
			why = "operand without spatial axes"
		case 0:
			at.Group = 2
			req.Attrs = append(req.Attrs, mon.AttrI("group", 2))
			why = "group != 1"
		case 1: // 3-D
			for len(xs) < 5 {
				xs = append(xs, 2)
				ws = append(ws, 1)
			}
			x = primeTensor(r, dt, xs)
			w = primeTensor(r, dt, ws)
			req.Attrs = nil
			at = ref.ConvAttrs{}
			why = "3-D convolution (outside the implemented set)"
		case 2: // channel mismatch
			ws[1] = C + 1
			if C > 1 && r.Bool() {
				ws[1] = 1 // a single-channel kernel for a multi-channel input
			}
			w = primeTensor(r, dt, ws)
		case 3: // kernel larger than padded image
			at.Pads, at.AutoPad = nil, ""
			at.Dilations, at.Strides, at.KernelShape = nil, nil, nil
			req.Attrs = nil
			ws[2] = in[0] + 1
			w = primeTensor(r, dt, ws)
		case 4: // bias length
			b = primeTensor(r, dt, []int{M + 1})
			info.biasMode = 2
		case 5: // kernel_shape contradicting W
			bad := append([]int{}, ks...)
			bad[0]++
			at.KernelShape = bad
			for i, a := range req.Attrs {
				if a.Name == "kernel_shape" {
					req.Attrs = append(req.Attrs[:i], req.Attrs[i+1:]...)
					break
				}
			}
			req.Attrs = append(req.Attrs, mon.AttrIntsI("kernel_shape", bad))
		}
	}
	req.Inputs = []*ref.T{x, w}
	switch info.biasMode {
	case 1:
		req.Inputs = append(req.Inputs, nil)
	case 2:
		req.Inputs = append(req.Inputs, b)
	}
	info.at, info.x, info.w, info.b, info.spatial = at, x, w, b, len(xs)-2
	if why != "" {
		return req, Expect{Kind: MustError, Why: why}, info, true
	}
	want, err := ref.Conv(x, w, b, at)
	if err != nil {
		return req, Expect{Kind: MustError, Why: err.Error()}, info, true
	}
	// asymmetry and discrimination
	pb, pe, outExt, st, dl, _ := ref.ConvGeometry(xs, ws, at)
	info.asym = mode == "SAME_UPPER" || mode == "SAME_LOWER" || mode == "VALID"
	for d := 0; d < nsp; d++ {
		if pb[d] != pe[d] {
			info.asym = true
		}
	}
	if nsp == 2 && (in[0] != in[1] || ks[0] != ks[1] || st[0] != st[1] || dl[0] != dl[1] || pb[0] != pb[1]) {
		info.asym = true
	}
	alt := ref.ConvWithGeometry(x, w, b, pe, outExt, st, dl) // begin/end pads exchanged
	info.discrim = !sameWithin(alt, want)
	if nsp == 2 && !info.discrim && ref.ShapeEq(xs[2:], []int{xs[3], xs[2]}) == false {
		info.discrim = info.discrim || in[0] != in[1]
	}
	kind, ewhy := MustEqual, "valid float32 request"
	if dt == ref.F64 {
		kind, ewhy = MayRefuse, "float64 may be refused"
	}
	return req, Expect{Kind: kind, Want: []*ref.Approx{want}, Mode: CmpTol, Why: ewhy}, info, true
}

func sameWithin(a, b *ref.Approx) bool {
	if !ref.ShapeEq(a.T.Shape, b.T.Shape) {
		return false
	}
	for i := range a.T.Bits {
		if math.Abs(a.T.F(i)-b.T.F(i)) > 10*(a.Tol[i]+b.Tol[i]) {
			return false
		}
	}
	return true
}

func c05Run(c *Ctx) {
	if c.Idx%16 == 9 {
		c05Shared(c)
		return
	}
	req, exp, info, ok := genConv(c.R, false)
	if !ok {
		c.Skip("generator rejected the draw")
		return
	}
	procs := 0
	if c.Idx%8 == 2 { // what Conv computes does not depend on the number of processors it may use
		procs = []int{1, 2, 3, 5, 7}[(c.Idx/8)%5]
		defer runtime.GOMAXPROCS(runtime.GOMAXPROCS(procs))
		c.Count("cases-under-another-GOMAXPROCS", 1)
	}
	c.SetCase("%s | GOMAXPROCS %d (0: as started)", req.Describe(), procs)
	if exp.Kind == MustError || (info.asym && info.discrim) {
		c.Nontrivial(fmt.Sprintf("%v|%v|%v|%s", info.x.Shape, info.w.Shape, info.biasMode, attrsString(req)))
	}
	if info.discrim {
		c.Count("discriminating(begin/end pads exchanged changes the answer)", 1)
	}
	c.Count("class:"+exp.Kind.String(), 1)
	c.Count(fmt.Sprintf("spatial-dims:%d", info.spatial), 1)
	c.Distinct("auto_pad", info.at.AutoPad)
	mo := mon.ModelOpts{InitMask: uint64(c.R.Intn(8)), RawInits: c.R.Bool(), Truncate: c.R.Bool()}
	CheckOp(c, req, exp, c.Idx%4 == 0, mo, c05Known(info))
	if c.Idx%1500 == 23 {
		s := map[string]any{"request": trunc(req.Describe(), 400), "expectation": exp.Kind.String(), "why": exp.Why}
		if len(exp.Want) > 0 && exp.Want[0] != nil {
			s["expected"] = trunc(exp.Want[0].T.String(), 200)
		}
		c.Sample(s)
	}
}

// c05Known recognises the recorded defect "auto_pad=VALID is computed as
// SAME_UPPER" (pinned by TestConv / TestSetPaddingWithAutoPad): the observed
// tensor must equal the reference evaluated with SAME_UPPER.
func c05Known(info convInfo) KnownMatcher {
	return func(req mon.OpReq, exp Expect, o mon.Outcome, v Verdict) string {
		if o.Kind != mon.Value || len(o.Vals) != 1 || o.Vals[0] == nil {
			return ""
		}
		// recorded defect "a kernel with one channel is broadcast over the input channels"
		// (pinned by TestConv "multiple channels"): the observed tensor must equal the
		// reference evaluated with the kernel repeated along the channel axis.
		if info.w.Rank() >= 3 && info.w.Rank() == info.x.Rank() && info.w.Shape[1] == 1 && info.x.Shape[1] > 1 {
			C := info.x.Shape[1]
			ws := append([]int{}, info.w.Shape...)
			ws[1] = C
			rep := ref.New(info.w.DT, ws...)
			per := ref.NumElems(info.w.Shape[2:])
			for m := 0; m < ws[0]; m++ {
				for ch := 0; ch < C; ch++ {
					copy(rep.Bits[(m*C+ch)*per:(m*C+ch+1)*per], info.w.Bits[m*per:(m+1)*per])
				}
			}
			at := info.at
			if at.AutoPad == "VALID" { // combined with the other recorded defect (VALID computed as SAME_UPPER)
				at.AutoPad = "SAME_UPPER"
			}
			if alt, err := ref.Conv(info.x, rep, info.b, at); err == nil {
				if k, _ := CompareValue(o.Vals[0], alt, CmpTol); k == "" {
					return "Conv:single-channel-kernel-broadcast-over-input-channels"
				}
			}
			if hw, hat, ok := zeroFilledKernel(rep, at); ok && hasNonFinite(info.x) { // plus the dilation-holes defect
				if alt, err := ref.Conv(info.x, hw, info.b, hat); err == nil {
					if k, _ := CompareValue(o.Vals[0], alt, CmpTol); k == "" {
						return "Conv:single-channel-kernel-broadcast-over-input-channels"
					}
				}
			}
			return ""
		}
		// recorded defect "the positions between the taps of a dilated kernel are multiplied
		// with the input" (the library materialises the dilated kernel with zeros inserted):
		// a non-finite input element under such a position turns the sum into NaN. The
		// observed tensor must equal the reference evaluated with that zero-filled kernel.
		holes := func(at ref.ConvAttrs) *ref.Approx {
			hw, hat, ok := zeroFilledKernel(info.w, at)
			if !ok {
				return nil
			}
			alt, err := ref.Conv(info.x, hw, info.b, hat)
			if err != nil {
				return nil
			}
			return alt
		}
		if info.at.AutoPad != "VALID" {
			if alt := holes(info.at); alt != nil && hasNonFinite(info.x) {
				if k, _ := CompareValue(o.Vals[0], alt, CmpTol); k == "" {
					return "Conv:dilated-kernel-holes-multiply-non-finite-input"
				}
			}
			return ""
		}
		at := info.at
		at.AutoPad = "SAME_UPPER"
		alt, err := ref.Conv(info.x, info.w, info.b, at)
		if err != nil {
			return ""
		}
		if k, _ := CompareValue(o.Vals[0], alt, CmpTol); k == "" {
			return "Conv:auto_pad-VALID-computed-as-SAME_UPPER"
		}
		if alt := holes(at); alt != nil && hasNonFinite(info.x) { // both recorded defects at once
			if k, _ := CompareValue(o.Vals[0], alt, CmpTol); k == "" {
				return "Conv:auto_pad-VALID-computed-as-SAME_UPPER"
			}
		}
		return ""
	}
}

func hasNonFinite(t *ref.T) bool {
	for i := range t.Bits {
		if v := t.F(i); v != v || math.IsInf(v, 0) {
			return true
		}
	}
	return false
}

// zeroFilledKernel materialises the dilated kernel: zeros between the taps,
// dilations 1. ok=false when no axis is dilated.
func zeroFilledKernel(w *ref.T, at ref.ConvAttrs) (*ref.T, ref.ConvAttrs, bool) {
	n := w.Rank() - 2
	if n < 1 || len(at.Dilations) != n {
		return nil, at, false
	}
	dilated := false
	ks := make([]int, n)
	for d := 0; d < n; d++ {
		if at.Dilations[d] > 1 && w.Shape[2+d] > 1 {
			dilated = true
		}
		if at.Dilations[d] < 1 {
			return nil, at, false
		}
		ks[d] = (w.Shape[2+d]-1)*at.Dilations[d] + 1
	}
	if !dilated {
		return nil, at, false
	}
	hw := ref.New(w.DT, append([]int{w.Shape[0], w.Shape[1]}, ks...)...)
	per, hper := ref.NumElems(w.Shape[2:]), ref.NumElems(ks)
	kc, hc := make([]int, n), make([]int, n)
	for mc := 0; mc < w.Shape[0]*w.Shape[1]; mc++ {
		for k := 0; k < per; k++ {
			ref.Unravel(k, w.Shape[2:], kc)
			for d := range kc {
				hc[d] = kc[d] * at.Dilations[d]
			}
			hw.Bits[mc*hper+ref.Ravel(hc, ks)] = w.Bits[mc*per+k]
		}
	}
	hat := at
	hat.Dilations = nil
	if at.KernelShape != nil {
		hat.KernelShape = ks
	}
	return hw, hat, true
}
