#!/bin/bash
# Entry point of every registered check.
#   ./check.sh <Cxx> quick|thorough        run the check (rebuilds from /repo's working tree)
#   ./check.sh <Cxx> --replay <file>       re-execute one recorded case verbosely
#   ./check.sh build                       build both binaries (setup)
set -u
cd "$(dirname "$0")"
export GOFLAGS=-mod=mod GOPROXY=off GOSUMDB=off GOTOOLCHAIN=local CGO_ENABLED=1
VERIF="$(pwd)"          # normally /verif; a snapshot under /root/.vp/runs/<n>/verif works too
export VERIF_DIR="$VERIF"
BIN=$VERIF/bin
mkdir -p "$BIN" "$VERIF/evidence" "$VERIF/replays" "$VERIF/.work"

build_plain() {
  (cd $VERIF/harness && cp /repo/go.sum go.sum.repo 2>/dev/null; go build -tags verif -o "$BIN/verifcheck" ./cmd/verifcheck) 2>"$VERIF/.work/build-plain.$$.log"
  local rc=$?
  if [ $rc -ne 0 ]; then cat "$VERIF/.work/build-plain.$$.log"; fi
  rm -f "$VERIF/.work/build-plain.$$.log" $VERIF/harness/go.sum.repo
  return $rc
}
build_race() {
  (cd $VERIF/harness && go build -race -tags verif -o "$BIN/verifcheck-race" ./cmd/verifcheck) 2>"$VERIF/.work/build-race.$$.log"
  local rc=$?
  if [ $rc -ne 0 ]; then cat "$VERIF/.work/build-race.$$.log"; fi
  rm -f "$VERIF/.work/build-race.$$.log"
  return $rc
}
needs_race() { # properties whose requested tier uses the race binary
  case "$1:$2" in
    C17:*) return 0;;
    *:thorough) return 0;;
  esac
  return 1
}

if [ "${1:-}" = "build" ]; then
  build_plain && build_race
  exit $?
fi

PROP="${1:?property id}"
MODE="${2:-${VERIF_TIER:-quick}}"
if [ "$MODE" = "--replay" ]; then
  FILE="${3:?replay file}"
  build_plain || { echo "INCONCLUSIVE property=$PROP reason=build-failed"; exit 2; }
  RB=""
  if [ "$PROP" = "C17" ]; then build_race || { echo "INCONCLUSIVE property=$PROP reason=race-build-failed"; exit 2; }; RB="-racebin $BIN/verifcheck-race"; fi
  exec "$BIN/verifcheck" replay -file "$FILE" $RB
fi
TIER="$MODE"   # an explicit mode on the command line wins over VERIF_TIER
build_plain || { echo "INCONCLUSIVE property=$PROP reason=build-failed (the harness no longer compiles against /repo)"; exit 2; }
RB=""
if needs_race "$PROP" "$TIER"; then
  build_race || { echo "INCONCLUSIVE property=$PROP reason=race-build-failed"; exit 2; }
  RB="-racebin $BIN/verifcheck-race"
fi
exec "$BIN/verifcheck" run -prop "$PROP" -tier "$TIER" $RB
