package ref

import "math"

// Approx is an expected numeric result with a per-element absolute tolerance
// (nil Tol = exact comparison).
type Approx struct {
	T   *T
	Tol []float64
}

// Unit roundoff of a float type.
func unitRoundoff(dt DType) float64 {
	if dt == F64 {
		return 0x1p-53
	}
	return 0x1p-24
}

func smallestNormal(dt DType) float64 {
	if dt == F64 {
		return 0x1p-1022
	}
	return 0x1p-126
}

// dotTol is the sound forward error bound for a K-term dot product evaluated in
// any order in precision dt, doubled (see DESIGN §2.4.3).
func dotTol(dt DType, k int, absSum float64) float64 {
	f := 2.0
	if dt == F64 {
		f = 4.0 // the float64 reference carries the same error itself
	}
	return f*float64(k+4)*unitRoundoff(dt)*absSum + smallestNormal(dt)
}

// MatMul implements numpy.matmul (Appendix A.2). Float types yield tolerances;
// integer types are computed exactly modulo 2^width.
func MatMul(a, b *T) (*Approx, error) {
	if a.DT != b.DT {
		return nil, invalid("matmul operand types differ")
	}
	if a.Rank() == 0 || b.Rank() == 0 {
		return nil, invalid("matmul of a scalar")
	}
	as, bs := append([]int{}, a.Shape...), append([]int{}, b.Shape...)
	promA, promB := false, false
	if len(as) == 1 {
		as = []int{1, as[0]}
		promA = true
	}
	if len(bs) == 1 {
		bs = []int{bs[0], 1}
		promB = true
	}
	m, k := as[len(as)-2], as[len(as)-1]
	k2, n := bs[len(bs)-2], bs[len(bs)-1]
	if k != k2 {
		return nil, invalid("matmul inner dims %d vs %d", k, k2)
	}
	batch, err := BroadcastShape(as[:len(as)-2], bs[:len(bs)-2])
	if err != nil {
		return nil, err
	}
	full := append(append([]int{}, batch...), m, n)
	out := New(a.DT, full...)
	var tol []float64
	if a.DT.IsFloat() {
		tol = make([]float64, len(out.Bits))
	}
	nb := NumElems(batch)
	for bi := 0; bi < nb; bi++ {
		ai := SrcIndex(bi, batch, as[:len(as)-2]) * m * k
		bj := SrcIndex(bi, batch, bs[:len(bs)-2]) * k * n
		for i := 0; i < m; i++ {
			for j := 0; j < n; j++ {
				o := (bi*m+i)*n + j
				if a.DT.IsFloat() {
					acc, abs := 0.0, 0.0
					for p := 0; p < k; p++ {
						v := a.F(ai+i*k+p) * b.F(bj+p*n+j)
						acc += v
						abs += math.Abs(v)
					}
					out.Bits[o] = EncF(a.DT, acc)
					tol[o] = dotTol(a.DT, k, abs)
				} else {
					var acc uint64
					for p := 0; p < k; p++ {
						acc += a.Bits[ai+i*k+p] * b.Bits[bj+p*n+j]
					}
					out.Bits[o] = Wrap(a.DT, acc)
				}
			}
		}
	}
	// demote promoted axes
	final := append([]int{}, batch...)
	if !promA {
		final = append(final, m)
	}
	if !promB {
		final = append(final, n)
	}
	out.Shape = final
	return &Approx{T: out, Tol: tol}, nil
}

// Gemm implements Y = alpha*op(A)*op(B) + beta*C (Appendix A.3); c may be nil.
func Gemm(a, b, c *T, alpha, beta float64, transA, transB bool) (*Approx, error) {
	if a.Rank() != 2 || b.Rank() != 2 {
		return nil, invalid("gemm needs rank-2 operands")
	}
	if a.DT != b.DT || (c != nil && c.DT != a.DT) {
		return nil, invalid("gemm operand types differ")
	}
	m, k := a.Shape[0], a.Shape[1]
	if transA {
		m, k = k, m
	}
	k2, n := b.Shape[0], b.Shape[1]
	if transB {
		k2, n = n, k2
	}
	if k != k2 {
		return nil, invalid("gemm inner dims %d vs %d", k, k2)
	}
	if c != nil && !UniBroadcastable([]int{m, n}, c.Shape) {
		return nil, invalid("gemm C %v not broadcastable to (%d,%d)", c.Shape, m, n)
	}
	at := func(i, p int) int {
		if transA {
			return p*a.Shape[1] + i
		}
		return i*a.Shape[1] + p
	}
	bt := func(p, j int) int {
		if transB {
			return j*b.Shape[1] + p
		}
		return p*b.Shape[1] + j
	}
	out := New(a.DT, m, n)
	tol := make([]float64, m*n)
	u := unitRoundoff(a.DT)
	for i := 0; i < m; i++ {
		for j := 0; j < n; j++ {
			acc, abs := 0.0, 0.0
			for p := 0; p < k; p++ {
				v := a.F(at(i, p)) * b.F(bt(p, j))
				acc += v
				abs += math.Abs(v)
			}
			y := alpha * acc
			t := math.Abs(alpha)*dotTol(a.DT, k, abs) + 8*u*math.Abs(y)
			if c != nil {
				cv := beta * c.F(SrcIndex(i*n+j, []int{m, n}, c.Shape))
				y += cv
				t += 8 * u * (math.Abs(cv) + math.Abs(y))
			}
			out.Bits[i*n+j] = EncF(a.DT, y)
			tol[i*n+j] = t
		}
	}
	return &Approx{T: out, Tol: tol}, nil
}

// LinearRegressor implements the ONNX-ML formula (Appendix A.4). x has shape
// [N, C] (or [C], treated as one sample); the result is float32.
func LinearRegressor(x *T, coef, icpt []float64, targets int) (*Approx, error) {
	if targets < 1 {
		return nil, invalid("targets < 1")
	}
	if x.Rank() < 1 || x.Rank() > 2 {
		return nil, invalid("linear regressor input rank %d", x.Rank())
	}
	c := x.Shape[x.Rank()-1]
	n := 1
	if x.Rank() == 2 {
		n = x.Shape[0]
	}
	if len(coef) != targets*c {
		return nil, invalid("coefficients length %d != targets*features %d", len(coef), targets*c)
	}
	if icpt != nil && len(icpt) != targets && len(icpt) != 1 {
		return nil, invalid("intercepts length %d", len(icpt))
	}
	shape := []int{n, targets}
	out := New(F32, shape...)
	tol := make([]float64, n*targets)
	for i := 0; i < n; i++ {
		for t := 0; t < targets; t++ {
			acc, abs := 0.0, 0.0
			for p := 0; p < c; p++ {
				v := x.F(i*c+p) * coef[t*c+p]
				acc += v
				abs += math.Abs(v)
			}
			b := 0.0
			if icpt != nil {
				b = icpt[t%len(icpt)]
			}
			y := acc + b
			out.Bits[i*targets+t] = EncF(F32, y)
			tol[i*targets+t] = dotTol(F32, c, abs) + 8*0x1p-24*(math.Abs(b)+math.Abs(y))
		}
	}
	return &Approx{T: out, Tol: tol}, nil
}

// Scaler implements Y = (X - offset) * scale over the last axis (length C or 1).
func Scaler(x *T, offset, scale []float64) (*Approx, error) {
	if x.Rank() < 1 {
		return nil, invalid("scaler on a scalar")
	}
	c := x.Shape[x.Rank()-1]
	if (len(offset) != c && len(offset) != 1) || (len(scale) != c && len(scale) != 1) {
		return nil, invalid("scaler offset/scale length %d/%d for %d features", len(offset), len(scale), c)
	}
	out := New(F32, x.Shape...)
	tol := make([]float64, len(out.Bits))
	for i := range out.Bits {
		o := offset[(i%c)%len(offset)]
		s := scale[(i%c)%len(scale)]
		d := x.F(i) - o
		y := d * s
		out.Bits[i] = EncF(F32, y)
		tol[i] = 4*0x1p-24*(math.Abs(d)*math.Abs(s)+math.Abs(y)) + 0x1p-126
	}
	return &Approx{T: out, Tol: tol}, nil
}
