package props

import (
	"archive/zip"
	"bytes"
	"errors"
	"fmt"
	"hash/crc32"
	"math"
	"os"
	"path/filepath"
	"sort"
	"strings"

	"github.com/advancedclimatesystems/gonnx"
	"github.com/advancedclimatesystems/gonnx/onnx"
	"github.com/advancedclimatesystems/gonnx/ops"
	"google.golang.org/protobuf/proto"
	"gorgonia.org/tensor"

	"verif/harness/gen"
	"verif/harness/mon"
	"verif/harness/ref"
)

// C18 — loading never crashes; unsupported opsets/operators are refused with an error.

func c18SmallSeeds() [][]byte {
	s := sampleModels()
	return [][]byte{s[0].Bytes, s[1].Bytes, s[2].Bytes}
}

func c18Truncations() int {
	n := 0
	for _, b := range c18SmallSeeds() {
		n += len(b) + 1
	}
	return n
}

func init() {
	Register(&Property{
		ID:    "C18",
		Title: "Loading never crashes; unsupported opsets/operators are refused with an error",
		Cases: func(tier string) int {
			switch tier {
			case "thorough":
				return c18Truncations() + 1000000
			case "race":
				return c18Truncations() + 20000
			}
			return c18Truncations() + 60000
		},
		Run:            c18Run,
		Floor:          func(tier string) int { return 10000 },
		MemCapMiB:      6144,
		Rule:           "(once per run, in a child process: messages nested 100 .. 3 000 000 levels deep must be refused, not kill the process; 30% of the opset lists sit next to a model-local function with opset imports of its own) (initializer perturbations are applied one to three at a time and include data_location / external_data / segment; foreign nodes also name inputs for which no tensor exists yet) byte strings handed to NewModelFromBytes: truncation of mlp.onnx, gru.onnx and scaler.onnx at every offset (complete), then generated cases: single- and multi-byte flips, inserted/deleted ranges, varint inflation of length prefixes, random strings of length 0..512, over the sample models (ndm.onnx sampled) and freshly generated models; structured mutations through the protobuf API: every field of an initializer perturbed (dims negative / 0 / huge / wrong count, every data_type code, raw_data shortened/extended, typed fields populated inconsistently), value-infos without type / shape / dims, missing graph, nil entries. Every 16th byte string is also loaded through NewModelFromFile and NewModelFromZipFile, which must agree with NewModelFromBytes. Oracle: (model, nil) or (nil, error); a panic, a process-fatal error (seen by the supervisor through the write-ahead case log), a hang or a nil model without error is a violation. Opset lists over versions {-1,0,1,7,12,13,14,21,2^31,MaxInt64,MinInt64, 13+2^8, 13+2^16, 13+k*2^32, random 64-bit values} and several domains: loads iff the highest version is 13, else ErrUnsupportedOpsetVersion. Foreign operator types (placed first / in the middle / last / as a dead node; with named outputs, no outputs or only omitted outputs; with absent or skipped inputs): Run fails with ErrUnsupportedOperator, no outputs, and the proxy shows no apply for that node or any later one. Non-trivial = every mutated byte string / list (distinct by content hash).",
		RaceInThorough: true,
		Technique:      "runtime monitoring: robustness oracle over hostile byte strings with recover() in-process and child-process isolation (write-ahead case log, memory cap, watchdog) for process-fatal failures; errors.Is classification; proxy trace check for foreign operators",
		Assumptions:    []string{"'highest imported opset version' is taken over all imports of the model, whatever their domain (as the statement says)"},
	})
}

func c18Run(c *Ctx) {
	if c.Idx == 0 {
		c18DeepNesting(c)
	}
	seeds := c18SmallSeeds()
	idx := c.Idx
	for _, b := range seeds {
		if idx <= len(b) {
			c.SetCase("truncation of a %d-byte sample model at offset %d", len(b), idx)
			c.Nontrivial(fmt.Sprintf("trunc|%d|%d", len(b), idx))
			c.Count("kind:truncation", 1)
			c18Load(c, b[:idx], true)
			return
		}
		idx -= len(b) + 1
	}
	r := c.R
	switch r.Intn(10) {
	case 0, 1, 2, 3:
		c18ByteMutation(c)
	case 4, 5:
		c18Structured(c)
	case 6:
		b := make([]byte, r.Range(0, 512))
		for i := range b {
			b[i] = byte(r.U64())
		}
		if r.Chance(0.3) { // plausible protobuf prefix
			copy(b, []byte{0x08, 0x07, 0x3a})
		}
		c.SetCase("random byte string of length %d", len(b))
		c.Nontrivial(fmt.Sprintf("rand|%x", gen.HashStr(string(b))))
		c.Count("kind:random-bytes", 1)
		c18Load(c, b, true)
	case 7, 8:
		c18Opsets(c)
	default:
		name := foreignNames[r.Intn(len(foreignNames))]
		c.SetCase("graph with foreign operator type %q", name)
		c.Nontrivial("foreign-op|" + name)
		c.Count("kind:foreign-operator", 1)
		c15ForeignModel(c, name)
	}
}

// c18Load is the robustness oracle for one byte string.
func c18Load(c *Ctx, b []byte, mayLoad bool) (loaded *gonnx.Model) {
	var m *gonnx.Model
	o := mon.Capture(nil, func() ([]tensor.Tensor, error) {
		var err error
		m, err = gonnx.NewModelFromBytes(b)
		return nil, err
	})
	c.Eval(1)
	if c.Idx%16 == 5 {
		c18OtherLoaders(c, b, o)
	}
	switch {
	case o.Kind == mon.Panic:
		c.Violation("load:panic", "NewModelFromBytes panicked on %d bytes: %s", len(b), o.Describe())
	case o.Kind == mon.Error && m != nil:
		c.Violation("load:model-and-error", "both a model and an error were returned: %v", o.Err)
	case o.Kind != mon.Error && m == nil:
		c.Violation("load:nil-model-without-error", "nil model and nil error for %d bytes", len(b))
	case o.Kind == mon.Error:
		c.Count("load:refused", 1)
	default:
		c.Count("load:accepted", 1)
		// the introspection methods of a loaded model must be callable
		io := mon.Capture(nil, func() ([]tensor.Tensor, error) {
			_ = m.InputNames()
			_ = m.InputShapes()
			_ = m.OutputNames()
			_ = m.OutputShapes()
			_ = m.ParamNames()
			return nil, nil
		})
		if io.Kind == mon.Panic {
			c.Count("diag:introspection-panics-on-a-loaded-model", 1)
			c.Logf("diagnostic: introspection panicked: %s", io.Describe())
		}
		return m
	}
	return nil
}

func c18Seed(c *Ctx) ([]byte, string) {
	r := c.R
	switch r.Intn(6) {
	case 0, 1, 2:
		s := sampleModels()[r.Intn(3)]
		return s.Bytes, s.Name
	case 3:
		if c.Tier != "race" {
			s := sampleModels()[3]
			return s.Bytes, s.Name
		}
		fallthrough
	default:
		p := genProgram(r, 5)
		return p.Graph(p.declaredOutputs()).Bytes(), "generated"
	}
}

func c18ByteMutation(c *Ctx) {
	r := c.R
	seed, name := c18Seed(c)
	b := append([]byte{}, seed...)
	if len(b) == 0 {
		c.Skip("empty seed")
		return
	}
	kind := r.PickStr("flip1", "flipN", "truncate", "delete-range", "insert-range", "varint-inflate", "duplicate-range", "set-ff")
	// large seeds: concentrate on the structured head and tail
	pos := func() int {
		if len(b) > 4096 && r.Chance(0.7) {
			if r.Bool() {
				return r.Intn(2048)
			}
			return len(b) - 1 - r.Intn(2048)
		}
		return r.Intn(len(b))
	}
	switch kind {
	case "flip1":
		b[pos()] ^= byte(1 << uint(r.Intn(8)))
	case "flipN":
		for i := r.Range(2, 8); i > 0; i-- {
			b[pos()] = byte(r.U64())
		}
	case "truncate":
		b = b[:pos()]
	case "delete-range":
		p := pos()
		n := r.Range(1, 16)
		if p+n > len(b) {
			n = len(b) - p
		}
		b = append(b[:p], b[p+n:]...)
	case "insert-range":
		p := pos()
		ins := make([]byte, r.Range(1, 16))
		for i := range ins {
			ins[i] = byte(r.U64())
		}
		b = append(b[:p], append(ins, b[p:]...)...)
	case "varint-inflate":
		// turn a byte into the start of a long varint (length prefixes become huge)
		p := pos()
		b[p] |= 0x80
		if p+1 < len(b) {
			b[p+1] |= 0x80
		}
		if p+2 < len(b) && r.Bool() {
			b[p+2] = 0x7f
		}
	case "duplicate-range":
		p := pos()
		n := r.Range(1, 32)
		if p+n > len(b) {
			n = len(b) - p
		}
		b = append(b[:p+n], append(append([]byte{}, b[p:p+n]...), b[p+n:]...)...)
	case "set-ff":
		p := pos()
		for i := 0; i < r.Range(1, 10) && p+i < len(b); i++ {
			b[p+i] = 0xff
		}
	}
	c.SetCase("%s of %s (%d bytes -> %d bytes)", kind, name, len(seed), len(b))
	c.Nontrivial(fmt.Sprintf("%s|%x", kind, gen.HashStr(string(b))))
	c.Count("kind:byte-"+kind, 1)
	c18Load(c, b, true)
}

func c18Structured(c *Ctx) {
	r := c.R
	seed, name := c18Seed(c)
	mp := &onnx.ModelProto{}
	if err := proto.Unmarshal(seed, mp); err != nil {
		c.Skip("seed does not parse")
		return
	}
	what := ""
	g := mp.Graph
	inits := g.GetInitializer()
	switch r.Intn(12) {
	case 0:
		mp.Graph = nil
		what = "graph removed"
	case 1, 2, 3, 4, 5:
		if len(inits) == 0 {
			inits = append(inits, mon.TensorProto("w", r.Tensor(ref.F32, []int{2, 3}, gen.FillSmall, 2), r.Bool()))
			g.Initializer = inits
		}
		tp := inits[r.Intn(len(inits))]
		// one to three perturbations of the same initializer (a check that guards one field may
		// be switched off by another field)
		nPert, whats := r.PickInt(1, 1, 1, 2, 2, 3), []string{}
		for ; nPert > 0; nPert-- {
			switch r.Intn(15) {
			case 14:
				tp.Dims = [][]int64{{0, -1}, {3, 0, -7}, {0, 4, -2}, {-3, 0}, {0, 0, -1}}[r.Intn(5)]
				tp.RawData, tp.FloatData, tp.Int32Data, tp.Int64Data, tp.DoubleData, tp.Uint64Data = nil, nil, nil, nil, nil, nil
				what = "initializer without elements: a zero extent next to a negative one"
			case 11:
				tp.DataLocation = onnx.TensorProto_EXTERNAL
				what = "initializer data_location EXTERNAL"
			case 12:
				tp.ExternalData = append(tp.ExternalData, &onnx.StringStringEntryProto{Key: "location", Value: "weights.bin"}, nil)
				what = "initializer external_data entries"
			case 13:
				tp.Segment = &onnx.TensorProto_Segment{Begin: int64(r.Range(-2, 5)), End: int64(r.Range(-2, 5))}
				what = "initializer segment"
			case 10:
				for i := range tp.Dims {
					tp.Dims[i] = -tp.Dims[i]
				}
				if len(tp.Dims)%2 == 1 || r.Chance(0.3) {
					tp.Dims = append(tp.Dims, -1)
				}
				what = "initializer dims all negated (product unchanged)"
			case 0:
				if len(tp.Dims) > 0 {
					tp.Dims[r.Intn(len(tp.Dims))] = int64(-r.Range(1, 5))
				} else {
					tp.Dims = []int64{-1}
				}
				what = "initializer dim negative"
			case 1:
				tp.Dims = append(tp.Dims, 0)
				what = "initializer extra zero dim"
			case 2:
				tp.Dims = append(tp.Dims, int64(r.PickInt(1<<20, 1<<31-1))*int64(r.PickInt(1, 1<<20)))
				what = "initializer huge dim"
			case 3:
				tp.Dims = []int64{math.MaxInt64, math.MaxInt64, 2}
				what = "initializer overflowing dims"
			case 4:
				tp.DataType = int32(r.Range(-1, 24))
				what = fmt.Sprintf("initializer data_type %d", tp.DataType)
			case 5:
				if len(tp.RawData) > 0 {
					tp.RawData = tp.RawData[:r.Intn(len(tp.RawData))]
				} else {
					tp.RawData = []byte{1, 2, 3}
				}
				what = "initializer raw_data shortened / inconsistent"
			case 6:
				tp.RawData = append(tp.RawData, byte(r.U64()), byte(r.U64()), byte(r.U64()))
				what = "initializer raw_data extended"
			case 7:
				tp.FloatData = append(tp.FloatData, 1.5)
				tp.Int64Data = append(tp.Int64Data, 7)
				what = "initializer typed fields populated inconsistently"
			case 8:
				tp.Dims = nil
				what = "initializer dims removed"
			case 9:
				tp.RawData, tp.FloatData, tp.Int32Data, tp.Int64Data, tp.DoubleData, tp.Uint64Data = nil, nil, nil, nil, nil, nil
				what = "initializer payload removed"
			}
			whats = append(whats, what)
		}
		what = strings.Join(whats, " + ")
	case 6:
		g.Initializer = append(g.Initializer, nil)
		what = "nil initializer entry"
	case 7, 8:
		vis := append(append([]*onnx.ValueInfoProto{}, g.GetInput()...), g.GetOutput()...)
		if len(vis) == 0 {
			c.Skip("no value info")
			return
		}
		vi := vis[r.Intn(len(vis))]
		switch r.Intn(5) {
		case 0:
			vi.Type = nil
			what = "value-info without type"
		case 1:
			if tt := vi.GetType().GetTensorType(); tt != nil {
				tt.Shape = nil
			}
			what = "value-info without shape"
		case 2:
			if tt := vi.GetType().GetTensorType(); tt != nil && tt.Shape != nil {
				tt.Shape.Dim = nil
			}
			what = "value-info shape without dims"
		case 3:
			if tt := vi.GetType().GetTensorType(); tt != nil && tt.Shape != nil {
				tt.Shape.Dim = append(tt.Shape.Dim, nil, &onnx.TensorShapeProto_Dimension{})
			}
			what = "value-info with nil / empty dims"
		case 4:
			vi.Type = &onnx.TypeProto{Value: &onnx.TypeProto_SequenceType{SequenceType: &onnx.TypeProto_Sequence{}}}
			what = "value-info with a non-tensor type"
		}
	case 9:
		g.Input = append(g.Input, nil)
		g.Output = append(g.Output, nil)
		what = "nil value-info entries"
	case 10:
		g.Node = append(g.Node, nil, &onnx.NodeProto{})
		what = "nil / empty node entries"
	default:
		mp.OpsetImport = append(mp.OpsetImport, nil)
		what = "nil opset entry"
	}
	b, err := proto.Marshal(mp)
	if err != nil {
		// nil entries in repeated fields cannot be marshalled: hand the proto to NewModel directly
		o := mon.Capture(nil, func() ([]tensor.Tensor, error) {
			m, err := gonnx.NewModel(mp)
			if err == nil && m == nil {
				return nil, fmt.Errorf("verif: nil model without error")
			}
			return nil, err
		})
		c.Eval(1)
		c.SetCase("structured mutation of %s: %s (NewModel on the in-memory proto)", name, what)
		c.Nontrivial("struct|" + name + "|" + what)
		c.Count("kind:structured-in-memory", 1)
		if o.Kind == mon.Panic {
			c.Violation("load:panic", "NewModel panicked (%s): %s", what, o.Describe())
		}
		return
	}
	c.SetCase("structured mutation of %s: %s", name, what)
	c.Nontrivial(fmt.Sprintf("struct|%s|%x", what, gen.HashStr(string(b))))
	c.Count("kind:structured", 1)
	c18Load(c, b, true)
}

var opsetVersions = []int64{-1, 0, 1, 7, 12, 13, 14, 21, 1 << 31, math.MaxInt64, math.MinInt64,
	13 + 1<<8, 13 + 1<<16, 13 + 1<<32, 13 - 1<<32, 13 + 1<<62, 13 + 3<<32, -13, 1<<32 + 12}

func c18Opsets(c *Ctx) {
	r := c.R
	n := r.PickInt(0, 1, 1, 2, 3, 4)
	var ops_ []*onnx.OperatorSetIdProto
	max := int64(0)
	desc := ""
	for i := 0; i < n; i++ {
		v := opsetVersions[r.Intn(len(opsetVersions))]
		if r.Chance(0.3) {
			v = 13
		} else if r.Chance(0.2) { // versions that equal 13 after a narrowing conversion, and arbitrary ones
			v = 13 + int64(r.Range(1, 4000))<<uint(r.PickInt(8, 16, 32, 40))
			if r.Bool() {
				v = int64(r.U64())
			}
		}
		d := r.PickStr("", "", "ai.onnx", "ai.onnx.ml", "com.microsoft")
		ops_ = append(ops_, &onnx.OperatorSetIdProto{Domain: d, Version: v})
		if v > max {
			max = v
		}
		desc += fmt.Sprintf("(%q,%d)", d, v)
	}
	x := r.Tensor(ref.F32, []int{2}, gen.FillSmall, 2)
	g := &mon.Graph{Inputs: []mon.GInput{{Name: "x", DT: ref.F32, Dims: mon.FixedDims(x.Shape)}}, Nodes: []mon.GNode{{Op: "Relu", Inputs: []string{"x"}, Outputs: []string{"y"}}}, Outputs: []mon.GInput{{Name: "y", NoType: true}}, Opsets: ops_}
	if ops_ == nil {
		g.Opsets = []*onnx.OperatorSetIdProto{}
	}
	c.SetCase("opset imports [%s] (highest %d)", desc, max)
	c.Nontrivial("opset|" + desc)
	c.Count("kind:opset-list", 1)
	modelBytes := g.Bytes()
	if r.Chance(0.3) {
		// a model-local function carries opset imports of its own (for its body): they say nothing about
		// the operator set the graph's nodes are bound to, which is what decides whether the model loads
		mp := g.Proto()
		fv := []int64{13, 13, 12, 1, 14}[r.Intn(5)]
		mp.Functions = append(mp.Functions, &onnx.FunctionProto{Name: "f", Input: []string{"a"}, Output: []string{"b"}, OpsetImport: []*onnx.OperatorSetIdProto{{Version: fv}}})
		if b, err := proto.Marshal(mp); err == nil {
			modelBytes = b
			desc += fmt.Sprintf(" + a function importing %d", fv)
			c.SetCase("opset imports [%s] (highest of the model %d)", desc, max)
			c.Count("opset-lists-next-to-a-function-with-its-own-imports", 1)
		}
	}
	var m *gonnx.Model
	o := mon.Capture(nil, func() ([]tensor.Tensor, error) {
		var err error
		m, err = gonnx.NewModelFromBytes(modelBytes)
		return nil, err
	})
	c.Eval(1)
	switch {
	case o.Kind == mon.Panic:
		c.Violation("load:panic", "%s", o.Describe())
	case max == 13 && o.Kind == mon.Error:
		c.Violation("opset:supported-version-refused", "imports [%s]: %v", desc, o.Err)
	case max == 13 && m == nil:
		c.Violation("load:nil-model-without-error", "imports [%s]", desc)
	case max != 13 && o.Kind != mon.Error:
		c.Violation("opset:unsupported-version-loaded", "imports [%s] (highest %d) loaded", desc, max)
	case max != 13 && !errors.Is(o.Err, ops.ErrUnsupportedOpsetVersion):
		c.Violation("opset:wrong-error", "imports [%s]: %v is not ErrUnsupportedOpsetVersion", desc, o.Err)
	}
	// the resolver itself
	for _, v := range []int64{max, 13, 12, 14, 13 + 1<<32, 13 + int64(r.Range(1, 1000))<<32, 13 - 1<<32} {
		get, err := gonnx.ResolveOperatorGetter(v)
		if (v == 13) != (err == nil) || (err == nil && get == nil) || (err != nil && !errors.Is(err, ops.ErrUnsupportedOpsetVersion)) {
			c.Violation("opset:resolver", "ResolveOperatorGetter(%d) = %v, %v", v, get != nil, err)
		}
	}
}

// c18OtherLoaders: NewModelFromFile and NewModelFromZipFile must behave like
// NewModelFromBytes on the same content (model or error, never a panic).
func c18OtherLoaders(c *Ctx, b []byte, ref mon.Outcome) {
	dir := os.Getenv("VERIF_DIR")
	if dir == "" {
		dir = "/verif"
	}
	path := filepath.Join(dir, ".work", fmt.Sprintf("c18-%d-%d.onnx", os.Getpid(), c.Idx))
	if err := os.WriteFile(path, b, 0o644); err != nil {
		return
	}
	defer os.Remove(path)
	check := func(what string, fn func() (*gonnx.Model, error)) {
		var m *gonnx.Model
		o := mon.Capture(nil, func() ([]tensor.Tensor, error) {
			var err error
			m, err = fn()
			return nil, err
		})
		c.Eval(1)
		c.Count("loader:"+what, 1)
		switch {
		case o.Kind == mon.Panic:
			c.Violation("load:panic", "%s panicked on %d bytes: %s", what, len(b), o.Describe())
		case (o.Kind == mon.Error) != (ref.Kind == mon.Error) && ref.Kind != mon.Panic:
			c.Violation("load:loaders-disagree", "%s gives %v, NewModelFromBytes gives %v for the same %d bytes", what, o.Err, ref.Err, len(b))
		case o.Kind != mon.Error && m == nil:
			c.Violation("load:nil-model-without-error", "%s: nil model and nil error", what)
		}
	}
	check("NewModelFromFile", func() (*gonnx.Model, error) { return gonnx.NewModelFromFile(path) })
	// the file is replaced by other content of the same size (a retrained model, a damaged copy):
	// the path is loaded again and must give what the bytes it holds NOW give
	if len(b) > 8 {
		b2 := append([]byte{}, b...)
		b2[len(b2)-1-c.R.Intn(len(b2)/4+1)] ^= byte(1 << uint(c.R.Intn(8)))
		fpOf := func(m *gonnx.Model) uint64 {
			h := uint64(1469598103934665603)
			if m == nil {
				return h
			}
			params := m.VerifParameters()
			names := make([]string, 0, len(params))
			for n := range params {
				names = append(names, n)
			}
			sort.Strings(names)
			for _, n := range names {
				h = (h ^ gen.HashStr(n)) * 1099511628211
				h = (h ^ mon.Fp(params[n]).Hash) * 1099511628211
			}
			return h
		}
		var mb, mf *gonnx.Model
		ob := mon.Capture(nil, func() ([]tensor.Tensor, error) { var err error; mb, err = gonnx.NewModelFromBytes(b2); return nil, err })
		if os.WriteFile(path, b2, 0o644) == nil {
			of := mon.Capture(nil, func() ([]tensor.Tensor, error) {
				var err error
				mf, err = gonnx.NewModelFromFile(path)
				return nil, err
			})
			c.Eval(2)
			c.Count("loader:NewModelFromFile(path rewritten with other bytes of the same size)", 1)
			switch {
			case of.Kind == mon.Panic:
				c.Violation("load:panic", "NewModelFromFile panicked on the rewritten file: %s", of.Describe())
			case ob.Kind != mon.Panic && (of.Kind == mon.Error) != (ob.Kind == mon.Error):
				c.Violation("load:loaders-disagree", "after the file was rewritten with other bytes of the same size NewModelFromFile gives %v, NewModelFromBytes gives %v for those bytes", of.Err, ob.Err)
			case of.Kind == mon.Value && ob.Kind == mon.Value && fpOf(mf) != fpOf(mb):
				c.Violation("load:loaders-disagree", "after the file was rewritten with other bytes of the same size the model loaded from the path holds other weights than the model loaded from those bytes")
			}
		}
	}
	var buf bytes.Buffer
	zw := zip.NewWriter(&buf)
	w, err := zw.Create("model.onnx")
	if err != nil {
		return
	}
	_, _ = w.Write(b)
	if zw.Close() != nil {
		return
	}
	zr, err := zip.NewReader(bytes.NewReader(buf.Bytes()), int64(buf.Len()))
	if err != nil || len(zr.File) != 1 {
		return
	}
	check("NewModelFromZipFile", func() (*gonnx.Model, error) { return gonnx.NewModelFromZipFile(zr.File[0]) })
	// a zip entry whose header lies about the uncompressed size (attacker-controlled field)
	for _, declared := range []uint64{1 << 50, 1 << 62, math.MaxUint64, 0, uint64(len(b)) + 1} {
		var lb bytes.Buffer
		lw := zip.NewWriter(&lb)
		fw, err := lw.CreateRaw(&zip.FileHeader{Name: "model.onnx", Method: zip.Store, CompressedSize64: uint64(len(b)), UncompressedSize64: declared, CRC32: crc32.ChecksumIEEE(b)})
		if err != nil {
			continue
		}
		_, _ = fw.Write(b)
		if lw.Close() != nil {
			continue
		}
		lr, err := zip.NewReader(bytes.NewReader(lb.Bytes()), int64(lb.Len()))
		if err != nil || len(lr.File) != 1 {
			continue
		}
		var m *gonnx.Model
		o := mon.Capture(nil, func() ([]tensor.Tensor, error) {
			var err error
			m, err = gonnx.NewModelFromZipFile(lr.File[0])
			return nil, err
		})
		c.Eval(1)
		c.Count("loader:NewModelFromZipFile(lying size header)", 1)
		if o.Kind == mon.Panic {
			c.Violation("load:panic", "NewModelFromZipFile panicked on an entry that declares %d uncompressed bytes: %s", declared, o.Describe())
		} else if o.Kind != mon.Error && m == nil {
			c.Violation("load:nil-model-without-error", "NewModelFromZipFile: nil model and nil error")
		}
	}
	// an entry whose bytes no longer match the checksum the archive recorded for it (one bit of a
	// stored entry flipped): the archive says the data is damaged, the loader must not hand out a model
	if len(b) > 8 {
		damaged := append([]byte{}, b...)
		damaged[len(damaged)-1-c.R.Intn(len(damaged)/4+1)] ^= byte(1 << uint(c.R.Intn(8)))
		var lb bytes.Buffer
		lw := zip.NewWriter(&lb)
		if fw, err := lw.CreateRaw(&zip.FileHeader{Name: "model.onnx", Method: zip.Store, CompressedSize64: uint64(len(b)), UncompressedSize64: uint64(len(b)), CRC32: crc32.ChecksumIEEE(b)}); err == nil {
			_, _ = fw.Write(damaged)
			if lw.Close() == nil {
				if lr, err := zip.NewReader(bytes.NewReader(lb.Bytes()), int64(lb.Len())); err == nil && len(lr.File) == 1 {
					var m *gonnx.Model
					o := mon.Capture(nil, func() ([]tensor.Tensor, error) {
						var err error
						m, err = gonnx.NewModelFromZipFile(lr.File[0])
						return nil, err
					})
					c.Eval(1)
					c.Count("loader:NewModelFromZipFile(entry with a checksum mismatch)", 1)
					switch {
					case o.Kind == mon.Panic:
						c.Violation("load:panic", "NewModelFromZipFile panicked on an entry with a checksum mismatch: %s", o.Describe())
					case o.Kind != mon.Error:
						c.Violation("load:damaged-zip-entry-loaded", "NewModelFromZipFile returned a model (nil: %v) for an entry whose bytes do not match the recorded CRC-32", m == nil)
					}
				}
			}
		}
	}
	// entries that cannot even be opened: a compression method archive/zip does not know, a
	// local file header that is damaged
	for variant := 0; variant < 3; variant++ {
		var lb bytes.Buffer
		lw := zip.NewWriter(&lb)
		method := uint16(zip.Store)
		if variant == 0 {
			method = uint16(c.R.PickInt(99, 12, 14, 0xffff))
		}
		fw, err := lw.CreateRaw(&zip.FileHeader{Name: "model.onnx", Method: method, CompressedSize64: uint64(len(b)), UncompressedSize64: uint64(len(b)), CRC32: crc32.ChecksumIEEE(b)})
		if err != nil {
			continue
		}
		_, _ = fw.Write(b)
		if lw.Close() != nil {
			continue
		}
		arch := lb.Bytes()
		if variant == 1 && len(arch) > 4 { // local file header signature destroyed
			arch[0], arch[1] = 'X', 'Y'
		}
		if variant == 2 && len(arch) > 30 { // local header: name length field inflated
			arch[26], arch[27] = 0xff, 0xff
		}
		lr, err := zip.NewReader(bytes.NewReader(arch), int64(len(arch)))
		if err != nil || len(lr.File) != 1 {
			continue
		}
		var m *gonnx.Model
		o := mon.Capture(nil, func() ([]tensor.Tensor, error) {
			var err error
			m, err = gonnx.NewModelFromZipFile(lr.File[0])
			return nil, err
		})
		c.Eval(1)
		c.Count("loader:NewModelFromZipFile(entry that cannot be opened)", 1)
		if o.Kind == mon.Panic {
			c.Violation("load:panic", "NewModelFromZipFile panicked on an entry that cannot be opened (variant %d, method %d): %s", variant, method, o.Describe())
		} else if o.Kind != mon.Error && m == nil {
			c.Violation("load:nil-model-without-error", "NewModelFromZipFile: nil model and nil error")
		}
	}
	if c.Idx%160 == 5 {
		o := mon.Capture(nil, func() ([]tensor.Tensor, error) {
			m, err := gonnx.NewModelFromFile(path + ".does-not-exist")
			if err == nil || m != nil {
				return nil, fmt.Errorf("verif: a missing file loaded")
			}
			return nil, nil
		})
		if o.Kind != mon.Value {
			c.Violation("load:missing-file", "NewModelFromFile on a missing file: %s", o.Describe())
		}
	}
}
