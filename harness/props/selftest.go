package props

// SelfTest cross-checks the reference model and the monitors on hand-computed
// cases before every run; a failure makes the check inconclusive.
func SelfTest() error {
	for _, f := range selfTests {
		if err := f(); err != nil {
			return err
		}
	}
	return nil
}

var selfTests []func() error
