#!/usr/bin/env python3
"""saveround.py <out-root> <letterA> <letterB> <round label> <pre.log> <now.log> [Cxx/V=checkid ...] [drop:Cxx/V=reason-file ...]
Files the deliverables of a two-change round (out-root/Cxx/{A,B}) as seeded/Cxx-<letter>/ with a meta.json.
pre.log / now.log are outputs of tools/seedround.sh with the suite as it was before the round / as it is now.
Cxx/V=checkid names the check that catches a change when that is not the targeted one."""
import json, os, re, shutil, subprocess, sys
root, la, lb, label, pre, now = sys.argv[1:7]
over, drops = {}, {}
for a in sys.argv[7:]:
    if a.startswith('drop:'):
        k, v = a[5:].split('=', 1); drops[k] = v
    else:
        k, v = a.split('=', 1); over[k] = v
def parse(path):
    d = {}
    for line in open(path):
        m = re.match(r'(C\d\d)/([AB]) before=(\w+) suite=(\w+) with=(\w+) apply=(\w+) check=(\d*)', line)
        if m: d[m.group(1) + '/' + m.group(2)] = m.groups()[2:]
    return d
P, N = parse(pre), parse(now)
base = subprocess.check_output(['git', '-C', '/repo', 'rev-parse', '--short', 'HEAD'], text=True).strip()
for key in sorted(P):
    prop, v = key.split('/')
    src = os.path.join(root, prop, v)
    notes = open(os.path.join(src, 'notes.md')).read() if os.path.exists(os.path.join(src, 'notes.md')) else ''
    head = notes.strip().splitlines()[0].lstrip('# ').strip() if notes.strip() else ''
    head = re.sub(r'^C\d\d\s*[/ ]?\s*(change\s*)?[AB]\s*[:\-—]*\s*', '', head, flags=re.I)
    m = re.search(r'(Needed to manifest|What it needs to manifest|What it needs|Needs|What is needed to see it)[^:]*:\s*(.+?)(\n\s*\n|\nCommands|\Z)', notes, flags=re.S | re.I)
    needs = re.sub(r'\s+', ' ', m.group(2)).strip()[:600] if m else ''
    letter = la if v == 'A' else lb
    sid = f'{prop}-{letter}'
    before, suite, withc, apply_, chk = P[key]
    confirmed = {'how': f'tools/seedtest.sh {prop} seeded/{sid}', 'suite_passes_with_change': suite == 'ok',
                 'demo_fails_with_change': withc == 'FAIL', 'demo_passes_without_change': before == 'pass'}
    if key in drops:
        dst = os.path.join('/verif/seeded/_dropped', sid)
        meta = {'id': sid, 'property': prop, 'status': 'not kept', 'change': head, 'needs_to_manifest': needs, 'why_dropped': open(drops[key]).read().strip()}
    else:
        if not all(confirmed.values()):
            print('NOT CONFIRMED, skipped:', key, confirmed); continue
        caught = over.get(key, prop if N.get(key, ('',) * 5)[4] == '1' else None)
        if caught is None:
            print('NOT CAUGHT, skipped:', key); continue
        dst = os.path.join('/verif/seeded', sid)
        meta = {'id': sid, 'property': prop, 'origin': label, 'change': head, 'needs_to_manifest': needs, 'confirmed': confirmed,
                'caught_by_quick_checks': [caught], 'initially_missed': chk != '1', 'base_commit': base}
    os.makedirs(dst, exist_ok=True)
    for f in ('patch.diff', 'demo_test.go', 'notes.md'):
        if os.path.exists(os.path.join(src, f)): shutil.copy(os.path.join(src, f), os.path.join(dst, f))
    json.dump(meta, open(os.path.join(dst, 'meta.json'), 'w'), indent=1)
    print(sid, '->', dst, 'missed at first' if chk != '1' else 'caught at first', meta.get('caught_by_quick_checks', 'dropped'))
