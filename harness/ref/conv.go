package ref

import "math"

// ConvAttrs are the Conv attributes (nil slices = defaults).
type ConvAttrs struct {
	AutoPad     string // "", "NOTSET", "SAME_UPPER", "SAME_LOWER", "VALID"
	Dilations   []int
	KernelShape []int
	Pads        []int
	Strides     []int
	Group       int // 0 = default (1)
}

// ConvGeometry resolves defaults and computes pads-begin, pads-end and output
// extents per spatial axis (Appendix A.5).
func ConvGeometry(xs, ws []int, at ConvAttrs) (pb, pe, outExt, strides, dil []int, err error) {
	n := len(xs) - 2
	if n < 1 || len(ws) != len(xs) {
		return nil, nil, nil, nil, nil, invalid("conv ranks x=%v w=%v", xs, ws)
	}
	if ws[1] != xs[1] {
		return nil, nil, nil, nil, nil, invalid("conv kernel channels %d != input channels %d", ws[1], xs[1])
	}
	dil = make([]int, n)
	strides = make([]int, n)
	for i := 0; i < n; i++ {
		dil[i], strides[i] = 1, 1
	}
	if len(at.Dilations) > 0 {
		if len(at.Dilations) != n {
			return nil, nil, nil, nil, nil, invalid("dilations length")
		}
		copy(dil, at.Dilations)
	}
	if len(at.Strides) > 0 {
		if len(at.Strides) != n {
			return nil, nil, nil, nil, nil, invalid("strides length")
		}
		copy(strides, at.Strides)
	}
	if len(at.KernelShape) > 0 {
		if !ShapeEq(at.KernelShape, ws[2:]) {
			return nil, nil, nil, nil, nil, invalid("kernel_shape %v != weight spatial shape %v", at.KernelShape, ws[2:])
		}
	}
	pb, pe, outExt = make([]int, n), make([]int, n), make([]int, n)
	mode := at.AutoPad
	if mode == "" {
		mode = "NOTSET"
	}
	if mode == "NOTSET" && len(at.Pads) > 0 {
		if len(at.Pads) != 2*n {
			return nil, nil, nil, nil, nil, invalid("pads length")
		}
		copy(pb, at.Pads[:n])
		copy(pe, at.Pads[n:])
	}
	for d := 0; d < n; d++ {
		in := xs[2+d]
		keff := (ws[2+d]-1)*dil[d] + 1
		switch mode {
		case "NOTSET", "VALID":
			if mode == "VALID" {
				pb[d], pe[d] = 0, 0
			}
			num := in + pb[d] + pe[d] - keff
			if num < 0 {
				return nil, nil, nil, nil, nil, invalid("kernel larger than padded input on axis %d", d)
			}
			outExt[d] = num/strides[d] + 1
		case "SAME_UPPER", "SAME_LOWER":
			outExt[d] = (in + strides[d] - 1) / strides[d]
			tot := (outExt[d]-1)*strides[d] + keff - in
			if tot < 0 {
				tot = 0
			}
			if mode == "SAME_UPPER" {
				pb[d] = tot / 2
				pe[d] = tot - pb[d]
			} else {
				pe[d] = tot / 2
				pb[d] = tot - pe[d]
			}
		default:
			return nil, nil, nil, nil, nil, invalid("auto_pad %q", mode)
		}
	}
	return pb, pe, outExt, strides, dil, nil
}

// ConvWithGeometry evaluates the direct convolution for given pads/strides/dilations.
func ConvWithGeometry(x, w, bias *T, pb, outExt, strides, dil []int) *Approx {
	xs, ws := x.Shape, w.Shape
	n := len(xs) - 2
	N, C, M := xs[0], xs[1], ws[0]
	oshape := append([]int{N, M}, outExt...)
	out := New(x.DT, oshape...)
	tol := make([]float64, len(out.Bits))
	nOutSp := NumElems(outExt)
	kSp := NumElems(ws[2:])
	inSp := NumElems(xs[2:])
	oc := make([]int, n)
	kc := make([]int, n)
	ic := make([]int, n)
	u := unitRoundoff(x.DT)
	for b := 0; b < N; b++ {
		for m := 0; m < M; m++ {
			for o := 0; o < nOutSp; o++ {
				Unravel(o, outExt, oc)
				acc, abs := 0.0, 0.0
				for c := 0; c < C; c++ {
					for k := 0; k < kSp; k++ {
						Unravel(k, ws[2:], kc)
						inside := true
						for d := 0; d < n; d++ {
							ic[d] = oc[d]*strides[d] + kc[d]*dil[d] - pb[d]
							if ic[d] < 0 || ic[d] >= xs[2+d] {
								inside = false
								break
							}
						}
						if !inside {
							// a padded position holds 0: weight x 0 is 0 for a finite weight and NaN
							// for an infinite or NaN weight (the sum is taken over the zero-padded input)
							if wv := w.F((m*C+c)*kSp + k); wv != wv || math.IsInf(wv, 0) {
								acc += wv * 0
							}
							continue
						}
						v := w.F((m*C+c)*kSp+k) * x.F((b*C+c)*inSp+Ravel(ic, xs[2:]))
						acc += v
						abs += math.Abs(v)
					}
				}
				t := dotTol(x.DT, C*kSp, abs)
				if bias != nil {
					bv := bias.F(m)
					acc += bv
					t += 4 * u * (math.Abs(bv) + math.Abs(acc))
				}
				oi := (b*M+m)*nOutSp + o
				out.Bits[oi] = EncF(x.DT, acc)
				tol[oi] = t
			}
		}
	}
	return &Approx{T: out, Tol: tol}
}

// Conv evaluates the ONNX Conv operator (group 1).
func Conv(x, w, bias *T, at ConvAttrs) (*Approx, error) {
	if at.Group != 0 && at.Group != 1 {
		return nil, invalid("group %d (outside the property: must be refused)", at.Group)
	}
	if x.DT != w.DT || (bias != nil && bias.DT != x.DT) {
		return nil, invalid("conv operand types differ")
	}
	pb, _, outExt, strides, dil, err := ConvGeometry(x.Shape, w.Shape, at)
	if err != nil {
		return nil, err
	}
	if bias != nil && !(bias.Rank() == 1 && bias.Shape[0] == w.Shape[0]) {
		return nil, invalid("bias shape %v for %d output channels", bias.Shape, w.Shape[0])
	}
	return ConvWithGeometry(x, w, bias, pb, outExt, strides, dil), nil
}
