//go:build verif

// probe3: how do operators treat operands that are non-contiguous views
// (lazy transposes, slices with gaps)? Observation recorded in DESIGN.md 8.6.
package main

import (
	"fmt"

	"github.com/advancedclimatesystems/gonnx/onnx"
	"github.com/advancedclimatesystems/gonnx/ops/opset13"
	"gorgonia.org/tensor"
)

func apply(name string, attrs []*onnx.AttributeProto, ins ...tensor.Tensor) string {
	op, err := opset13.GetOperator(name)
	if err != nil {
		return err.Error()
	}
	if err := op.Init(&onnx.NodeProto{OpType: name, Attribute: attrs}); err != nil {
		return "init: " + err.Error()
	}
	defer func() {
		if r := recover(); r != nil {
			fmt.Println(name, "PANIC", r)
		}
	}()
	in, err := op.ValidateInputs(ins)
	if err != nil {
		return "validate: " + err.Error()
	}
	out, err := op.Apply(in)
	if err != nil {
		return "apply: " + err.Error()
	}
	return fmt.Sprint(out[0].Shape(), " ", out[0].Data())
}

func main() {
	mk := func() *tensor.Dense {
		return tensor.New(tensor.WithShape(2, 3), tensor.WithBacking([]float32{1, -2, 3, -4, 5, -6}))
	}
	view := mk()
	_ = view.T() // lazy transpose: shape (3,2), data not moved
	mat := mk()
	_ = mat.T()
	m2 := mat.Materialize().(tensor.Tensor)
	other := tensor.New(tensor.WithShape(3, 2), tensor.WithBacking([]float32{10, 20, 30, 40, 50, 60}))
	fmt.Println("view shape", view.Shape(), "materialised", m2.Data())
	for _, name := range []string{"Relu", "Abs", "Tanh", "Sigmoid", "Neg?"} {
		if name == "Neg?" {
			continue
		}
		fmt.Println(name, "view:", apply(name, nil, view), "| materialised:", apply(name, nil, m2))
	}
	for _, name := range []string{"Add", "Mul", "Greater"} {
		fmt.Println(name, "view:", apply(name, nil, view, other), "| materialised:", apply(name, nil, m2, other))
	}
	sl, _ := mk().Slice(nil, tensor.S(0, 3, 2)) // columns 0 and 2: a view with gaps
	slm := sl.Materialize()
	fmt.Println("slice view", sl.Shape(), sl.Data(), "materialised", slm.Data())
	fmt.Println("Relu slice view:", apply("Relu", nil, sl.(tensor.Tensor)), "| materialised:", apply("Relu", nil, slm.(tensor.Tensor)))
	o22 := tensor.New(tensor.WithShape(2, 2), tensor.WithBacking([]float32{10, 20, 30, 40}))
	fmt.Println("Add slice view:", apply("Add", nil, sl.(tensor.Tensor), o22), "| materialised:", apply("Add", nil, slm.(tensor.Tensor), o22))
	w := tensor.New(tensor.WithShape(2, 2), tensor.WithBacking([]float32{1, 0, 0, 1}))
	fmt.Println("MatMul view:", apply("MatMul", nil, view, w), "| materialised:", apply("MatMul", nil, m2, w))
	fmt.Println("PRelu view:", apply("PRelu", nil, view, other), "| materialised:", apply("PRelu", nil, m2, other))
	sh := tensor.New(tensor.WithShape(1), tensor.WithBacking([]int64{6}))
	fmt.Println("Reshape view:", apply("Reshape", nil, view, sh), "| materialised:", apply("Reshape", nil, m2, sh))
}
