#!/bin/bash
# seedtest.sh <Cxx> <dir-with patch.diff,demo_test.go> [check ids...]
# 1. confirms in a scratch worktree that the suite passes with the patch, the demo fails with it and passes without it
# 2. applies the patch to /repo, runs the given quick checks (default: the property's own), reverts
set -u
export GOFLAGS=-mod=mod GOPROXY=off GOSUMDB=off GOTOOLCHAIN=local
P=$1; D=$2; shift 2
CHECKS=${@:-$P}
REPO=${REPO:-/repo}   # REPO=/tmp/ev/<k>/repo: a lane of tools/seedround_par.sh (evaluation only, never evidence)
CHECK_SH=${CHECK_SH:-/verif/check.sh}   # CHECK_SH=/root/.vp/runs/<n>/verif/check.sh: an earlier snapshot of the suite
if [ -z "${SKIPDEMO:-}" ]; then
W=/tmp/sbv/$P-$$
mkdir -p /tmp/sbv
for try in 1 2 3 4 5 6; do git -C /repo worktree add -q --detach $W HEAD 2>/dev/null && break; sleep $((RANDOM % 3 + 1)); done
[ -d $W ] || exit 3
demodir=$(grep -o 'ops/opset13\|ops\b\|onnx' $D/notes.md 2>/dev/null | head -0)
pkgline=$(grep -m1 '^package ' $D/demo_test.go | awk '{print $2}')
case "$pkgline" in
  gonnx_test|gonnx) dest=$W ;;
  opset13|opset13_test) dest=$W/ops/opset13 ;;
  ops|ops_test) dest=$W/ops ;;
  onnx|onnx_test) dest=$W/onnx ;;
  *) dest=$W ;;
esac
cp $D/demo_test.go $dest/zz_verif_demo_test.go
pkg=./$(realpath --relative-to=$W $dest)
names=$(grep -o '^func Test[A-Za-z0-9_]*' $D/demo_test.go | sed 's/func //' | paste -sd'|')
RACE=""
if [ "$P" = "C17" ]; then RACE="-race"; fi
echo "== demo WITHOUT the change (must pass): $names"
(cd $W && go test $RACE -vet=off -count=1 -run "^($names)\$" $pkg 2>&1 | grep "^--- FAIL\|^ok\|^FAIL\|DATA RACE" | head -4)
echo "== applying patch"
git -C $W apply $D/patch.diff || { echo "PATCH DOES NOT APPLY"; git -C /repo worktree remove --force $W; exit 3; }
echo "== suite WITH the change (must pass except TestOps)"
rm $dest/zz_verif_demo_test.go
(cd $W && go test -vet=off -count=1 ./... 2>&1 | grep "^--- FAIL\|^ok\|^FAIL" | grep -v "TestOps" | head -8)
cp $D/demo_test.go $dest/zz_verif_demo_test.go
echo "== demo WITH the change (must fail)"
(cd $W && go test $RACE -vet=off -count=1 -run "^($names)\$" $pkg 2>&1 | grep "^--- FAIL\|^ok\|^FAIL\|DATA RACE" | head -4)
git -C /repo worktree remove --force $W
fi
echo "== my checks on /repo with the patch"
git -C $REPO apply $D/patch.diff || { echo "PATCH DOES NOT APPLY TO /repo"; exit 3; }
for c in $CHECKS; do
  out=$($CHECK_SH $c quick 2>&1); rc=$?
  echo "check $c exit=$rc"; echo "$out" | grep -v KNOWN | grep "VIOLATION\|signature=\|SUMMARY\|INCONCLUSIVE" | cut -c1-330 | head -8
done
git -C $REPO checkout -- .
git -C $REPO status --short | head -3
