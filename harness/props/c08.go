package props

import (
	"math"

	"verif/harness/gen"
	"verif/harness/mon"
	"verif/harness/ref"
)

// C08 — Transpose, Concat, Slice, Gather, Expand.

func init() {
	Register(&Property{
		ID:    "C08",
		Title: "Transpose, Concat, Slice, Gather, Expand select exactly the ONNX-indexed data",
		Cases: func(tier string) int {
			switch tier {
			case "thorough":
				return 6000000
			case "race":
				return 50000
			}
			return 1000000
		},
		Run:            c08Run,
		Floor:          func(tier string) int { return 5000 },
		Rule:           "(Concat also with an empty input that disagrees in rank or off-axis extent: refused) generated requests: Transpose (every kind of permutation of rank 0..4; invalid perms), Concat (1..4 inputs, every axis in both spellings; mismatching extents/ranks, axis out of range), Slice (starts/ends over [-dim-2, dim+2] plus INT64/INT32 extremes, positive and negative steps, axes given/defaulted/negative/unsorted, int32 and int64 index tensors; step 0, duplicate or out-of-range axes, length mismatches), Gather (every axis, index tensors of rank 0..2 with negative indices; out-of-range index/axis), Expand (targets shorter, equal, longer than the input rank; incompatible targets); unique-valued data of all 14 element types; operator API plus every 4th case through Run. Must-compute core (MUST_EQUAL): any permutation, Concat on a valid axis, Slice with in-range non-negative bounds and positive steps, Gather with in-range indices, Expand with target rank >= input rank; other valid requests MAY_REFUSE (right tensor or error); ONNX-invalid requests MUST_ERROR. Non-trivial = moves/selects data (not the identity) or invalid; distinct = (operator, dtype, shapes, parameters)." + ruleShared + ruleReused,
		RaceInThorough: true,
		Technique:      "runtime monitoring: differential execution against the reference index formulas with exact comparison over unique-valued tensors",
		Assumptions:    []string{"ONNX index formulas as written in DESIGN.md Appendix A.8"},
	})
	validGens["Transpose"] = func(r *gen.R, _ bool) (mon.OpReq, Expect, bool) { return genTranspose(r, true) }
	validGens["Concat"] = func(r *gen.R, _ bool) (mon.OpReq, Expect, bool) { return genConcat(r, true) }
	validGens["Slice"] = func(r *gen.R, _ bool) (mon.OpReq, Expect, bool) { return genSlice(r, true) }
	validGens["Gather"] = func(r *gen.R, _ bool) (mon.OpReq, Expect, bool) { return genGather(r, true) }
	validGens["Expand"] = func(r *gen.R, _ bool) (mon.OpReq, Expect, bool) { return genExpand(r, true) }
}

func c08Data(r *gen.R, minRank, maxRank int) *ref.T {
	dt := gen.Data13[r.Intn(len(gen.Data13))]
	if r.Chance(0.5) {
		dt = r.PickDT(ref.F32, ref.F32, ref.I64, ref.F64, ref.I32)
	}
	return r.Tensor(dt, r.Shape(minRank, maxRank, 5, 150), gen.FillUnique, 0)
}

func expCore(t *ref.T, err error, core bool) Expect {
	if err != nil {
		return Expect{Kind: MustError, Why: err.Error()}
	}
	k := MayRefuse
	why := "valid request outside the must-compute core"
	if core {
		k, why = MustEqual, "valid request in the must-compute core"
	}
	return Expect{Kind: k, Want: Exact(t), Mode: CmpBits, Why: why}
}

func genTranspose(r *gen.R, validOnly bool) (mon.OpReq, Expect, bool) {
	x := c08Data(r, 0, 4)
	rank := x.Rank()
	req := mon.OpReq{Op: "Transpose", Inputs: []*ref.T{x}}
	if !validOnly && r.Chance(0.08) { // perm absent: default reverse (outside the core)
		want, err := ref.Transpose(x, nil)
		return req, expCore(want, err, false), true
	}
	perm := make([]int64, rank)
	for i, p := range r.Perm(rank) {
		perm[i] = int64(p)
	}
	if !validOnly && r.Chance(0.2) && rank > 0 {
		switch r.Intn(3) {
		case 0:
			perm[r.Intn(rank)] = int64(r.PickInt(rank, -1, rank+2))
		case 1:
			if rank > 1 {
				perm[0] = perm[1]
			} else {
				perm = append(perm, 0)
			}
		case 2:
			perm = perm[:rank-1]
		}
	}
	req.Attrs = []*mon.Attr{mon.AttrInts("perm", perm)}
	if len(perm) == 0 {
		// an empty list is indistinguishable from an absent one in protobuf: default (reverse)
		want, err := ref.Transpose(x, nil)
		return req, expCore(want, err, rank <= 1), true
	}
	want, err := ref.Transpose(x, perm)
	return req, expCore(want, err, true), true
}

func genConcat(r *gen.R, validOnly bool) (mon.OpReq, Expect, bool) {
	first := c08Data(r, 1, 4)
	rank := first.Rank()
	n := r.Range(1, 4)
	axis := r.Range(0, rank-1)
	ins := []*ref.T{first}
	for i := 1; i < n; i++ {
		shape := append([]int{}, first.Shape...)
		shape[axis] = r.Range(1, 4)
		t := r.Tensor(first.DT, shape, gen.FillUnique, 0)
		for k := range t.Bits { // keep values distinct across inputs
			if first.DT != ref.Bool && first.DT != ref.I8 && first.DT != ref.U8 {
				if first.DT.IsFloat() {
					t.Bits[k] = ref.EncF(first.DT, t.F(k)+float64(200*i))
				} else {
					t.Bits[k] = ref.Wrap(first.DT, t.Bits[k]+uint64(200*i))
				}
			}
		}
		ins = append(ins, t)
	}
	ax := axis
	if r.Bool() {
		ax = axis - rank
	}
	if !validOnly && r.Chance(0.25) {
		switch r.Intn(5) {
		case 4:
			// one input whose off-axis extents disagree with the others although they multiply to the
			// same count (two extents exchanged, or two merged into one)
			if n > 1 && rank > 2 {
				k := r.Range(1, n-1)
				shape := append([]int{}, ins[k].Shape...)
				var off []int
				for d := 0; d < rank; d++ {
					if d != axis {
						off = append(off, d)
					}
				}
				i, j := off[0], off[len(off)-1]
				if shape[i] != shape[j] && r.Bool() {
					shape[i], shape[j] = shape[j], shape[i]
				} else {
					shape[i], shape[j] = shape[i]*shape[j], 1
				}
				if !ref.ShapeEq(shape, ins[k].Shape) {
					ins[k] = r.Tensor(first.DT, shape, gen.FillUnique, 0)
				}
			}
		case 3:
			// an input without elements that ALSO disagrees with the others (another extent off
			// the axis, or another rank): no valid result, whatever the library does with empty inputs
			k := r.Intn(n + 1)
			var shape []int
			if rank > 1 && r.Bool() {
				shape = append([]int{}, first.Shape...)
				other := (axis + 1) % rank
				shape[other] = first.Shape[other] + r.Range(1, 2)
				shape[r.PickInt(axis, axis, other)] = 0
				if shape[other] == 0 && rank > 2 { // keep the disagreement: the zero extent sits on a third axis
					shape[other] = first.Shape[other] + 1
					shape[(axis+2)%rank] = 0
				}
			} else {
				shape = []int{0}
				if rank == 1 || r.Bool() {
					shape = append([]int{0}, first.Shape...)
				}
			}
			empty := ref.New(first.DT, shape...)
			ins = append(ins[:k], append([]*ref.T{empty}, ins[k:]...)...)
		case 0:
			ax = r.PickInt(rank, rank+1, -rank-1, -rank-2)
			if r.Chance(0.15) {
				ax = int(extremeAxis(r))
			}
		case 1:
			if n > 1 && rank > 1 {
				k := r.Range(1, n-1)
				other := (axis + 1) % rank
				shape := append([]int{}, ins[k].Shape...)
				shape[other]++
				ins[k] = r.Tensor(first.DT, shape, gen.FillUnique, 0)
			}
		case 2:
			if n > 1 {
				k := r.Range(1, n-1)
				ins[k] = r.Tensor(first.DT, append([]int{1}, ins[k].Shape...), gen.FillUnique, 0)
			}
		}
	}
	req := mon.OpReq{Op: "Concat", Inputs: ins, Attrs: []*mon.Attr{mon.AttrI("axis", int64(ax))}}
	want, err := ref.Concat(ins, ax)
	if err == nil {
		for _, in := range ins {
			if len(in.Bits) == 0 { // well-formed requests with empty inputs are not judged here
				return genConcat(r, true)
			}
		}
	}
	return req, expCore(want, err, true), true
}

var sliceExtremes = []int64{math.MinInt64, math.MinInt64 + 1, math.MinInt32, -1 << 31, 1<<31 - 1, math.MaxInt64 - 1, math.MaxInt64}

func genSlice(r *gen.R, validOnly bool) (mon.OpReq, Expect, bool) {
	x := c08Data(r, 1, 4)
	rank := x.Rank()
	k := r.Range(1, rank)
	axesIdx := r.Perm(rank)[:k]
	useAxes := r.Chance(0.7)
	if !useAxes { // defaulted axes are the leading ones
		for i := range axesIdx {
			axesIdx[i] = i
		}
	}
	core := true
	starts, ends, steps, axes := make([]int64, k), make([]int64, k), make([]int64, k), make([]int64, k)
	useSteps := r.Chance(0.6)
	for i, a := range axesIdx {
		d := x.Shape[a]
		axes[i] = int64(a)
		if useAxes && r.Chance(0.4) {
			axes[i] = int64(a - rank)
		}
		steps[i] = 1
		if validOnly || r.Chance(0.5) { // in-range, non-negative, positive step
			s := r.Range(0, d-1)
			e := r.Range(s+1, d)
			starts[i], ends[i] = int64(s), int64(e)
			if useSteps {
				steps[i] = int64(r.Range(1, 3))
			}
			continue
		}
		core = false
		starts[i] = int64(r.Range(-d-2, d+2))
		ends[i] = int64(r.Range(-d-2, d+2))
		if r.Chance(0.15) {
			starts[i] = sliceExtremes[r.Intn(len(sliceExtremes))]
		}
		if r.Chance(0.15) {
			ends[i] = sliceExtremes[r.Intn(len(sliceExtremes))]
		}
		if useSteps {
			steps[i] = int64(r.PickInt(1, 1, 2, 3, -1, -1, -2, -3, 7, -7))
			if r.Chance(0.05) {
				steps[i] = sliceExtremes[r.Intn(len(sliceExtremes))]
			}
		}
	}
	if !validOnly && r.Chance(0.12) {
		switch r.Intn(4) {
		case 0:
			if useSteps {
				steps[r.Intn(k)] = 0
			}
		case 1:
			if useAxes && k > 1 { // one axis named twice, at any two positions of the list
				i := r.Intn(k)
				j := (i + 1 + r.Intn(k-1)) % k
				axes[i] = axes[j]
				if r.Bool() { // the same axis once non-negative and once negative
					if axes[j] >= 0 {
						axes[i] = axes[j] - int64(rank)
					} else {
						axes[i] = axes[j] + int64(rank)
					}
				}
			}
		case 2:
			if useAxes {
				axes[r.Intn(k)] = int64(r.PickInt(rank, rank+1, -rank-1))
			}
		case 3:
			ends = ends[:k-1]
		}
	}
	idxDT := ref.I64
	if r.Chance(0.3) {
		idxDT = ref.I32
		for _, l := range [][]int64{starts, ends, steps, axes} {
			for _, v := range l {
				if v > math.MaxInt32 || v < math.MinInt32 {
					idxDT = ref.I64
				}
			}
		}
	}
	mk := func(v []int64) *ref.T { return ref.FromI(idxDT, []int{len(v)}, v) }
	if !validOnly && k == 1 && len(ends) == 1 && r.Chance(0.12) {
		// every index operand as a rank-0 tensor (ONNX asks for 1-D lists; a library that reads a
		// scalar as a list of one answers the slice, another one refuses: never the unsliced tensor)
		mk = func(v []int64) *ref.T { return ref.FromI(idxDT, []int{}, v) }
		core = false
	}
	req := mon.OpReq{Op: "Slice", Inputs: []*ref.T{x, mk(starts), mk(ends)}}
	var ax, st []int64
	switch {
	case useAxes && useSteps:
		req.Inputs = append(req.Inputs, mk(axes), mk(steps))
		ax, st = axes, steps
	case useAxes:
		req.Inputs = append(req.Inputs, mk(axes))
		if r.Bool() {
			req.Inputs = append(req.Inputs, nil)
		}
		ax = axes
	case useSteps:
		req.Inputs = append(req.Inputs, nil, mk(steps))
		st = steps
	}
	want, err := ref.Slice(x, starts, ends, ax, st)
	return req, expCore(want, err, core), true
}

func genGather(r *gen.R, validOnly bool) (mon.OpReq, Expect, bool) {
	x := c08Data(r, 1, 4)
	big := r.Chance(0.002)
	if big { // a long axis (index values of 1000 and more)
		x = r.Tensor(ref.I32, []int{r.Range(1026, 1040), 2}, gen.FillUnique, 0)
		if r.Bool() {
			x = r.Tensor(ref.I32, []int{2, r.Range(1026, 1040)}, gen.FillUnique, 0)
		}
	}
	rank := x.Rank()
	axis := r.Range(0, rank-1)
	if big {
		axis = 0
		if x.Shape[1] > 2 {
			axis = 1
		}
	}
	d := x.Shape[axis]
	ishape := r.Shape(0, 2, 3, 9)
	if big && r.Chance(0.3) { // a long index list
		ishape = []int{r.Range(1025, 1030)}
	}
	if r.Chance(0.12) { // "index tensors of any rank"
		ishape = r.Shape(3, 4, 3, 16)
	}
	idxDT := r.PickDT(ref.I64, ref.I64, ref.I32)
	idx := ref.New(idxDT, ishape...)
	for i := range idx.Bits {
		v := r.Range(0, d-1)
		if big && r.Chance(0.7) {
			v = r.Range(1020, minInt(1028, d-1))
		}
		if r.Chance(0.35) {
			v -= d
		}
		idx.Bits[i] = ref.Wrap(idxDT, uint64(int64(v)))
	}
	ax := axis
	if r.Bool() {
		ax = axis - rank
	}
	if !validOnly && r.Chance(0.2) {
		if r.Bool() {
			ax = r.PickInt(rank, rank+1, -rank-1, -rank-2)
			if r.Chance(0.15) {
				ax = int(extremeAxis(r))
			}
		} else if len(idx.Bits) > 0 {
			idx.Bits[r.Intn(len(idx.Bits))] = ref.Wrap(idxDT, uint64(int64(r.PickInt(d, d+1, -d-1, -d-2, 100))))
		}
	}
	req := mon.OpReq{Op: "Gather", Inputs: []*ref.T{x, idx}}
	if ax != 0 || r.Bool() {
		req.Attrs = []*mon.Attr{mon.AttrI("axis", int64(ax))}
	}
	want, err := ref.Gather(x, idx, ax)
	return req, expCore(want, err, true), true
}

func genExpand(r *gen.R, validOnly bool) (mon.OpReq, Expect, bool) {
	x := c08Data(r, 0, 4)
	for i := range x.Shape { // give the input stretchable axes
		if r.Chance(0.5) {
			x.Shape[i] = 1
		}
	}
	x = r.Tensor(x.DT, x.Shape, gen.FillUnique, 0)
	rank := x.Rank()
	trank := r.Range(rank, rank+2)
	if !validOnly && r.Chance(0.3) {
		trank = r.Range(0, rank+2)
	}
	if trank == 0 {
		trank = 1
	}
	target := make([]int64, trank)
	for i := range target {
		j := rank - trank + i
		switch {
		case j >= 0 && x.Shape[j] != 1:
			target[i] = int64(x.Shape[j])
			if r.Chance(0.3) {
				target[i] = 1
			}
		default:
			target[i] = int64(r.Range(1, 4))
		}
	}
	if !validOnly && r.Chance(0.2) {
		i := r.Intn(trank)
		j := rank - trank + i
		if j >= 0 && x.Shape[j] != 1 {
			target[i] = int64(x.Shape[j] + r.Range(1, 2))
		} else if r.Chance(0.3) {
			target[i] = int64(r.PickInt(0, -1))
		}
	}
	req := mon.OpReq{Op: "Expand", Inputs: []*ref.T{x, gen.I64s(target...)}}
	want, err := ref.Expand(x, target)
	return req, expCore(want, err, trank >= rank), true
}

func c08Run(c *Ctx) {
	if c.Idx == 0 {
		c08StringProbe(c)
	}
	if c.Idx%16 == 9 {
		c08Shared(c)
		return
	}
	var req mon.OpReq
	var exp Expect
	ok := false
	switch c.R.Intn(10) {
	case 0, 1:
		req, exp, ok = genTranspose(c.R, false)
	case 2, 3:
		req, exp, ok = genConcat(c.R, false)
	case 4, 5, 6:
		req, exp, ok = genSlice(c.R, false)
	case 7, 8:
		req, exp, ok = genGather(c.R, false)
	default:
		req, exp, ok = genExpand(c.R, false)
	}
	if !ok {
		c.Skip("generator rejected the draw")
		return
	}
	c.SetCase("%s", req.Describe())
	x := req.Inputs[0]
	identity := exp.Kind != MustError && len(exp.Want) > 0 && ref.ShapeEq(exp.Want[0].T.Shape, x.Shape) && mon.HashBits(exp.Want[0].T.Bits) == mon.HashBits(x.Bits)
	if !identity {
		c.Nontrivial(trunc(req.Describe(), 400))
	}
	c.Distinct("operator-dtype", req.Op+"/"+x.DT.String())
	c.Count("class:"+req.Op+"/"+exp.Kind.String(), 1)
	exotic := x.DT == ref.C64 || x.DT == ref.C128 || x.DT == ref.Str
	mo := mon.ModelOpts{InitMask: uint64(c.R.Intn(8)), RawInits: c.R.Bool(), Truncate: c.R.Bool()}
	CheckOp(c, req, exp, c.Idx%4 == 0 && !exotic, mo, c08Known)
	if c.Idx%9000 == 5 {
		s := map[string]any{"request": trunc(req.Describe(), 300), "expectation": exp.Kind.String(), "why": exp.Why}
		if len(exp.Want) > 0 && exp.Want[0] != nil {
			s["expected"] = trunc(exp.Want[0].T.String(), 160)
		}
		c.Sample(s)
	}
}

// c08Known recognises the two recorded Slice defects (both rooted in gorgonia's
// slicing, the first one pinned by TestSlice):
//
//	K1 every sliced axis whose resulting extent is 1 is dropped from the shape;
//	K2 with step > 1 the number of selected elements is floor((end-start)/step)
//	   (at least 1) instead of the ceiling, so the last selected element is lost.
//
// A violation is attributed to them only if the observed tensor is exactly the
// one those two rules produce.
func c08Known(req mon.OpReq, exp Expect, o mon.Outcome, v Verdict) string {
	if req.Op != "Slice" || o.Kind != mon.Value || len(o.Vals) != 1 || o.Vals[0] == nil || len(exp.Want) != 1 {
		return ""
	}
	x := req.Inputs[0]
	starts, ends := req.Inputs[1].Ints(), req.Inputs[2].Ints()
	k := len(starts)
	axes := make([]int64, k)
	for i := range axes {
		axes[i] = int64(i)
	}
	steps := make([]int64, k)
	for i := range steps {
		steps[i] = 1
	}
	if len(req.Inputs) > 3 && req.Inputs[3] != nil {
		axes = req.Inputs[3].Ints()
	}
	if len(req.Inputs) > 4 && req.Inputs[4] != nil {
		steps = req.Inputs[4].Ints()
	}
	if len(ends) != k || len(axes) != k || len(steps) != k {
		return ""
	}
	r := x.Rank()
	want := exp.Want[0].T
	got := o.Vals[0]
	if got.DT != x.DT || want.Rank() != r {
		return ""
	}
	sliced := make([]bool, r)
	nonDividing := false
	for i := 0; i < k; i++ {
		a := int(axes[i])
		if a < 0 {
			a += r
		}
		if a < 0 || a >= r || steps[i] <= 0 || sliced[a] {
			return ""
		}
		sliced[a] = true
		f, cnt := ref.SliceAxis(starts[i], ends[i], steps[i], x.Shape[a])
		if cnt == 0 {
			return ""
		}
		e := ends[i]
		if e < 0 {
			e += int64(x.Shape[a])
		}
		if e > int64(x.Shape[a]) {
			e = int64(x.Shape[a])
		}
		if steps[i] > 1 && (e-f)%steps[i] != 0 {
			nonDividing = true
		}
	}
	// K2 (input class: a step > 1 that does not divide its normalised range): gorgonia
	// loses trailing elements, in a way that depends on its internal strides when
	// several axes are sliced. Attributed to K2 only if what was returned is a strict
	// sub-multiset of the correct selection (right data, partly lost).
	if nonDividing && len(got.Bits) < len(want.Bits) {
		avail := map[uint64]int{}
		for _, b := range want.Bits {
			avail[b]++
		}
		for _, b := range got.Bits {
			if avail[b] == 0 {
				return ""
			}
			avail[b]--
		}
		return "Slice:step-not-dividing-range-loses-last-element"
	}
	// K1: exactly the right elements in the right order; the shape lacks the sliced
	// axes of extent 1 (a single remaining element may come back as a scalar).
	var dropped []int
	drops := false
	for d, e := range want.Shape {
		if sliced[d] && e == 1 {
			drops = true
			continue
		}
		dropped = append(dropped, e)
	}
	shapeOK := ref.ShapeEq(got.Shape, dropped) || (len(want.Bits) == 1 && len(got.Shape) == 0)
	if !drops || !shapeOK || len(got.Bits) != len(want.Bits) {
		return ""
	}
	for i := range got.Bits {
		if got.Bits[i] != want.Bits[i] {
			return ""
		}
	}
	return "Slice:sliced-axis-of-extent-1-dropped"
}
