package props

import (
	"errors"
	"fmt"
	"github.com/advancedclimatesystems/gonnx"
	"reflect"
	"regexp"
	"sort"
	"strings"

	"github.com/advancedclimatesystems/gonnx/ops"
	"github.com/advancedclimatesystems/gonnx/ops/opset13"
	"gorgonia.org/tensor"

	"verif/harness/gen"
	"verif/harness/mon"
	"verif/harness/ref"
)

// C15 — every operator's input gate; registry behaviour.

// onnxArity is typed in from the ONNX opset-13 / ONNX-ML operator
// specifications (min, max inputs; max -1 = variadic), independently of gonnx.
var onnxArity = map[string][2]int{
	"Abs": {1, 1}, "Acos": {1, 1}, "Acosh": {1, 1}, "Add": {2, 2}, "And": {2, 2}, "ArgMax": {1, 1},
	"Asin": {1, 1}, "Asinh": {1, 1}, "Atan": {1, 1}, "Atanh": {1, 1}, "Cast": {1, 1}, "Concat": {1, -1},
	"Constant": {0, 0}, "ConstantOfShape": {1, 1}, "Conv": {2, 3}, "Cos": {1, 1}, "Cosh": {1, 1},
	"Div": {2, 2}, "Equal": {2, 2}, "Expand": {2, 2}, "Flatten": {1, 1}, "Gather": {2, 2}, "Gemm": {2, 3},
	"Greater": {2, 2}, "GreaterOrEqual": {2, 2}, "GRU": {3, 6}, "Less": {2, 2}, "LessOrEqual": {2, 2},
	"LinearRegressor": {1, 1}, "LogSoftmax": {1, 1}, "LSTM": {3, 8}, "MatMul": {2, 2}, "Mul": {2, 2},
	"Not": {1, 1}, "Or": {2, 2}, "PRelu": {2, 2}, "ReduceMax": {1, 1}, "ReduceMin": {1, 1}, "Relu": {1, 1},
	"Reshape": {2, 2}, "RNN": {3, 6}, "Scaler": {1, 1}, "Shape": {1, 1}, "Sigmoid": {1, 1}, "Sin": {1, 1},
	"Sinh": {1, 1}, "Slice": {3, 5}, "Softmax": {1, 1}, "Squeeze": {1, 2}, "Sub": {2, 2}, "Tan": {1, 1},
	"Tanh": {1, 1}, "Transpose": {1, 1}, "Unsqueeze": {2, 2}, "Xor": {2, 2},
}

var c15Names = func() []string {
	n := make([]string, 0, len(onnxArity))
	for k := range onnxArity {
		n = append(n, k)
	}
	sort.Strings(n)
	return n
}()

// foreignNames are operator-type strings outside the implemented set.
var foreignNames = []string{"", " ", "add", "ADD", "Add ", " Add", "Add\x00", "Relu6", "relu", "Pow", "MaxPool", "AveragePool", "Clip", "LeakyRelu",
	"BatchNormalization", "Sqrt", "Exp", "Log", "Neg", "Min", "Max", "Sum", "ReduceSum", "ReduceMean", "Where", "Identity", "Dropout", "Pad",
	"Tile", "Split", "Resize", "GlobalAveragePool", "Loop", "If", "Scan", "ArgMin", "Lstm", "lstm", "Gru", "Rnn", "MatMulInteger", "Gemm13",
	"ConstantOfshape", "Constant_", "com.microsoft.Gelu", "ai.onnx.Add", "Add:13", "Conv2D", "QLinearConv", "é", "Ａdd", "Softmax\n",
	"Top%", "Foo%vBar", "%s", "%w", "Scale%dx", "%", "Relu%!", "Add%w"}

// fpDense fingerprints dense tensors; other implementations (the sparse probes) are not read.
func fpDense(t tensor.Tensor) mon.Fingerprint {
	if _, ok := t.(*tensor.Dense); !ok {
		return mon.Fingerprint{}
	}
	return mon.Fp(t)
}

// sparseProbe returns a 2x2 sparse (CSR) tensor of the element type, nil for types it is not built for.
func sparseProbe(d tensor.Dtype) (t tensor.Tensor) {
	defer func() {
		if recover() != nil {
			t = nil
		}
	}()
	rows, cols := []int{0, 1}, []int{0, 1}
	var data any
	switch d {
	case tensor.Float32:
		data = []float32{1, 2}
	case tensor.Float64:
		data = []float64{1, 2}
	case tensor.Int8:
		data = []int8{1, 2}
	case tensor.Int16:
		data = []int16{1, 2}
	case tensor.Int32:
		data = []int32{1, 2}
	case tensor.Int64:
		data = []int64{1, 2}
	case tensor.Uint8:
		data = []uint8{1, 2}
	case tensor.Uint16:
		data = []uint16{1, 2}
	case tensor.Uint32:
		data = []uint32{1, 2}
	case tensor.Uint64:
		data = []uint64{1, 2}
	case tensor.Bool:
		data = []bool{true, true}
	default:
		return nil
	}
	cs := tensor.CSRFromCoord(tensor.Shape{2, 2}, rows, cols, data)
	if cs == nil || cs.Dtype() != d {
		return nil
	}
	return cs
}

// laterOnnxOps are the foreign names that ARE operators of ONNX opset 13: a library that
// has grown since may implement them. Such a name may resolve - to an operator of its own
// (a Go type none of the 55 known names resolves to), never to one of the known operators
// ("substituting another operator"). The names then belong to the implemented set and are
// no longer "any other name".
var laterOnnxOps = map[string]bool{"Pow": true, "MaxPool": true, "AveragePool": true, "Clip": true, "LeakyRelu": true, "BatchNormalization": true,
	"Sqrt": true, "Exp": true, "Log": true, "Neg": true, "Min": true, "Max": true, "Sum": true, "ReduceSum": true, "ReduceMean": true, "Where": true,
	"Identity": true, "Dropout": true, "Pad": true, "Tile": true, "Split": true, "Resize": true, "GlobalAveragePool": true, "Loop": true, "If": true,
	"Scan": true, "ArgMin": true, "MatMulInteger": true, "QLinearConv": true}

// implementedSince reports whether the foreign name has become an operator of its own.
func implementedSince(name string) bool {
	if !laterOnnxOps[name] {
		return false
	}
	var op ops.Operator
	var err error
	o := mon.Capture(nil, func() ([]tensor.Tensor, error) { op, err = opset13.GetOperator(name); return nil, nil })
	if o.Kind == mon.Panic || err != nil || op == nil {
		return false
	}
	t := reflect.TypeOf(op)
	for _, known := range c15Names {
		if k, kerr := opset13.GetOperator(known); kerr == nil && k != nil && reflect.TypeOf(k) == t {
			return false
		}
	}
	return true
}

var addrPattern = regexp.MustCompile(`0x[0-9a-f]{6,}`)

// goNativeDtypes are gorgonia element types that no ONNX type maps to; no gate
// may let them through (ops.AllTypes lists the ONNX types only).
var goNativeDtypes = []tensor.Dtype{tensor.Int, tensor.Uint, tensor.Uintptr,
	{Type: reflect.TypeOf(celsius(0))}, {Type: reflect.TypeOf(ticks(0))}, {Type: reflect.TypeOf(flag(false))}}

// user-named element types: their Kind is an ONNX type's Kind, their Type is not
type (
	celsius float32
	ticks   int64
	flag    bool
)

func gateDtypeName(d int) string {
	if d < len(gen.All14) {
		return gen.All14[d].String()
	}
	return "Go " + goNativeDtypes[d-len(gen.All14)].String()
}

type gateCase struct {
	op     string
	n      int  // number of inputs supplied
	pos    int  // position carrying the probed dtype (-1: none)
	dt     int  // index into gen.All14 (for pos >= 0)
	nilAt  int  // optional position supplied as nil (-1: none)
	empty  bool // the probe tensor has zero elements (shape (0)): the gate looks at types, not at sizes
	scalar bool // the probe tensor has rank 0
}

// c15Enumerate lists the complete finite space of the property.
func c15Enumerate() []gateCase {
	var out []gateCase
	for _, name := range c15Names {
		ar := onnxArity[name]
		max := ar[1]
		if max < 0 {
			max = 10 // variadic Concat: counts 0..12
		}
		for n := 0; n <= max+2; n++ {
			out = append(out, gateCase{op: name, n: n, pos: -1, nilAt: -1})
			for pos := 0; pos < n; pos++ {
				for d := 0; d < len(gen.All14)+len(goNativeDtypes); d++ {
					if d >= len(gen.All14) { // element types that are not ONNX types at all: alone, no nil combinations
						out = append(out, gateCase{op: name, n: n, pos: pos, dt: d, nilAt: -1})
						continue
					}
					out = append(out, gateCase{op: name, n: n, pos: pos, dt: d, nilAt: -1})
					out = append(out, gateCase{op: name, n: n, pos: pos, dt: d, nilAt: -1, empty: true})
					out = append(out, gateCase{op: name, n: n, pos: pos, dt: d, nilAt: -1, scalar: true})
					// ... combined with nil at every optional position (an omitted input in
					// the middle of the list must not switch the type check off for later ones)
					for nilAt := ar[0]; nilAt < n; nilAt++ {
						if nilAt != pos {
							out = append(out, gateCase{op: name, n: n, pos: pos, dt: d, nilAt: nilAt})
						}
					}
				}
				if pos >= ar[0] {
					out = append(out, gateCase{op: name, n: n, pos: -1, nilAt: pos})
				}
			}
		}
	}
	return out
}

var c15Space = c15Enumerate()

const c15Registry = 1200 // registry/lookup cases appended after the gate space

func init() {
	Register(&Property{
		ID:    "C15",
		Title: "Every operator's input gate enforces arity and element types before computing",
		Cases: func(tier string) int {
			if tier == "race" {
				return len(c15Space) / 4
			}
			return len(c15Space) + c15Registry
		},
		Run:            c15Run,
		Floor:          func(tier string) int { return 5000 },
		Rule:           "(a refused single-node graph is run again with a node of an unknown operator type behind the refused node: the gate's InputError is still what Run reports) (half of the gate probes run on an instance initialised with the attributes of a valid node; behind an accepted list with a skipped optional input the list with that nil removed is probed) (every fourth gate case is followed back to back by three probes drawn from the whole space; model-level gates are also asked after one or two valid Runs on the same loaded model) complete enumeration: 55 operators x input count 0..max+2 (Concat 0..12) x each of the 14 ONNX element types and of 3 gorgonia element types that are not ONNX types (int, uint, uintptr), plus three user-named Go types whose Kind is an ONNX kind, each ONNX probe also as a tensor with zero elements and as a rank-0 tensor at each supplied position (other positions carry an allowed type) x nil at each optional position (alone and combined with every type probe at every other position); every second list is a prefix of a larger array with other tensors behind its length, through Operator.ValidateInputs of a fresh instance from opset13.GetOperator; arities cross-checked against an independent table typed in from the ONNX spec. Then 400 registry cases: every name resolves, repeated lookups are state-independent (a fresh instance prints identically before and after another instance of the same name was Init-ed with non-default attributes and applied), foreign names yield ErrUnsupportedOperator; and single-node models observed through the operator proxy: a rejected gate is never followed by an apply event. A gate case is non-trivial when it is rejected or pads optional inputs; distinct = distinct (op, count, position, dtype, nil position).",
		Exhaustive:     func(tier string) bool { return true },
		RaceInThorough: true,
		Technique:      "runtime monitoring: exhaustive enumeration of the finite gate space against the operators' declared constraints and an independent ONNX arity table; proxy trace check 'no apply after a failed validate'",
		Assumptions:    []string{"'allowed at that position' is read from the operator's own GetInputTypeConstraints (the gate must enforce what the operator declares)", "ONNX arity table typed in by hand from the operator specification"},
	})
}

func dtName(d ref.DType) tensor.Dtype { return mon.GoDtype(d) }

func c15Run(c *Ctx) {
	if c.Idx >= len(c15Space) {
		c15RegistryCase(c, c.Idx-len(c15Space))
		return
	}
	idx := c.Idx
	if c.Tier == "race" {
		idx = (c.Idx*4 + int(c.Seed%4)) % len(c15Space)
	}
	gc := c15Space[idx]
	c.SetCase("gate %s: %d inputs, dtype %v at position %d (zero elements: %v, rank 0: %v), nil at %d", gc.op, gc.n, gateDtypeName(gc.dt), gc.pos, gc.empty, gc.scalar, gc.nilAt)
	o := mon.Capture(nil, func() ([]tensor.Tensor, error) { return nil, c15Gate(c, gc) })
	if o.Kind == mon.Panic {
		c.Violation("gate:"+gc.op+":panic", "input gate panicked: %s", o.Describe())
	}
	if o.Kind == mon.Error {
		c.Violation("gate:harness", "%v", o.Err)
	}
	if c.Idx%4 == 3 {
		// a few more probes drawn from the whole space, back to back: the verdict of a gate does
		// not depend on which lists (of which operators) were accepted or refused just before
		for k := 0; k < 3; k++ {
			other := c15Space[c.R.Intn(len(c15Space))]
			c.Logf("followed by gate %s: %d inputs, dtype %v at position %d, nil at %d", other.op, other.n, gateDtypeName(other.dt), other.pos, other.nilAt)
			o := mon.Capture(nil, func() ([]tensor.Tensor, error) { return nil, c15Gate(c, other) })
			if o.Kind == mon.Panic {
				c.Violation("gate:"+other.op+":panic", "input gate panicked (probe %d after the case's own): %s", k+1, o.Describe())
			}
		}
		c.Count("gate:back-to-back-probe-sequences", 1)
	}
}

// c15Gate performs one gate probe; a returned error is a harness failure.
func c15Gate(c *Ctx, gc gateCase) error {
	op, err := opset13.GetOperator(gc.op)
	c.Eval(1)
	if err != nil || op == nil {
		c.Violation("registry:"+gc.op+":does-not-resolve", "GetOperator(%q) = %v, %v", gc.op, op, err)
		return nil
	}
	if (c.Idx/2)%2 == 1 {
		// the instance has been initialised with the attributes of some valid node of this
		// operator (any Cast target, any axis, ...): what the gate lets through depends on the
		// operator and the position only
		if req, _, ok := SampleValidReq(c.R, gc.op, true); ok {
			node := nodeFor(req)
			_ = mon.Capture(nil, func() ([]tensor.Tensor, error) { return nil, op.Init(node) })
			c.Count("gate:instance-initialised-with-attributes", 1)
		}
	}
	ar := onnxArity[gc.op]
	min, max := op.GetMinInputs(), op.GetMaxInputs()
	cons := op.GetInputTypeConstraints()
	variadic := ar[1] < 0
	if !variadic {
		if min != ar[0] || max != ar[1] {
			c.Violation("gate:"+gc.op+":arity-differs-from-onnx", "operator declares %d..%d inputs, ONNX specifies %d..%d", min, max, ar[0], ar[1])
			return nil
		}
		if len(cons) < max {
			c.Violation("gate:"+gc.op+":constraint-list-too-short", "%d type constraints for max %d inputs", len(cons), max)
			return nil
		}
	} else if min != ar[0] {
		c.Violation("gate:"+gc.op+":arity-differs-from-onnx", "operator declares min %d inputs, ONNX specifies %d", min, ar[0])
	}
	allowedAt := func(i int, d tensor.Dtype) bool {
		for _, g := range goNativeDtypes {
			if d == g {
				return false // not an ONNX element type: allowed nowhere
			}
		}
		if variadic {
			return true // Concat accepts all (ONNX) types at all positions
		}
		for _, a := range cons[i] {
			if a == d {
				return true
			}
		}
		return false
	}
	// build the input list
	in := make([]tensor.Tensor, gc.n)
	var probe tensor.Dtype
	if gc.pos >= 0 {
		if gc.dt < len(gen.All14) {
			probe = dtName(gen.All14[gc.dt])
		} else {
			probe = goNativeDtypes[gc.dt-len(gen.All14)]
		}
	}
	expectTypeErr := false
	for i := 0; i < gc.n; i++ {
		if i == gc.nilAt {
			continue
		}
		var d tensor.Dtype
		switch {
		case i == gc.pos:
			d = probe
		case variadic || i >= len(cons) || len(cons[i]) == 0:
			d = tensor.Float32
		case gc.pos >= 0 && allowedAt(i, probe):
			d = probe // keep operands of one type where possible (PRelu demands it)
		default:
			d = cons[i][0]
		}
		switch d {
		case tensor.Int:
			in[i] = tensor.New(tensor.WithShape(2), tensor.WithBacking([]int{1, 2}))
		case tensor.Uint:
			in[i] = tensor.New(tensor.WithShape(2), tensor.WithBacking([]uint{1, 2}))
		case tensor.Uintptr:
			in[i] = tensor.New(tensor.WithShape(2), tensor.WithBacking([]uintptr{1, 2}))
		case goNativeDtypes[3]:
			in[i] = tensor.New(tensor.WithShape(2), tensor.WithBacking([]celsius{1, 2}))
		case goNativeDtypes[4]:
			in[i] = tensor.New(tensor.WithShape(2), tensor.WithBacking([]ticks{1, 2}))
		case goNativeDtypes[5]:
			in[i] = tensor.New(tensor.WithShape(2), tensor.WithBacking([]flag{true, false}))
		default:
			if sp := sparseProbe(d); i == gc.pos && !gc.empty && !gc.scalar && (c.Idx/4)%8 == 5 && sp != nil {
				// the probe as one of gorgonia's sparse tensors: a tensor.Tensor that is not a
				// *tensor.Dense is still a supplied input whose element type the gate checks
				in[i] = sp
				c.Count("gate:sparse-tensor-probes", 1)
				break
			}
			rd, _ := mon.RefDtype(d)
			shape := []int{2}
			if gc.empty && i == gc.pos {
				shape = []int{0}
			}
			if gc.scalar && i == gc.pos {
				shape = []int{}
			}
			in[i] = mon.ToTensor(c.R.Tensor(rd, shape, gen.FillUnique, 0))
		}
		if (!variadic && i < max || variadic) && !allowedAt(i, d) {
			expectTypeErr = true
		}
	}
	if gc.n == 2 && gc.pos >= 0 && gc.nilAt < 0 && in[0] != nil && in[1] != nil && (c.Idx/8)%4 == 1 {
		// the probe tensor at BOTH positions (one object given twice): each position still
		// allows what it allows
		in[1-gc.pos] = in[gc.pos]
		expectTypeErr = false
		for i := 0; i < gc.n; i++ {
			if (!variadic && i < max || variadic) && !allowedAt(i, in[i].Dtype()) {
				expectTypeErr = true
			}
		}
		c.Count("gate:one-object-at-both-positions", 1)
	}
	if c.Idx%2 == 1 {
		// the list is a prefix of a larger array that holds other tensors behind its
		// length (a caller's scratch buffer): what lies behind len is not part of the list
		full := make([]tensor.Tensor, gc.n+4)
		copy(full, in)
		for j := gc.n; j < len(full); j++ {
			full[j] = tensor.New(tensor.WithShape(2), tensor.WithBacking([]bool{true, false}))
		}
		in = full[:gc.n]
		c.Count("gate:list-with-spare-capacity", 1)
	}
	supplied := append([]tensor.Tensor{}, in...)
	fps := make([]mon.Fingerprint, len(in))
	for i, t := range in {
		fps[i] = fpDense(t)
	}
	effMax := max
	if variadic {
		effMax = gc.n // Concat: the supplied length
	}
	expectCountErr := gc.n < ar[0] || (!variadic && gc.n > ar[1])
	out, verr := op.ValidateInputs(in)
	desc := fmt.Sprintf("%s|%d|%d|%d|%d|%v|%v", gc.op, gc.n, gc.pos, gc.dt, gc.nilAt, gc.empty, gc.scalar)
	if expectCountErr || expectTypeErr || gc.n < effMax {
		c.Nontrivial(desc)
	}
	switch {
	case expectCountErr || expectTypeErr:
		what := "count"
		if !expectCountErr {
			what = "type"
		}
		c.Count("gate:rejected-"+what, 1)
		var ie *ops.InputError
		if verr == nil {
			c.Violation("gate:"+gc.op+":accepted-bad-"+what, "input list with bad %s accepted (%d inputs; declared %d..%d)", what, gc.n, min, max)
		} else if !errors.As(verr, &ie) {
			c.Violation("gate:"+gc.op+":wrong-error-class", "bad %s rejected with %T (%v), not an input error", what, verr, verr)
		}
	default:
		c.Count("gate:accepted", 1)
		if verr != nil {
			if gc.op == "PRelu" { // PRelu additionally demands equal operand types; any error is fine
				break
			}
			c.Violation("gate:"+gc.op+":rejected-good", "well-formed input list rejected: %v", verr)
			break
		}
		if len(out) != effMax {
			c.Violation("gate:"+gc.op+":wrong-padding", "accepted list has length %d, expected %d", len(out), effMax)
			break
		}
		for i := range out {
			if i < gc.n {
				if out[i] != supplied[i] {
					c.Violation("gate:"+gc.op+":inputs-not-passed-through", "position %d of the accepted list is not the supplied tensor", i)
				}
			} else if out[i] != nil {
				c.Violation("gate:"+gc.op+":absent-input-not-nil", "omitted optional input %d presented as non-nil", i)
			}
		}
	}
	for i, t := range supplied {
		if ok, what := fps[i].Equal(fpDense(t)); !ok {
			c.Violation("gate:"+gc.op+":input-modified", "gate modified input %d: %s", i, what)
		}
	}
	// right behind an accepted list with a skipped (nil) optional input: the same tensors with
	// the nil taken out, so that every later tensor sits one position further left. Which types
	// a position allows does not depend on what was accepted a moment ago.
	if verr == nil && !expectCountErr && !expectTypeErr && !variadic && gc.nilAt >= 0 && gc.nilAt < gc.n-1 {
		shifted := append(append([]tensor.Tensor{}, supplied[:gc.nilAt]...), supplied[gc.nilAt+1:]...)
		bad := len(shifted) < ar[0]
		for i, t := range shifted {
			if t != nil && !allowedAt(i, t.Dtype()) {
				bad = true
			}
		}
		op2, err2 := opset13.GetOperator(gc.op)
		if err2 == nil {
			_, verr2 := op2.ValidateInputs(shifted)
			c.Eval(1)
			c.Count("gate:shifted-lists-right-behind-an-accepted-one", 1)
			if bad && verr2 == nil {
				c.Violation("gate:"+gc.op+":accepted-bad-type", "right behind an accepted list with nil at position %d, the list with that nil removed (a tensor one position further left, at a position that does not allow its type, or too few inputs) was accepted", gc.nilAt)
			}
		}
	}
	if c.Idx%1500 == 7 {
		c.Sample(map[string]any{"operator": gc.op, "inputs": gc.n, "probe_position": gc.pos, "probe_dtype": gateDtypeName(gc.dt), "nil_position": gc.nilAt, "declared_min_max": []int{min, max}, "error": fmt.Sprint(verr)})
	}
	return nil
}

func c15RegistryCase(c *Ctx, k int) {
	switch {
	case k < len(c15Names):
		name := c15Names[k]
		c.SetCase("registry independence of %s", name)
		c15Independence(c, name)
		c15SameInstanceSequence(c, name)
	case k < len(c15Names)+len(foreignNames)+60:
		j := k - len(c15Names)
		var name string
		if j < len(foreignNames) {
			name = foreignNames[j]
		} else { // perturbed real names and random strings
			base := c15Names[c.R.Intn(len(c15Names))]
			switch c.R.Intn(5) {
			case 0:
				name = strings.ToLower(base)
			case 1:
				name = strings.ToUpper(base)
			case 2:
				name = base + string(rune('a'+c.R.Intn(26)))
			case 3:
				name = base[:len(base)-1]
			default:
				b := make([]byte, c.R.Range(1, 12))
				for i := range b {
					b[i] = byte(c.R.Range(32, 126))
				}
				name = string(b)
			}
			if _, ok := onnxArity[name]; ok {
				c.Skip("perturbation produced a registered name")
				return
			}
		}
		if implementedSince(name) {
			c.Skip("the name has become an operator of its own")
			c.Count("foreign-names-implemented-since", 1)
			return
		}
		c.SetCase("registry lookup of foreign name %q", name)
		c.Nontrivial("foreign|" + name)
		var op ops.Operator
		var err error
		o := mon.Capture(nil, func() ([]tensor.Tensor, error) { op, err = opset13.GetOperator(name); return nil, nil })
		c.Eval(1)
		switch {
		case o.Kind == mon.Panic:
			c.Violation("registry:panic", "GetOperator(%q) panicked: %s", name, o.Describe())
		case err == nil || op != nil:
			c.Violation("registry:foreign-name-resolves", "GetOperator(%q) returned %v, %v", name, op, err)
		case !errors.Is(err, ops.ErrUnsupportedOperator):
			c.Violation("registry:wrong-error", "GetOperator(%q) error %v is not ErrUnsupportedOperator", name, err)
		}
		// the same through a model
		c15ForeignModel(c, name)
	default:
		if c.Idx%3 == 0 {
			c15AbsentAtModelLevel(c)
			return
		}
		c15GateBeforeCompute(c)
	}
}

// optionalInputOps are the operators with optional inputs.
var optionalInputOps = []string{"Gemm", "Conv", "RNN", "GRU", "LSTM", "Squeeze", "Slice", "Clip"}

// c15AbsentAtModelLevel: at model level an optional input written as "" must
// reach the operator as absent (nil), whatever else the graph contains - in
// particular an earlier multi-output node that OMITS one of its outputs (also
// written ""). The graph with the skipped inputs spelled "" must behave exactly
// like the graph that simply does not list them, and the operator proxy must see
// nil at those positions.
func c15AbsentAtModelLevel(c *Ctx) {
	r := c.R
	name := optionalInputOps[r.Intn(len(optionalInputOps))]
	if _, ok := onnxArity[name]; !ok {
		name = "Gemm"
	}
	req, _, ok := SampleValidReq(r, name, false)
	if !ok {
		c.Skip("no sample request")
		return
	}
	// spell every absent trailing optional input explicitly
	for len(req.Inputs) < onnxArity[name][1] {
		req.Inputs = append(req.Inputs, nil)
	}
	nNil := 0
	for _, in := range req.Inputs {
		if in == nil {
			nNil++
		}
	}
	if nNil == 0 {
		c.Skip("request without absent inputs")
		return
	}
	c.SetCase("optional inputs of %s written as \"\" behind a node with an omitted output: %s", name, trunc(req.Describe(), 300))
	c.Nontrivial(fmt.Sprintf("absent-at-model-level|%s|%d|%d", name, len(req.Inputs), nNil))
	build := func(truncate, withUpstream bool) (*mon.Graph, map[string]*ref.T) {
		g, feed := mon.BuildOpModel(req, mon.ModelOpts{Truncate: truncate, InitMask: ^uint64(1)})
		if withUpstream {
			// an upstream recurrent node whose Y is omitted
			H := 2
			x := uniformT(r, ref.F32, []int{2, 1, 3}, 1)
			w := uniformT(r, ref.F32, []int{1, 3 * H, 3}, 0.4)
			rr := uniformT(r, ref.F32, []int{1, 3 * H, H}, 0.4)
			g.Inits = append(g.Inits, mon.GInit{Name: "up_x", T: x}, mon.GInit{Name: "up_w", T: w}, mon.GInit{Name: "up_r", T: rr})
			up := mon.GNode{Op: "GRU", Name: "upstream", Inputs: []string{"up_x", "up_w", "up_r"}, Outputs: []string{"", "up_h"}, Attrs: []*mon.Attr{mon.AttrI("hidden_size", int64(H))}}
			g.Nodes = append([]mon.GNode{up}, g.Nodes...)
		}
		return g, feed
	}
	gPlain, feed := build(true, false)
	gSpelled, _ := build(false, true)
	plain := mon.RunGraph(gPlain, feed)
	tr := mon.RunGraphTraced(gSpelled, feed, nil)
	c.Eval(2)
	if tr.Outcome.Kind == mon.Panic {
		c.Violation("absent-at-model-level:"+name+":panic", "%s", tr.Outcome.Describe())
		return
	}
	if d := diffOutcomes(plain, tr.Outcome); d != "" {
		c.Violation("absent-at-model-level:"+name+":differs-from-unlisted-inputs", "the graph that lists the skipped inputs as \"\" (behind a node that omits an output) differs from the graph that does not list them: %s", d)
	}
	for _, e := range tr.Events {
		if e.Phase != "apply" || e.OpType != name {
			continue
		}
		for i, in := range req.Inputs {
			if in == nil && i < len(e.In) && e.In[i] != nil {
				c.Violation("absent-at-model-level:"+name+":skipped-input-not-nil", "input %d of the %s node is written \"\" in the graph but the operator received a tensor of shape %v", i, name, e.In[i].Shape())
			}
		}
	}
}

// c15Independence: a fresh instance must not be affected by what happened to
// other instances of the same name. State is compared structurally (%+v of a
// fresh instance before and after) and behaviourally (a fixed request with
// default attributes must give the same bits before and after), across many
// attribute variants of the instance that is used in between.
func c15Independence(c *Ctx, name string) {
	c.Nontrivial("independence|" + name)
	// (addresses of pointer-typed fields differ between instances by nature: only nil / non-nil is compared)
	render := func(op ops.Operator) string {
		return addrPattern.ReplaceAllString(fmt.Sprintf("%T %+v", op, op), "0xADDR")
	}
	fresh1, err := opset13.GetOperator(name)
	if err != nil {
		c.Violation("registry:"+name+":does-not-resolve", "%v", err)
		return
	}
	s1 := render(fresh1)
	// behavioural probe: a request with default attributes, run on a fresh instance
	probe, _, probeOK := SampleValidReq(c.R, name, false)
	var before mon.Outcome
	if probeOK {
		before, _ = mon.RunOpAPI(probe)
	}
	variants := 0
	var lastReq mon.OpReq
	for v := 0; v < 48; v++ {
		req, _, ok := SampleValidReq(c.R, name, true)
		if !ok {
			break
		}
		variants++
		lastReq = req
		other, _ := opset13.GetOperator(name)
		node := nodeFor(req)
		_ = mon.Capture(nil, func() ([]tensor.Tensor, error) {
			if err := other.Init(node); err != nil {
				return nil, err
			}
			in, err := other.ValidateInputs(mon.ToTensors(req.Inputs))
			if err != nil {
				return nil, err
			}
			return other.Apply(in)
		})
		if v%4 == 1 {
			// what GetInputTypeConstraints returns belongs to the caller: replacing its entries
			// must not change what any other instance accepts
			cons := other.GetInputTypeConstraints()
			for i := range cons {
				cons[i] = []tensor.Dtype{tensor.Complex128}
			}
		}
		fresh2, _ := opset13.GetOperator(name)
		c.Eval(3)
		if s2 := render(fresh2); s2 != s1 {
			c.Violation("registry:"+name+":state-leaks-between-lookups", "a fresh instance differs after another instance was used with %s:\n before: %s\n after:  %s", trunc(req.Describe(), 200), trunc(s1, 300), trunc(s2, 300))
			break
		}
		if s1b := render(fresh1); s1b != s1 {
			c.Violation("registry:"+name+":state-shared-between-instances", "an untouched instance changed when another instance was initialised with %s:\n before: %s\n after:  %s", trunc(req.Describe(), 200), trunc(s1, 300), trunc(s1b, 300))
			break
		}
		if reflect.TypeOf(fresh1).Kind() == reflect.Ptr && reflect.TypeOf(fresh1).Elem().Size() > 0 {
			if reflect.ValueOf(fresh1).Pointer() == reflect.ValueOf(fresh2).Pointer() || reflect.ValueOf(fresh1).Pointer() == reflect.ValueOf(other).Pointer() {
				c.Violation("registry:"+name+":same-instance-returned", "two lookups of %s returned the same stateful instance", name)
				break
			}
		}
		if probeOK && v%8 == 7 {
			after, _ := mon.RunOpAPI(probe)
			c.Eval(1)
			if d := diffOutcomes(before, after); d != "" {
				c.Violation("registry:"+name+":behaviour-depends-on-other-instances", "the same default-attribute request gives a different result after other instances were used (last: %s): %s | %s", trunc(req.Describe(), 200), d, trunc(probe.Describe(), 200))
				break
			}
		}
	}
	c.Count("independence-variants", int64(variants))
	c.Sample(map[string]any{"registry_independence": name, "fresh_state": trunc(s1, 120), "attribute_variants_used": variants, "last_used_with": trunc(lastReq.Describe(), 200)})
}

// c15ForeignModel: a graph containing a foreign operator type must make Run
// fail with ErrUnsupportedOperator (shared with C18), wherever the node sits and
// whatever its output list looks like (named, unused, empty, only omitted "").
func c15ForeignModel(c *Ctx, name string) {
	r := c.R
	if implementedSince(name) {
		c.Skip("the name has become an operator of its own")
		return
	}
	x := r.Tensor(ref.F32, []int{2, 3}, gen.FillSmall, 4)
	relu := func(in, out string) mon.GNode {
		return mon.GNode{Op: "Relu", Inputs: []string{in}, Outputs: []string{out}}
	}
	foreign := mon.GNode{Op: name, Inputs: []string{"a"}, Outputs: []string{"b"}}
	if r.Chance(0.4) { // the unknown type under some operator-set domain: it is the type that is not implemented
		foreign.Domain = r.PickStr("com.microsoft", "ai.onnx", "ai.onnx.ml", "ai.onnx.training", "AI.ONNX", "com.acme.custom")
	}
	var nodes []mon.GNode
	clash := ""
	layout := r.Intn(11)
	desc := ""
	switch layout {
	case 0: // in the middle of a chain
		nodes, desc = []mon.GNode{relu("x", "a"), foreign, relu("b", "y")}, "middle of a chain"
	case 1: // first node
		foreign.Inputs = []string{"x"}
		nodes, desc = []mon.GNode{foreign, relu("b", "y")}, "first node"
	case 2: // last node, result is the graph output
		foreign.Outputs = []string{"y"}
		nodes, desc = []mon.GNode{relu("x", "a"), foreign}, "last node"
	case 3: // dead node: named output that nobody reads
		nodes, desc = []mon.GNode{relu("x", "a"), foreign, relu("a", "y")}, "dead node with a named output"
	case 4: // no outputs at all
		foreign.Outputs = nil
		nodes, desc = []mon.GNode{relu("x", "a"), foreign, relu("a", "y")}, "node without outputs"
	case 5: // only omitted outputs
		foreign.Outputs = make([]string, r.Range(1, 3))
		nodes, desc = []mon.GNode{relu("x", "a"), foreign, relu("a", "y")}, "node with only omitted (\"\") outputs"
	case 6: // listed last, after every graph output has been computed, result unused
		nodes, desc = []mon.GNode{relu("x", "a"), relu("a", "y"), foreign}, "trailing dead node"
	case 7: // listed last, consuming the graph output
		foreign.Inputs = []string{"y"}
		nodes, desc = []mon.GNode{relu("x", "a"), relu("a", "y"), foreign}, "trailing consumer of the graph output"
	case 8: // its output name is also the name of an initializer
		clash = "initializer"
		nodes, desc = []mon.GNode{relu("x", "a"), foreign, relu("b", "y")}, "output named like an initializer"
	case 9: // its output name is also the name of a graph input (a tensor the caller supplies)
		foreign.Outputs = []string{"x2"}
		clash = "input"
		nodes, desc = []mon.GNode{relu("x", "a"), foreign, relu("x2", "y")}, "output named like a graph input"
	default: // its output name was already written by an earlier node
		foreign.Outputs = []string{"a"}
		nodes, desc = []mon.GNode{relu("x", "a"), foreign, relu("a", "y")}, "output named like an earlier node's output"
	}
	if r.Chance(0.3) { // no inputs either / a skipped input
		for i := range nodes {
			if nodes[i].Op == name {
				// also names for which no tensor exists when the node is reached: a name nothing
				// produces, a later node's output, the node's own output - the operator type is
				// what Run has to diagnose
				own := "ghost"
				if len(nodes[i].Outputs) > 0 && nodes[i].Outputs[0] != "" {
					own = nodes[i].Outputs[0]
				}
				nodes[i].Inputs = [][]string{nil, {""}, {"", "x"}, {"ghost"}, {"x", "ghost"}, {"y"}, {own}}[r.Intn(7)]
				desc += ", inputs " + fmt.Sprint(nodes[i].Inputs)
			}
		}
	}
	at := 0
	for i := range nodes {
		if nodes[i].Op == name {
			at = i
		}
	}
	g := &mon.Graph{
		Inputs:  []mon.GInput{{Name: "x", DT: ref.F32, Dims: mon.FixedDims(x.Shape)}},
		Nodes:   nodes,
		Outputs: []mon.GInput{{Name: "y", NoType: true}},
		NoNames: r.Bool(), // with and without node names
	}
	feed := map[string]*ref.T{"x": x}
	switch clash {
	case "initializer":
		g.Inits = append(g.Inits, mon.GInit{Name: "b", T: r.Tensor(ref.F32, []int{2, 3}, gen.FillSmall, 4)})
	case "input":
		g.Inputs = append(g.Inputs, mon.GInput{Name: "x2", DT: ref.F32, Dims: mon.FixedDims(x.Shape)})
		feed["x2"] = r.Tensor(ref.F32, []int{2, 3}, gen.FillSmall, 4)
	}
	c.Count("foreign-op-layout:"+desc[:minInt(len(desc), 30)], 1)
	tr := mon.RunGraphTraced(g, feed, nil)
	c.Eval(1)
	if tr.Model != nil && at > 0 && r.Chance(0.5) {
		// a later Run on the same model whose input already fails at the node in FRONT of the
		// unknown one (Relu refuses bool): it reports what a freshly loaded model reports for that
		// input - that the graph also holds an unknown operator further down has not been reached
		var usedErr, freshErr error
		_ = mon.Capture(nil, func() ([]tensor.Tensor, error) {
			bad := gonnx.Tensors{}
			for k, v := range feed {
				bad[k] = mon.ToTensor(ref.New(ref.Bool, v.Shape...))
			}
			_, usedErr = tr.Model.Run(bad)
			return nil, nil
		})
		_ = mon.Capture(nil, func() ([]tensor.Tensor, error) {
			fm, err := gonnx.NewModelFromBytes(g.Bytes())
			if err != nil {
				freshErr = err
				return nil, nil
			}
			fresh := gonnx.Tensors{}
			for k, v := range feed {
				fresh[k] = mon.ToTensor(ref.New(ref.Bool, v.Shape...))
			}
			_, freshErr = fm.Run(fresh)
			return nil, nil
		})
		c.Eval(2)
		c.Count("foreign-op-models-run-again-with-an-input-failing-earlier", 1)
		if (usedErr == nil) != (freshErr == nil) || (usedErr != nil && usedErr.Error() != freshErr.Error()) {
			c.Violation("foreign-op-model:error-depends-on-earlier-runs", "graph with operator %q (%s): after a Run that reached the unknown operator, a Run whose input fails at an earlier node reports %v; a freshly loaded model reports %v", name, desc, usedErr, freshErr)
		}
	}
	switch {
	case tr.Outcome.Kind == mon.Panic:
		c.Violation("foreign-op-model:panic", "%s: %s", desc, tr.Outcome.Describe())
	case tr.Outcome.Kind == mon.Value:
		c.Violation("foreign-op-model:run-succeeds", "graph with operator %q (%s) ran: %s", name, desc, trunc(tr.Outcome.Describe(), 200))
	case !errors.Is(tr.Outcome.Err, ops.ErrUnsupportedOperator):
		c.Violation("foreign-op-model:wrong-error", "graph with operator %q (%s): %v", name, desc, tr.Outcome.Err)
	}
	for _, e := range tr.Events {
		if e.Phase == "apply" && e.Node >= at {
			c.Violation("foreign-op-model:later-node-applied", "node %d was applied although node %d has an unsupported operator type (%s)", e.Node, at, desc)
		}
	}
}

// c15GateBeforeCompute: at model level a rejected gate is never followed by an
// apply event of that node (observed through the proxy).
func c15GateBeforeCompute(c *Ctx) {
	name := c15Names[c.R.Intn(len(c15Names))]
	if c.R.Chance(0.2) { // the two operators whose arity is special: no inputs at all / any number
		name = c.R.PickStr("Constant", "Concat")
	}
	req, _, ok := SampleValidReq(c.R, name, false)
	if !ok || (len(req.Inputs) == 0 && name != "Constant") {
		c.Skip("no sample request")
		return
	}
	// break the request: wrong dtype at one position, or wrong count
	mode := c.R.Intn(3)
	if name == "Constant" {
		mode = 1 // only a surplus input can be wrong
	}
	bad := req
	bad.Inputs = append([]*ref.T{}, req.Inputs...)
	switch mode {
	case 0:
		pos := c.R.Intn(len(bad.Inputs))
		if bad.Inputs[pos] == nil || onnxArity[name][1] < 0 {
			c.Skip("nil position or variadic")
			return
		}
		probe, _ := opset13.GetOperator(name)
		for _, a := range probe.GetInputTypeConstraints()[pos] {
			if a == tensor.Complex128 {
				c.Skip("operator accepts all types at that position")
				return
			}
		}
		bad.Inputs[pos] = c.R.Tensor(ref.C128, bad.Inputs[pos].Shape, gen.FillUnique, 0)
	case 1:
		if onnxArity[name][1] < 0 {
			c.Skip("variadic")
			return
		}
		for len(bad.Inputs) <= onnxArity[name][1] {
			bad.Inputs = append(bad.Inputs, c.R.Tensor(ref.F32, []int{1}, gen.FillSmall, 2))
		}
	default:
		if onnxArity[name][0] == 0 {
			c.Skip("no required input")
			return
		}
		bad.Inputs = bad.Inputs[:onnxArity[name][0]-1]
	}
	c.SetCase("model-level gate of %s (mode %d): %s", name, mode, trunc(bad.Describe(), 300))
	c.Nontrivial(fmt.Sprintf("gate-before-compute|%s|%d|%d", name, mode, len(bad.Inputs)))
	g, feed := mon.BuildOpModel(bad, mon.ModelOpts{NoNames: c.R.Bool()})
	var earlier []map[string]*ref.T
	if mode == 0 && c.R.Bool() {
		// the loaded model has accepted (and computed) the valid request before: the gate is
		// asked on every Run, whatever the node was given earlier
		valid := map[string]*ref.T{}
		for i, in := range req.Inputs {
			if in != nil {
				valid[fmt.Sprintf("i%d", i)] = in
			}
		}
		for n := c.R.Range(1, 2); n > 0; n-- {
			earlier = append(earlier, valid)
		}
		c.Count("gate-model:after-earlier-valid-runs", 1)
	}
	tr := mon.RunGraphTracedAfter(g, feed, earlier, nil)
	if tr.Prior <= len(tr.Events) {
		tr.Events = tr.Events[tr.Prior:]
	}
	c.Eval(1)
	switch tr.Outcome.Kind {
	case mon.Panic:
		c.Violation("gate-model:"+name+":panic", "%s", tr.Outcome.Describe())
	case mon.Value:
		c.Violation("gate-model:"+name+":bad-input-list-computed", "Run answered %s", trunc(tr.Outcome.Describe(), 200))
	}
	sawValidateErr := false
	for _, e := range tr.Events {
		if e.Phase == "validate" && e.Err != nil {
			sawValidateErr = true
			var ie *ops.InputError
			if !errors.As(e.Err, &ie) {
				c.Violation("gate-model:"+name+":wrong-error-class", "%T %v", e.Err, e.Err)
			}
		}
		if e.Phase == "apply" && sawValidateErr {
			c.Violation("gate-model:"+name+":apply-after-failed-validate", "apply event follows a failed validate of node %d", e.Node)
		}
		if e.Phase == "apply" && !sawValidateErr {
			c.Violation("gate-model:"+name+":computed-before-gate", "node applied although its input list is invalid")
		}
	}
	if tr.Outcome.Kind == mon.Error && !sawValidateErr {
		c.Count("gate-model:rejected-before-validate", 1) // e.g. Init refused first: fine
	}
	if tr.Outcome.Kind == mon.Error && sawValidateErr && len(g.Nodes) == 1 && len(g.Nodes[0].Outputs) > 0 && g.Nodes[0].Outputs[0] != "" && c.Idx%2 == 0 {
		// the same graph with a node of an unknown operator type BEHIND the refused node: Run executes
		// nodes in order, so the refusal of the gate is what the caller is told, in the same words
		g2 := *g
		g2.Nodes = append(append([]mon.GNode{}, g.Nodes...), mon.GNode{Op: "NoSuchOperatorVerif", Name: "later", Inputs: []string{g.Nodes[0].Outputs[0]}, Outputs: []string{"zz_later"}})
		g2.Outputs = append(append([]mon.GInput{}, g.Outputs...), mon.GInput{Name: "zz_later", NoType: true})
		o2 := mon.RunGraph(&g2, feed)
		c.Eval(1)
		c.Count("gate-model:with-an-unknown-operator-behind-the-refused-node", 1)
		var ie *ops.InputError
		switch {
		case o2.Kind == mon.Panic:
			c.Violation("gate-model:"+name+":panic", "%s", o2.Describe())
		case o2.Kind != mon.Error:
			c.Violation("gate-model:"+name+":bad-input-list-computed", "with an unknown operator behind the node Run answered %s", trunc(o2.Describe(), 200))
		case !errors.As(o2.Err, &ie) && errors.As(tr.Outcome.Err, &ie):
			c.Violation("gate-model:"+name+":refusal-masked-by-a-later-node", "alone the node's gate refuses with %v; with a node of an unknown operator type behind it Run reports %v", tr.Outcome.Err, o2.Err)
		}
	}
}

// c15SameInstanceSequence: the verdict of the gate must not depend on what the
// same operator instance validated before: a sequence of lists (descending and
// ascending lengths, mixed types) is pushed through ONE instance and every
// outcome is compared with the outcome a fresh instance gives for that list.
func c15SameInstanceSequence(c *Ctx, name string) {
	ar := onnxArity[name]
	max := ar[1]
	if max < 0 {
		max = 5
	}
	shared, err := opset13.GetOperator(name)
	if err != nil {
		return
	}
	lens := []int{max, max + 1, ar[0], 0, max, 1, max - 1, 2, ar[0]}
	for step, n := range lens {
		if n < 0 {
			continue
		}
		build := func() []tensor.Tensor {
			in := make([]tensor.Tensor, n)
			probe, _ := opset13.GetOperator(name)
			cons := probe.GetInputTypeConstraints()
			for i := range in {
				d := tensor.Float32
				if ar[1] >= 0 && i < len(cons) && len(cons[i]) > 0 {
					d = cons[i][(step+i)%len(cons[i])]
				}
				rd, _ := mon.RefDtype(d)
				in[i] = mon.ToTensor(ref.New(rd, 2))
			}
			return in
		}
		type verdict struct {
			err    bool
			length int
			nils   string
		}
		judge := func(op ops.Operator, in []tensor.Tensor) (v verdict, panicked string) {
			o := mon.Capture(nil, func() ([]tensor.Tensor, error) {
				out, err := op.ValidateInputs(in)
				v.err = err != nil
				if err == nil {
					v.length = len(out)
					for i, t := range out {
						switch {
						case t == nil:
							v.nils += "n"
						case i < len(in) && t == in[i]:
							v.nils += "="
						default:
							v.nils += "?"
						}
					}
				}
				return nil, nil
			})
			if o.Kind == mon.Panic {
				panicked = o.Describe()
			}
			return v, panicked
		}
		fresh, _ := opset13.GetOperator(name)
		want, p1 := judge(fresh, build())
		got, p2 := judge(shared, build())
		c.Eval(2)
		if p1 != "" || p2 != "" {
			c.Violation("gate:"+name+":panic", "gate panicked in a sequence of calls: %s %s", p1, p2)
			return
		}
		if want != got {
			c.Violation("gate:"+name+":verdict-depends-on-earlier-calls", "list of %d inputs (step %d of the sequence %v): the instance used before gives %+v, a fresh instance gives %+v", n, step, lens, got, want)
			return
		}
	}
	c.Nontrivial("same-instance-sequence|" + name)
}

// diffOutcomes compares two outcomes of the same request bit for bit.
func diffOutcomes(a, b mon.Outcome) string {
	if a.Kind != b.Kind {
		return fmt.Sprintf("first %s, then %s", trunc(a.Describe(), 150), trunc(b.Describe(), 150))
	}
	if a.Kind != mon.Value {
		return ""
	}
	if len(a.Vals) != len(b.Vals) {
		return fmt.Sprintf("%d outputs, then %d", len(a.Vals), len(b.Vals))
	}
	for i := range a.Vals {
		x, y := a.Vals[i], b.Vals[i]
		if (x == nil) != (y == nil) {
			return fmt.Sprintf("output %d nil-ness differs", i)
		}
		if x == nil {
			continue
		}
		if kind, what := CompareValue(x, &ref.Approx{T: y}, CmpBits); kind != "" {
			return fmt.Sprintf("output %d: %s %s", i, kind, what)
		}
	}
	return ""
}
