package props

import (
	"fmt"
	"runtime"
	"strings"

	"github.com/advancedclimatesystems/gonnx/ops"
	"gorgonia.org/tensor"

	"verif/harness/gen"
	"verif/harness/mon"
	"verif/harness/ref"
)

// String-tensor probe. The shape/index operators and the broadcast helpers
// accept String tensors (ops.AllTypes). gorgonia copies string headers into
// memory the garbage collector does not scan when it clones, materialises or
// repeats a String tensor, so the element bytes of the result are reclaimed by
// the next GC cycle. The probe makes that deterministic: run the operation,
// drop the inputs, churn the heap with GC cycles, then read the result back.
// It is the last case of C07, C08 and C14; what it reports is a recorded known
// finding (the defect is in the dependency), with its own signature so that any
// other wrong answer on these operators is still a VIOLATION.

func churnHeap() {
	// collect, then refill the small size classes (the probe strings are 12 bytes) so that
	// reclaimed slots are overwritten; repeated because sweeping is lazy
	var junk [][]byte
	for round := 0; round < 4; round++ {
		runtime.GC()
		for i := 0; i < 60000; i++ {
			b := make([]byte, 12)
			for k := range b {
				b[k] = 'X'
			}
			junk = append(junk, b)
		}
	}
	runtime.KeepAlive(junk)
}

// stringProbe runs fn (which must build its own String inputs and return the
// result tensor plus the expected element strings) and reports lost elements.
func stringProbe(c *Ctx, sig, what string, fn func() (tensor.Tensor, []string, error)) {
	var res tensor.Tensor
	var want []string
	o := mon.Capture(nil, func() ([]tensor.Tensor, error) {
		var err error
		res, want, err = fn()
		return nil, err
	})
	c.Eval(1)
	if o.Kind != mon.Value {
		c.Count("string-probe:refused:"+what, 1) // refusing String tensors is fine
		return
	}
	churnHeap()
	lost := 0
	o2 := mon.Capture(nil, func() ([]tensor.Tensor, error) {
		data, ok := res.Data().([]string)
		if !ok || len(data) != len(want) {
			lost = len(want)
			return nil, nil
		}
		for i := range want {
			if data[i] != want[i] {
				lost++
			}
		}
		return nil, nil
	})
	if o2.Kind == mon.Panic {
		lost = len(want)
	}
	c.Nontrivial("string-probe|" + what)
	if lost > 0 {
		c.Violation(sig, "%s of a String tensor: %d of %d result elements no longer hold their strings after the inputs were dropped and the heap was collected (gorgonia copies string headers into memory the GC does not scan)", what, lost, len(want))
	} else {
		c.Count("string-probe:intact:"+what, 1)
	}
}

func stringTensor(shape ...int) (tensor.Tensor, []string) {
	n := ref.NumElems(shape)
	s := make([]string, n)
	for i := range s {
		s[i] = strings.Repeat(fmt.Sprint(1000+i), 3)
	}
	// the expected values are built separately: sharing the backing bytes with the input
	// strings would keep them alive and hide the defect
	want := make([]string, n)
	for i := range want {
		want[i] = strings.Repeat(fmt.Sprint(1000+i), 3)
	}
	return tensor.New(tensor.WithShape(shape...), tensor.WithBacking(s)), want
}

func opOnStrings(name string, attrs []*mon.Attr, extra ...*ref.T) func() (tensor.Tensor, []string, error) {
	return func() (tensor.Tensor, []string, error) {
		x, vals := stringTensor(4, 3)
		req := mon.OpReq{Op: name, Attrs: attrs}
		in := []tensor.Tensor{x}
		for _, e := range extra {
			in = append(in, mon.ToTensor(e))
		}
		node := nodeFor(mon.OpReq{Op: name, Attrs: attrs, Inputs: make([]*ref.T, len(in))})
		for i := range node.Input {
			node.Input[i] = fmt.Sprintf("i%d", i)
		}
		_ = req
		op, err := getOp(name)
		if err != nil {
			return nil, nil, err
		}
		if err := op.Init(node); err != nil {
			return nil, nil, err
		}
		vin, err := op.ValidateInputs(in)
		if err != nil {
			return nil, nil, err
		}
		out, err := op.Apply(vin)
		if err != nil {
			return nil, nil, err
		}
		// the probes use element-order-preserving requests, so the expected strings are the input's
		return out[0], vals[:minInt(len(vals), out[0].Shape().TotalSize())], nil
	}
}

func c07StringProbe(c *Ctx) {
	c.SetCase("string-tensor probe: Reshape / Flatten / Squeeze / Unsqueeze of a String tensor, read back after GC")
	sig := "string-tensor-elements-lost-after-gc"
	stringProbe(c, sig, "Reshape", opOnStrings("Reshape", nil, gen.I64s(2, 6)))
	stringProbe(c, sig, "Flatten", opOnStrings("Flatten", []*mon.Attr{mon.AttrI("axis", 1)}))
	stringProbe(c, sig, "Unsqueeze", opOnStrings("Unsqueeze", nil, gen.I64s(0)))
	stringProbe(c, sig, "Squeeze", opOnStrings("Squeeze", nil))
}

func c08StringProbe(c *Ctx) {
	c.SetCase("string-tensor probe: Slice / Expand / Concat / Transpose of a String tensor, read back after GC")
	sig := "string-tensor-elements-lost-after-gc"
	stringProbe(c, sig, "Slice", opOnStrings("Slice", nil, gen.I64s(0), gen.I64s(3)))
	stringProbe(c, sig, "Expand", opOnStrings("Expand", nil, gen.I64s(4, 3)))
	stringProbe(c, sig, "Transpose(identity perm)", opOnStrings("Transpose", []*mon.Attr{mon.AttrInts("perm", []int64{0, 1})}))
}

func c14StringProbe(c *Ctx) {
	c.SetCase("string-tensor probe: MultidirectionalBroadcast of String tensors, read back after GC")
	stringProbe(c, "string-tensor-elements-lost-after-gc", "MultidirectionalBroadcast", func() (tensor.Tensor, []string, error) {
		a, vals := stringTensor(4, 3)
		b, _ := stringTensor(1, 4, 3)
		x, _, err := ops.MultidirectionalBroadcast(a, b)
		return x, vals, err
	})
}
