package props

import (
	"fmt"
	"google.golang.org/protobuf/proto"
	"sync"

	"github.com/advancedclimatesystems/gonnx/onnx"
	"gorgonia.org/tensor"

	"verif/harness/gen"
	"verif/harness/mon"
	"verif/harness/ref"
)

// C12 — weights decode to their declared shape, type and exact values, or are refused.

func init() {
	Register(&Property{
		ID:    "C12",
		Title: "Weights decode to their declared shape, type and exact values, or are refused",
		Cases: func(tier string) int {
			switch tier {
			case "thorough":
				return 8000000
			case "race":
				return 60000
			}
			return 2400000
		},
		Run:            c12Run,
		Floor:          func(tier string) int { return 10000 },
		MemCapMiB:      6144,
		Rule:           "(also: the initializer between two well-formed ones; a default declared as graph input under another shape keeps its dims; a tensor message edited in place before a second NewModel on the same ModelProto object) TensorProtos of the 11 supported element types x raw / typed encoding x ranks 0..4 (extents 0..4) x random bit patterns and extremes (NaN payloads, negative values), decoded (a) by onnx.TensorFromProto, (b) as an initializer of a node-less model whose graph output is the initializer (NewModelFromBytes + Run), (c) as the value of a Constant node; mutations: payload length expected + {-element, -1 byte, +1 byte, +element}, empty payload, typed field with one element too few/many, negative, huge and overflowing dims, every other data_type code with each typed field (or raw) populated. Well-formed => bit-exact shape/type/values (MUST_EQUAL); everything else => error (MUST_ERROR), never a panic or a process-fatal allocation (workers run under an address-space cap). Non-trivial = rank >= 1 payload with a non-zero bit pattern, or a mutated payload; distinct = (type, encoding, dims, mutation, payload hash).",
		RaceInThorough: true,
		Technique:      "runtime monitoring: differential decoding against an independent reference decoder (encoding/binary over the declared type table), exact comparison; child-process isolation with memory cap for hostile dims",
		Assumptions:    []string{"bool payloads restricted to 0/1", "typed int32_data values are within the range of the narrow type they carry (ONNX requirement)"},
	})
}

var otherTypeCodes = []int32{0, 8, 10, 14, 15, 16, 17, 18, 19, 20, 21, 22, 100, -1}

type protoCase struct {
	tp       *onnx.TensorProto
	neutral  ref.Proto
	mutation string
}

func neutralOf(tp *onnx.TensorProto) ref.Proto {
	return ref.Proto{DataType: tp.DataType, Dims: tp.Dims, Raw: tp.RawData, FloatData: tp.FloatData, Int32Data: tp.Int32Data, Int64Data: tp.Int64Data, DoubleData: tp.DoubleData, Uint64Data: tp.Uint64Data}
}

func genProto(r *gen.R) protoCase {
	dt := gen.AllDecodable[r.Intn(len(gen.AllDecodable))]
	rank := r.Range(0, 4)
	shape := make([]int, rank)
	n := 1
	for i := range shape {
		shape[i] = r.Range(1, 4)
		if r.Chance(0.03) {
			shape[i] = 0
		}
		n *= shape[i]
	}
	mode := r.PickInt(gen.FillAnyBits, gen.FillAnyBits, gen.FillSpecial, gen.FillSmall)
	t := r.Tensor(dt, shape, mode, 100)
	if dt == ref.Bool {
		for i := range t.Bits {
			t.Bits[i] &= 1
		}
	}
	raw := r.Bool()
	tp := mon.TensorProto("w", t, raw)
	if dt == ref.Bool && raw && r.Bool() {
		// "true" is any non-zero byte: also bytes with the high bit set
		for i := range tp.RawData {
			if tp.RawData[i] != 0 {
				tp.RawData[i] = byte(r.PickInt(1, 2, 0x7f, 0x80, 0xfe, 0xff))
			}
		}
	}
	if raw && r.Chance(0.1) {
		// a typed field that is empty but not nil (a message re-encoded from typed to raw by
		// re-slicing): the raw payload is the data
		switch tp.DataType {
		case 1:
			tp.FloatData = []float32{}
		case 11:
			tp.DoubleData = []float64{}
		case 7:
			tp.Int64Data = []int64{}
		case 12, 13:
			tp.Uint64Data = []uint64{}
		default:
			tp.Int32Data = []int32{}
		}
	}
	pc := protoCase{tp: tp, mutation: "none"}
	if r.Chance(0.45) {
		sz := dt.Size()
		switch r.Intn(9) {
		case 0:
			if raw && len(tp.RawData) >= sz {
				tp.RawData = tp.RawData[:len(tp.RawData)-sz]
				pc.mutation = "raw short by one element"
			}
		case 1:
			if raw && len(tp.RawData) >= sz && sz > 1 {
				cut := r.Range(1, sz-1)
				tp.RawData = tp.RawData[:len(tp.RawData)-cut]
				pc.mutation = fmt.Sprintf("raw short by %d byte(s) of a %d-byte element", cut, sz)
			}
		case 2:
			if raw && sz > 1 {
				// every surplus that is not a whole element: 1 .. sz-1 bytes (e.g. 4 extra bytes on a DOUBLE payload)
				extra := r.Range(1, sz-1)
				for i := 0; i < extra; i++ {
					tp.RawData = append(tp.RawData, byte(i+1))
				}
				pc.mutation = fmt.Sprintf("raw long by %d byte(s) of a %d-byte element", extra, sz)
			}
		case 3:
			if raw {
				for i := 0; i < sz; i++ {
					tp.RawData = append(tp.RawData, byte(i+1))
				}
				pc.mutation = "raw long by one element"
			}
		case 4:
			if n > 0 {
				tp.RawData, tp.FloatData, tp.Int32Data, tp.Int64Data, tp.DoubleData, tp.Uint64Data = nil, nil, nil, nil, nil, nil
				pc.mutation = "empty payload"
			}
		case 5:
			if !raw && n > 1 {
				switch {
				case tp.FloatData != nil:
					tp.FloatData = tp.FloatData[:n-1]
				case tp.DoubleData != nil:
					tp.DoubleData = tp.DoubleData[:n-1]
				case tp.Int64Data != nil:
					tp.Int64Data = tp.Int64Data[:n-1]
				case tp.Uint64Data != nil:
					tp.Uint64Data = tp.Uint64Data[:n-1]
				default:
					tp.Int32Data = tp.Int32Data[:n-1]
				}
				pc.mutation = "typed field short by one element"
			} else if !raw {
				switch {
				case tp.FloatData != nil:
					tp.FloatData = append(tp.FloatData, 1)
				case tp.DoubleData != nil:
					tp.DoubleData = append(tp.DoubleData, 1)
				case tp.Int64Data != nil:
					tp.Int64Data = append(tp.Int64Data, 1)
				case tp.Uint64Data != nil:
					tp.Uint64Data = append(tp.Uint64Data, 1)
				default:
					tp.Int32Data = append(tp.Int32Data, 1)
				}
				pc.mutation = "typed field long by one element"
			}
		case 6: // dims
			switch r.Intn(6) {
			case 5:
				if rank > 0 { // every dim negated: for even ranks the product still matches the payload
					for i := range tp.Dims {
						tp.Dims[i] = -tp.Dims[i]
					}
					if rank == 1 || r.Bool() {
						tp.Dims = append(tp.Dims, -1)
					}
					pc.mutation = "all dims negated"
				}
			case 0:
				if rank > 0 {
					tp.Dims[r.Intn(rank)] = int64(-r.Range(1, 4))
					pc.mutation = "negative dim"
				}
			case 1:
				tp.Dims = append(tp.Dims, int64(r.Range(2, 3)))
				pc.mutation = "extra dim"
			case 2:
				tp.Dims = append([]int64{}, tp.Dims...)
				tp.Dims = append(tp.Dims, 1<<40)
				pc.mutation = "huge dim"
			case 3:
				tp.Dims = []int64{1 << 40, 1 << 40}
				pc.mutation = "overflowing dims"
			case 4:
				tp.Dims = []int64{int64(r.PickInt(1<<20, 1<<28, 1<<31-1))}
				pc.mutation = "large dim without payload for it"
			}
		case 7, 8: // another data_type code with some field populated
			code := otherTypeCodes[r.Intn(len(otherTypeCodes))]
			tp.DataType = code
			pc.mutation = fmt.Sprintf("unsupported data_type %d", code)
			if r.Bool() {
				tp.RawData, tp.FloatData, tp.Int32Data, tp.Int64Data, tp.DoubleData, tp.Uint64Data = nil, nil, nil, nil, nil, nil
				switch r.Intn(6) {
				case 0:
					tp.RawData = make([]byte, 8*n)
				case 1:
					tp.FloatData = make([]float32, n)
				case 2:
					tp.Int32Data = make([]int32, n)
				case 3:
					tp.Int64Data = make([]int64, n)
				case 4:
					tp.DoubleData = make([]float64, n)
				case 5:
					tp.Uint64Data = make([]uint64, n)
				}
			}
		}
	}
	pc.neutral = neutralOf(tp)
	return pc
}

func c12Run(c *Ctx) {
	pc := genProto(c.R)
	tp := pc.tp
	c.SetCase("TensorProto type=%d dims=%v raw=%d float=%d int32=%d int64=%d double=%d uint64=%d mutation=%q", tp.DataType, tp.Dims, len(tp.RawData), len(tp.FloatData), len(tp.Int32Data), len(tp.Int64Data), len(tp.DoubleData), len(tp.Uint64Data), pc.mutation)
	want, err := ref.Decode(pc.neutral)
	exp := Expect{Kind: MustError, Mode: CmpBits}
	if err == nil {
		exp = Expect{Kind: MustEqual, Want: Exact(want), Mode: CmpBits, Why: "well-formed payload"}
	} else {
		exp.Why = err.Error()
	}
	payloadHash := mon.HashBits([]uint64{uint64(len(tp.RawData)), uint64(len(tp.FloatData) + len(tp.Int32Data) + len(tp.Int64Data) + len(tp.DoubleData) + len(tp.Uint64Data))})
	if want != nil {
		payloadHash ^= mon.HashBits(want.Bits)
	}
	nonzero := false
	if want != nil {
		for _, b := range want.Bits {
			if b != 0 {
				nonzero = true
			}
		}
	}
	if pc.mutation != "none" || (nonzero && len(tp.Dims) > 0) {
		c.Nontrivial(fmt.Sprintf("%d|%v|%s|%x|%v", tp.DataType, tp.Dims, pc.mutation, payloadHash, len(tp.RawData) > 0))
	}
	c.Count("mutation:"+pc.mutation, 1)
	c.Count("class:"+exp.Kind.String(), 1)
	c.Distinct("type-encoding", fmt.Sprintf("%d/%v", tp.DataType, len(tp.RawData) > 0))

	known := func(o mon.Outcome) string {
		// recorded: data_type UNDEFINED is decoded from whichever typed field is populated
		if tp.DataType == 0 && o.Kind == mon.Value && typedFieldPopulated(tp) {
			return "decode:UNDEFINED-data_type-loaded-from-the-populated-typed-field"
		}
		return ""
	}
	judge := func(path string, o mon.Outcome) {
		c.Eval(1)
		c.Count(fmt.Sprintf("outcome-%s:%s/%s", path, exp.Kind, o.Kind), 1)
		if v := Judge(exp, o); !v.OK {
			sig := "decode:" + v.Kind
			if k := known(o); k != "" {
				sig = k
			}
			c.Violation(sig, "[%s] %s | %s | expectation %s %s", path, trunc(v.Detail, 400), c.caseStr, exp.Kind, exp.Why)
		}
	}
	// (a) onnx.TensorFromProto, twice: decoding must not change the message, and the
	// second decoding must give what the first gave
	snapshot := proto.Clone(tp).(*onnx.TensorProto)
	decode := func() mon.Outcome {
		return mon.Capture(nil, func() ([]tensor.Tensor, error) {
			t, err := onnx.TensorFromProto(tp)
			if err != nil {
				return nil, err
			}
			return []tensor.Tensor{t}, nil
		})
	}
	first := decode()
	judge("TensorFromProto", first)
	if !proto.Equal(snapshot, tp) {
		c.Violation("decode:message-modified", "TensorFromProto changed the TensorProto it decoded | %s", c.caseStr)
	}
	if c.Idx%256 == 5 && first.Kind == mon.Value {
		c12Concurrent(c, tp, first)
	}
	if c.Idx%4 == 2 {
		second := decode()
		c.Eval(1)
		if d := diffOutcomes(first, second); d != "" {
			c.Violation("decode:second-decoding-differs", "decoding the same message again: %s | %s", d, c.caseStr)
		}
	}
	// (b) initializer of a node-less model returned as graph output
	if c.Idx%2 == 0 {
		g := &mon.Graph{Outputs: []mon.GInput{{Name: "w", NoType: true}}}
		mp := g.Proto()
		mp.Graph.Initializer = []*onnx.TensorProto{tp}
		if twin := sameBytesOtherType(tp); twin != nil && c.Idx%6 == 0 {
			// ... next to a second initializer with the same dims and byte-identical raw payload but
			// another element type of the same width: each must be decoded with its own type
			mp.Graph.Initializer = append(mp.Graph.Initializer, twin)
			mp.Graph.Output = append(mp.Graph.Output, &onnx.ValueInfoProto{Name: twin.Name})
			if o := mon.RunModelProtoDirect(proto.Clone(mp).(*onnx.ModelProto), nil, []string{"w", twin.Name}); o.Kind == mon.Value && len(o.Vals) == 2 && o.Vals[1] != nil {
				if wantTwin, err := ref.Decode(neutralOf(twin)); err == nil {
					if k, d := CompareValue(o.Vals[1], &ref.Approx{T: wantTwin}, CmpBits); k != "" {
						c.Violation("decode:"+k, "[two initializers with the same bytes] the second one (type %d): %s | %s", twin.DataType, d, c.caseStr)
					}
				}
			}
			c.Eval(1)
			c.Count("models-with-two-initializers-of-the-same-bytes", 1)
			mp.Graph.Initializer = mp.Graph.Initializer[:1]
			mp.Graph.Output = mp.Graph.Output[:1]
		}
		if c.Idx%10 == 4 {
			// the initializer under test between two well-formed ones: an undecodable weight is
			// reported wherever it stands in the list
			g1 := mon.TensorProto("g1", c.R.Tensor(ref.F32, []int{2}, gen.FillSmall, 3), c.R.Bool())
			g2 := mon.TensorProto("g2", c.R.Tensor(ref.I64, []int{3}, gen.FillSmall, 3), c.R.Bool())
			mp.Graph.Initializer = []*onnx.TensorProto{g1, tp, g2}
			c.Count("models-with-the-initializer-between-two-others", 1)
		}
		if c.Idx%10 == 8 && len(tp.Dims) > 0 && len(tp.Dims) < 5 {
			// the weight is also a graph input (a default) whose value-info declares the same number
			// of elements under another shape: the weight keeps the dims of its TensorProto
			decl := append([]int64{}, tp.Dims...)
			if c.R.Bool() {
				decl = append(decl, 1)
			} else {
				decl = append([]int64{1}, decl...)
			}
			sh := &onnx.TensorShapeProto{}
			for _, d := range decl {
				sh.Dim = append(sh.Dim, &onnx.TensorShapeProto_Dimension{Value: &onnx.TensorShapeProto_Dimension_DimValue{DimValue: d}})
			}
			mp.Graph.Input = append(mp.Graph.Input, &onnx.ValueInfoProto{Name: tp.Name, Type: &onnx.TypeProto{Value: &onnx.TypeProto_TensorType{TensorType: &onnx.TypeProto_Tensor{ElemType: tp.DataType, Shape: sh}}}})
			c.Count("models-whose-default-is-declared-under-another-shape", 1)
		}
		if c.Idx%10 == 6 && exp.Kind == MustError {
			// an undecodable weight that a later, well-formed initializer of the same name would
			// replace is still an undecodable weight of the model
			twin := mon.TensorProto(tp.Name, c.R.Tensor(ref.F32, []int{2}, gen.FillSmall, 3), c.R.Bool())
			mp.Graph.Initializer = []*onnx.TensorProto{tp, twin}
			c.Count("models-with-a-later-initializer-of-the-same-name", 1)
		}
		before := proto.Clone(mp)
		load := runProtoModel
		path := "initializer+Run"
		if c.Idx%4 == 2 { // through NewModel on the proto object itself instead of through its bytes
			load = func(mp *onnx.ModelProto, outs []string) mon.Outcome { return mon.RunModelProtoDirect(mp, nil, outs) }
			path = "NewModel(proto)+Run"
		}
		firstLoad := load(mp, []string{"w"})
		judge(path, firstLoad)
		// loading must leave the caller's ModelProto as it was, and the same proto object
		// must load again with the same result
		if !proto.Equal(before, mp) {
			c.Violation("decode:message-modified", "NewModel changed the ModelProto it was given | %s", c.caseStr)
		}
		if c.Idx%8 == 4 || c.Idx%8 == 2 {
			again := load(mp, []string{"w"})
			c.Eval(1)
			if d := diffOutcomes(firstLoad, again); d != "" {
				c.Violation("decode:second-decoding-differs", "loading the same ModelProto object a second time: %s | %s", d, c.caseStr)
			}
		}
	}
	// (c) value of a Constant node
	if c.Idx%4 == 1 {
		g := &mon.Graph{Nodes: []mon.GNode{{Op: "Constant", Outputs: []string{"y"}, Attrs: []*mon.Attr{mon.AttrT("value", tp)}}}, Outputs: []mon.GInput{{Name: "y", NoType: true}}}
		judge("Constant+Run", runProtoModel(g.Proto(), []string{"y"}))
	}
	// (d) the owner of a ModelProto object edits a tensor message in place and makes a new
	// model from the same object: the new model holds what the message says NOW (nothing is
	// remembered per message object)
	if c.Idx%8 == 3 || c.Idx%8 == 6 {
		var mp *onnx.ModelProto
		out, path := "w", "NewModel(proto)+Run after the initializer message was edited in place"
		if c.Idx%8 == 3 {
			g := &mon.Graph{Nodes: []mon.GNode{{Op: "Constant", Outputs: []string{"y"}, Attrs: []*mon.Attr{mon.AttrT("value", tp)}}}, Outputs: []mon.GInput{{Name: "y", NoType: true}}}
			mp, out, path = g.Proto(), "y", "NewModel(proto)+Run after the Constant's tensor message was edited in place"
		} else {
			g := &mon.Graph{Outputs: []mon.GInput{{Name: "w", NoType: true}}}
			mp = g.Proto()
			mp.Graph.Initializer = []*onnx.TensorProto{tp}
		}
		_ = mon.RunModelProtoDirect(mp, nil, []string{out})
		pc2 := genProto(c.R)
		name := tp.Name
		proto.Reset(tp)
		proto.Merge(tp, pc2.tp)
		tp.Name = name
		want2, err2 := ref.Decode(pc2.neutral)
		exp2 := Expect{Kind: MustError, Mode: CmpBits, Why: "edited message is malformed"}
		if err2 == nil {
			exp2 = Expect{Kind: MustEqual, Want: Exact(want2), Mode: CmpBits, Why: "edited message is well-formed"}
		}
		o2 := mon.RunModelProtoDirect(mp, nil, []string{out})
		c.Eval(2)
		c.Count("models-made-again-after-an-in-place-edit-of-a-tensor-message", 1)
		if v := Judge(exp2, o2); !v.OK {
			sig := "decode:" + v.Kind
			if tp.DataType == 0 && o2.Kind == mon.Value && typedFieldPopulated(tp) {
				sig = "decode:UNDEFINED-data_type-loaded-from-the-populated-typed-field"
			}
			c.Violation(sig, "[%s] %s | edited to: type=%d dims=%v raw=%d mutation=%q | before: %s | expectation %s %s", path, trunc(v.Detail, 400), tp.DataType, tp.Dims, len(tp.RawData), pc2.mutation, c.caseStr, exp2.Kind, exp2.Why)
		}
	}
	// (e) the message marked as stored externally, its inline payload removed: there are no
	// values to decode, so a shape that needs elements cannot be loaded (least of all as zeros)
	if c.Idx%16 == 14 && len(tp.Dims) > 0 {
		need := int64(1)
		for _, d := range tp.Dims {
			need *= d
		}
		if _, supported := ref.FromOnnxCode(tp.DataType); supported && need > 0 && need < 1<<20 {
			ext := &onnx.TensorProto{Name: "w", Dims: append([]int64{}, tp.Dims...), DataType: tp.DataType, DataLocation: onnx.TensorProto_EXTERNAL,
				ExternalData: []*onnx.StringStringEntryProto{{Key: "location", Value: "weights.bin"}}}
			o := mon.Capture(nil, func() ([]tensor.Tensor, error) {
				t, err := onnx.TensorFromProto(ext)
				if err != nil {
					return nil, err
				}
				return []tensor.Tensor{t}, nil
			})
			g := &mon.Graph{Outputs: []mon.GInput{{Name: "w", NoType: true}}}
			mp := g.Proto()
			mp.Graph.Initializer = []*onnx.TensorProto{ext}
			om := runProtoModel(mp, []string{"w"})
			c.Eval(2)
			c.Count("external-data-messages-without-inline-payload", 1)
			for _, oo := range []mon.Outcome{o, om} {
				if oo.Kind == mon.Panic {
					c.Violation("decode:panic", "[external data, no inline payload] %s | dims %v type %d", trunc(oo.Describe(), 300), tp.Dims, tp.DataType)
				} else if oo.Kind != mon.Error {
					c.Violation("decode:accepted-invalid", "[external data, no inline payload] a tensor of %d elements was loaded from a message that holds none | dims %v type %d", need, tp.Dims, tp.DataType)
				}
			}
		}
	}
	if c.Idx%12000 == 31 {
		c.Sample(map[string]any{"case": c.caseStr, "expectation": exp.Kind.String(), "why": exp.Why})
	}
}

// c12Concurrent decodes the message in several goroutines at once, next to
// goroutines decoding other messages (clones of it with the payload reversed):
// every decoding must give what the sequential decoding gave (a decoder that
// keeps scratch state in a package-level variable mixes the payloads up). A
// deviation is reported only when it shows again in a second round: a one-off
// could be the recorded collector-related defect of gorgonia (C17 finding), a
// decoder defect shows in every round.
func c12Concurrent(c *Ctx, small *onnx.TensorProto, _ mon.Outcome) {
	// a longer message of the same type and encoding (the payload repeated), so that
	// the decodings really overlap in time
	tp := proto.Clone(small).(*onnx.TensorProto)
	const reps = 512
	n := int64(1)
	for _, d := range tp.Dims {
		n *= d
	}
	if n <= 0 || n > 64 {
		return
	}
	tp.Dims = []int64{n * reps}
	rep := func(k int, grow func()) {
		if k > 0 {
			for i := 1; i < reps; i++ {
				grow()
			}
		}
	}
	raw, f32, i32, i64, f64, u64 := tp.RawData, tp.FloatData, tp.Int32Data, tp.Int64Data, tp.DoubleData, tp.Uint64Data
	rep(len(raw), func() { tp.RawData = append(tp.RawData, raw...) })
	rep(len(f32), func() { tp.FloatData = append(tp.FloatData, f32...) })
	rep(len(i32), func() { tp.Int32Data = append(tp.Int32Data, i32...) })
	rep(len(i64), func() { tp.Int64Data = append(tp.Int64Data, i64...) })
	rep(len(f64), func() { tp.DoubleData = append(tp.DoubleData, f64...) })
	rep(len(u64), func() { tp.Uint64Data = append(tp.Uint64Data, u64...) })
	first := mon.Capture(nil, func() ([]tensor.Tensor, error) {
		t, err := onnx.TensorFromProto(tp)
		if err != nil {
			return nil, err
		}
		return []tensor.Tensor{t}, nil
	})
	if first.Kind != mon.Value {
		return
	}
	other := proto.Clone(tp).(*onnx.TensorProto)
	for i, j := 0, len(other.RawData)-1; i < j; i, j = i+1, j-1 {
		other.RawData[i], other.RawData[j] = other.RawData[j], other.RawData[i]
	}
	for i, j := 0, len(other.FloatData)-1; i < j; i, j = i+1, j-1 {
		other.FloatData[i], other.FloatData[j] = other.FloatData[j], other.FloatData[i]
	}
	round := func() string {
		const G = 6
		diffs := make([]string, G)
		var wg sync.WaitGroup
		start := make(chan struct{})
		for g := 0; g < G; g++ {
			wg.Add(1)
			go func(g int) {
				defer wg.Done()
				<-start
				for k := 0; k < 8; k++ {
					msg := tp
					if g%2 == 1 {
						msg = other
					}
					o := mon.Capture(nil, func() ([]tensor.Tensor, error) {
						t, err := onnx.TensorFromProto(msg)
						if err != nil {
							return nil, err
						}
						return []tensor.Tensor{t}, nil
					})
					if g%2 == 0 {
						if d := diffOutcomes(first, o); d != "" && diffs[g] == "" {
							diffs[g] = d
						}
					}
				}
			}(g)
		}
		close(start)
		wg.Wait()
		for _, d := range diffs {
			if d != "" {
				return d
			}
		}
		return ""
	}
	c.Count("concurrent-decoding-rounds", 1)
	c.Eval(1)
	if d := round(); d != "" {
		if d2 := round(); d2 != "" {
			c.Violation("decode:concurrent-decoding-differs", "6 goroutines decoding at once (3 this message, 3 another one): a result differs from the sequential decoding, in two rounds out of two: %s | %s", d, c.caseStr)
		} else {
			c.Count("concurrent-decoding-deviation-not-reproduced", 1)
		}
	}
}

// sameBytesOtherType returns a raw-encoded copy of tp under another name with
// another element type of the same byte width (nil when there is none).
func sameBytesOtherType(tp *onnx.TensorProto) *onnx.TensorProto {
	if len(tp.RawData) == 0 {
		return nil
	}
	other := map[int32]int32{1: 6, 6: 1, 7: 11, 11: 7, 12: 1, 13: 11, 2: 3, 3: 2, 4: 5, 5: 4}[tp.DataType]
	if other == 0 {
		return nil
	}
	twin := proto.Clone(tp).(*onnx.TensorProto)
	twin.Name = "w_twin"
	twin.DataType = other
	return twin
}

// typedFieldPopulated: the recorded finding about data_type UNDEFINED is the guess from a populated
// TYPED field; a message that only carries raw bytes (or nothing) has no type to guess.
func typedFieldPopulated(tp *onnx.TensorProto) bool {
	return len(tp.FloatData)+len(tp.Int32Data)+len(tp.Int64Data)+len(tp.DoubleData)+len(tp.Uint64Data)+len(tp.StringData) > 0
}
