// probewrap: how does the unchanged library treat operands that implement tensor.Tensor
// by embedding *tensor.Dense (a caller's own wrapper type)?
package main

import (
	"fmt"

	"gorgonia.org/tensor"

	"verif/harness/gen"
	"verif/harness/mon"
	"verif/harness/props"
)

type labelled struct {
	*tensor.Dense
	label string
}

func main() {
	okOps, badOps := 0, 0
	for _, name := range props.C15Names() {
		ok, bad, firstErr := 0, 0, ""
		for i := 0; i < 40; i++ {
			r := gen.ForCase(1, "probewrap/"+name, i)
			req, exp, valid := props.SampleValidReq(r, name, true)
			if !valid || exp.Kind != props.MustEqual {
				continue
			}
			plain, _ := mon.RunOpAPI(req)
			if plain.Kind != mon.Value {
				continue
			}
			wrapped := mon.RunOpOnWrapped(req, func(t tensor.Tensor) tensor.Tensor {
				if d, isDense := t.(*tensor.Dense); isDense {
					return labelled{Dense: d, label: "x"}
				}
				return t
			})
			if v := props.Judge(exp, wrapped); v.OK {
				ok++
			} else {
				bad++
				if firstErr == "" {
					firstErr = v.Kind + ": " + v.Detail
					if len(firstErr) > 160 {
						firstErr = firstErr[:160]
					}
				}
			}
		}
		if bad == 0 {
			okOps++
		} else {
			badOps++
		}
		fmt.Printf("%-18s ok=%d bad=%d %s\n", name, ok, bad, firstErr)
	}
	fmt.Println("operators fine with wrapped operands:", okOps, "not fine:", badOps)
}
