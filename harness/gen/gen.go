// Package gen holds the seeded, boundary-biased generators. All randomness
// comes from one splitmix64 stream derived from (VERIF_SEED, property, index),
// so every case is replayable from those three values.
package gen

import (
	"math"

	"verif/harness/ref"
)

// R is a splitmix64 stream.
type R struct{ s uint64 }

// New creates a stream.
func New(seed uint64) *R { return &R{s: seed} }

// ForCase derives the stream of one case.
func ForCase(seed uint64, prop string, idx int) *R {
	h := seed*0x9E3779B97F4A7C15 + 0x1234567
	for _, c := range []byte(prop) {
		h = (h ^ uint64(c)) * 0x100000001B3
	}
	r := New(h ^ (uint64(idx)+1)*0xD6E8FEB86659FD93)
	r.U64()
	r.U64()
	return r
}

// U64 returns the next 64 random bits.
func (r *R) U64() uint64 {
	r.s += 0x9E3779B97F4A7C15
	z := r.s
	z = (z ^ (z >> 30)) * 0xBF58476D1CE4E5B9
	z = (z ^ (z >> 27)) * 0x94D049BB133111EB
	return z ^ (z >> 31)
}

// Intn returns a value in [0, n).
func (r *R) Intn(n int) int {
	if n <= 0 {
		return 0
	}
	return int(r.U64() % uint64(n))
}

// Range returns a value in [lo, hi].
func (r *R) Range(lo, hi int) int { return lo + r.Intn(hi-lo+1) }

// Bool returns a fair coin.
func (r *R) Bool() bool { return r.U64()&1 == 1 }

// Chance returns true with probability p.
func (r *R) Chance(p float64) bool { return r.F64() < p }

// F64 returns a value in [0,1).
func (r *R) F64() float64 { return float64(r.U64()>>11) / (1 << 53) }

// Uniform returns a value in [lo, hi).
func (r *R) Uniform(lo, hi float64) float64 { return lo + (hi-lo)*r.F64() }

// PickInt picks one of xs.
func (r *R) PickInt(xs ...int) int { return xs[r.Intn(len(xs))] }

// PickStr picks one of xs.
func (r *R) PickStr(xs ...string) string { return xs[r.Intn(len(xs))] }

// PickDT picks one of ds.
func (r *R) PickDT(ds ...ref.DType) ref.DType { return ds[r.Intn(len(ds))] }

// Perm returns a random permutation of 0..n-1.
func (r *R) Perm(n int) []int {
	p := make([]int, n)
	for i := range p {
		p[i] = i
	}
	for i := n - 1; i > 0; i-- {
		j := r.Intn(i + 1)
		p[i], p[j] = p[j], p[i]
	}
	return p
}

// Extent draws an extent from a boundary-biased pool (1 over-represented).
func (r *R) Extent(max int) int {
	pool := []int{1, 1, 1, 2, 2, 3, 3, 4, 5, 7}
	for {
		e := pool[r.Intn(len(pool))]
		if e <= max {
			return e
		}
	}
}

// Shape draws a shape of rank in [minRank, maxRank] with extents <= maxExt and
// at most maxElems elements.
func (r *R) Shape(minRank, maxRank, maxExt, maxElems int) []int {
	for {
		rank := r.Range(minRank, maxRank)
		s := make([]int, rank)
		n := 1
		for i := range s {
			s[i] = r.Extent(maxExt)
			n *= s[i]
		}
		if n <= maxElems {
			return s
		}
	}
}

// NumericDTs are the ten numeric element types.
var NumericDTs = []ref.DType{ref.F32, ref.F64, ref.I8, ref.I16, ref.I32, ref.I64, ref.U8, ref.U16, ref.U32, ref.U64}

// AllDecodable are the eleven element types gonnx can decode.
var AllDecodable = append(append([]ref.DType{}, NumericDTs...), ref.Bool)

// All14 are all fourteen gorgonia element types gonnx mentions.
var All14 = append(append([]ref.DType{}, AllDecodable...), ref.C64, ref.C128, ref.Str)

// Data13 are the element types used for value-carrying workloads: all of All14
// except String. gorgonia v0.9.24 copies string headers into pointer-free
// memory when it clones or materialises a String tensor, so the element bytes
// are garbage after the next GC cycle (recorded as a known finding and
// demonstrated by a dedicated, deterministic probe; see props/strings.go).
// Keeping strings in the random workloads would make them flaky.
var Data13 = append(append([]ref.DType{}, AllDecodable...), ref.C64, ref.C128)

func intLimits(dt ref.DType) (lo, hi int64) {
	switch dt {
	case ref.I8:
		return math.MinInt8, math.MaxInt8
	case ref.I16:
		return math.MinInt16, math.MaxInt16
	case ref.I32:
		return math.MinInt32, math.MaxInt32
	case ref.I64:
		return math.MinInt64, math.MaxInt64
	case ref.U8:
		return 0, math.MaxUint8
	case ref.U16:
		return 0, math.MaxUint16
	case ref.U32:
		return 0, math.MaxUint32
	}
	return 0, math.MaxInt64 // U64 handled by caller for the top half
}

var f32Specials = []uint32{
	0x00000000, 0x80000000, // ±0
	0x00000001, 0x80000001, // ±smallest subnormal
	0x007fffff,             // largest subnormal
	0x00800000, 0x80800000, // ±smallest normal
	0x3f800000, 0xbf800000, // ±1
	0x7f7fffff, 0xff7fffff, // ±max
	0x7f800000, 0xff800000, // ±Inf
	0x7fc00000, 0xffc00000, 0x7fc00001, 0x7f800001, // NaNs (quiet, negative, payload, signalling)
	0x3f7fffff, 0x3f800001, // just inside / outside 1
	0x42b20000, 0xc2b20000, // ±89 (exp overflows float32)
	0x3f000000, 0x40490fdb, // 0.5, pi
}

var f64Specials = []uint64{
	0x0000000000000000, 0x8000000000000000,
	0x0000000000000001, 0x8000000000000001,
	0x000fffffffffffff,
	0x0010000000000000, 0x8010000000000000,
	0x3ff0000000000000, 0xbff0000000000000,
	0x7fefffffffffffff, 0xffefffffffffffff,
	0x7ff0000000000000, 0xfff0000000000000,
	0x7ff8000000000000, 0xfff8000000000000, 0x7ff8000000000001, 0x7ff0000000000001,
	0x3fefffffffffffff, 0x3ff0000000000001,
	0x4086400000000000, 0xc086400000000000, // ±712 (exp overflows float64)
	0x3fe0000000000000, 0x400921fb54442d18,
}

// SpecialBits returns a special value of dt (floats: IEEE corner cases;
// integers: 0, ±1, extremes and values that overflow under + - *).
func (r *R) SpecialBits(dt ref.DType) uint64 {
	switch dt {
	case ref.F32:
		return uint64(f32Specials[r.Intn(len(f32Specials))])
	case ref.F64:
		return f64Specials[r.Intn(len(f64Specials))]
	case ref.Bool:
		return r.U64() & 1
	case ref.U64:
		return []uint64{0, 1, 2, math.MaxUint64, math.MaxUint64 - 1, 1 << 63, 1<<63 - 1, 1 << 32, 3}[r.Intn(9)]
	}
	lo, hi := intLimits(dt)
	vals := []int64{0, 1, -1, 2, -2, lo, hi, lo + 1, hi - 1, hi / 2, lo / 2, hi/2 + 1, 3}
	v := vals[r.Intn(len(vals))]
	if dt.IsUnsigned() && v < 0 {
		v = -v
	}
	return ref.Wrap(dt, uint64(v))
}

// SmallBits returns a small "ordinary" value of dt: floats in (-scale, scale)
// (uniform or log-uniform), integers in [-scale, scale] (non-negative for unsigned).
func (r *R) SmallBits(dt ref.DType, scale float64) uint64 {
	switch {
	case dt.IsFloat():
		var v float64
		if r.Chance(0.3) {
			v = math.Exp(r.Uniform(-8, math.Log(scale))) * float64(1-2*r.Intn(2))
		} else {
			v = r.Uniform(-scale, scale)
		}
		if r.Chance(0.25) {
			v = math.Round(v)
		}
		return ref.EncF(dt, v)
	case dt == ref.Bool:
		return r.U64() & 1
	default:
		s := int64(scale)
		if s < 1 {
			s = 1
		}
		v := int64(r.Intn(int(2*s+1))) - s
		if dt.IsUnsigned() && v < 0 {
			v = -v
		}
		if dt == ref.I8 || dt == ref.U8 {
			v %= 100
		}
		return ref.Wrap(dt, uint64(v))
	}
}

// Fill modes.
const (
	FillSmall   = iota // ordinary small values
	FillSpecial        // mostly corner cases
	FillMixed          // half and half
	FillUnique         // 1, 2, 3, … (every element identifies its source)
	FillAnyBits        // uniformly random bit patterns
)

// Tensor draws a tensor of the given type and shape.
func (r *R) Tensor(dt ref.DType, shape []int, mode int, scale float64) *ref.T {
	t := ref.New(dt, shape...)
	base := int64(r.Range(1, 9))
	for i := range t.Bits {
		switch mode {
		case FillSmall:
			t.Bits[i] = r.SmallBits(dt, scale)
		case FillSpecial:
			if r.Chance(0.8) {
				t.Bits[i] = r.SpecialBits(dt)
			} else {
				t.Bits[i] = r.SmallBits(dt, scale)
			}
		case FillMixed:
			if r.Chance(0.4) {
				t.Bits[i] = r.SpecialBits(dt)
			} else {
				t.Bits[i] = r.SmallBits(dt, scale)
			}
		case FillUnique:
			v := base + int64(i)
			switch {
			case dt.IsFloat():
				t.Bits[i] = ref.EncF(dt, float64(v))
			case dt == ref.Bool:
				t.Bits[i] = uint64(v>>uint(i%3)) & 1
			case dt == ref.I8 || dt == ref.U8:
				t.Bits[i] = ref.Wrap(dt, uint64(v%120))
			default:
				t.Bits[i] = ref.Wrap(dt, uint64(v))
			}
		case FillAnyBits:
			t.Bits[i] = ref.Wrap(dt, r.U64())
		}
	}
	return t
}

// Primes returns distinct small primes as a float tensor (data-movement and
// convolution inputs: a wrong tap changes the sum visibly).
func (r *R) Primes(dt ref.DType, shape []int) *ref.T {
	t := ref.New(dt, shape...)
	p := []int{2, 3, 5, 7, 11, 13, 17, 19, 23, 29, 31, 37, 41, 43, 47, 53, 59, 61, 67, 71, 73, 79, 83, 89, 97, 101, 103, 107, 109, 113}
	off := r.Intn(len(p))
	for i := range t.Bits {
		v := float64(p[(off+i)%len(p)]) + float64((off+i)/len(p))*0.5
		if r.Chance(0.3) {
			v = -v
		}
		t.Bits[i] = ref.EncF(dt, v)
	}
	return t
}

// I64s builds a 1-D int64 tensor.
func I64s(vals ...int64) *ref.T { return ref.FromI(ref.I64, []int{len(vals)}, vals) }

// HashStr hashes a descriptor string to 64 bits (for distinct-case counting).
func HashStr(s string) uint64 {
	h := uint64(14695981039346656037)
	for i := 0; i < len(s); i++ {
		h ^= uint64(s[i])
		h *= 1099511628211
	}
	return h
}

// PickFloat picks one of xs.
func (r *R) PickFloat(xs ...float64) float64 { return xs[r.Intn(len(xs))] }

// PickShape picks one of the shapes.
func (r *R) PickShape(xs ...[]int) []int { return xs[r.Intn(len(xs))] }
