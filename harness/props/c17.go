package props

import (
	"fmt"
	"runtime"
	"sort"
	"strings"
	"sync"
	"sync/atomic"
	"time"

	"github.com/advancedclimatesystems/gonnx"
	"gorgonia.org/tensor"

	"verif/harness/gen"
	"verif/harness/mon"
	"verif/harness/ref"
)

// C17 — a loaded Model can be run from many goroutines at once.
//
// The deciding oracle is the Go race detector (every tier of this property runs
// in the -race build; the supervisor parses the detector's log). In-process
// monitors add: each concurrent Run must return bit for bit what the same input
// returns sequentially, weights must be unchanged at quiescence, no Run may
// fail or panic that succeeds sequentially.

func init() {
	Register(&Property{
		ID:    "C17",
		Title: "A loaded Model can be run from many goroutines at once",
		Cases: func(tier string) int {
			switch tier {
			case "thorough":
				return 4800
			case "cold":
				return 44
			case "cold-thorough":
				return 660
			}
			return 240
		},
		Run:        c17Run,
		RaceOnly:   true,
		ChildProbe: "gcprobe", ChildProbeSignature: GCFindingSignature,
		Floor:       func(tier string) int { return 40 },
		Rule:        "(plus a pass of cold-start trials, one per fresh worker process: the concurrent Runs are the first thing the library does in that process, the sequential baseline is computed afterwards) (one trial kind in twenty: Runs of differing shapes - every Run of a recurrent / Conv / MatMul / Gemm / broadcast node has its own batch, sequence or spatial extents) trials of 2..16 goroutines x 3..12 Runs each on one shared Model (each goroutine with its own input tensors, released together by a start barrier), plus 0..2 goroutines loading models (same bytes and other bytes) meanwhile; models: the sample models mlp/gru/scaler (ndm sparingly) and generated programs covering every family that reads shared state (initializers as Gemm/MatMul/Conv weights and bias, as initial_h/initial_c, as Reshape/Expand/Slice/Gather parameters, as PRelu slope, as ArgMax/Reduce operands, typed-field initializers, Constant/Scaler/LinearRegressor attribute tensors); GOMAXPROCS rotated over {2,4,8,16}; in half of the trials a light operator proxy injects PRNG-chosen yields/sleeps between node phases and records the global (goroutine,node) event order. in a third of the trials some Runs get one input of another shape, so that failing Runs (signature check, errors inside nodes) execute concurrently with succeeding ones and their error must be the one obtained alone. Oracles: Go race detector reports (parsed from the detector log, deduplicated by outermost frames), bit-exact comparison of every concurrent result with the sequential baseline of a fresh model, weight fingerprints at quiescence, no error/panic. A trial counts as non-trivial only if at least one pair of Runs overlapped in time (measured from one atomic clock); distinct = (model structure, goroutines, runs).",
		Technique:   "Go race detector (-race build) over stress workloads with injected yields, plus in-process monitors: sequential-baseline value comparison and weight fingerprints at quiescence",
		Assumptions: []string{"the race detector only sees accesses that are executed: the workload enumerates the roles a shared weight can play", "by C02 the sequential specification of Run is a pure function of its input, so linearizability reduces to per-call comparison with the baseline"},
		Extra: func(a *Aggregate, cov map[string]any) {
			cov["runs_executed_concurrently"] = a.Counters["runs"]
			cov["overlapping_run_pairs_observed"] = a.Counters["overlapping-pairs"]
			cov["race_detector_reports"] = a.Counters["race:reports"]
			if s, ok := a.Sets["interleaving-signature"]; ok {
				cov["distinct_interleaving_signatures"] = len(s)
			}
		},
	})
}

var c17Clock int64

// c17Run runs one trial. Deviations other than race-detector reports (a value
// that differs from the sequential baseline, a Run that fails or panics only
// concurrently, a modified weight) are re-examined: the same trial is re-run up
// to eight times. A defect of the library's own synchronisation shows again (the
// seeded changes of this kind reproduce in every trial that reaches them); a
// deviation that never shows again is attributed to the recorded finding
// "tensor memory freed while referenced through a uintptr" (gorgonia's unsafe
// slice headers under a concurrent collector; demonstrated on every run by the
// child-process probe props.GCProbe) instead of being reported under the
// trial's own signature.
func c17Run(c *Ctx) {
	first := c.Captured(func() { c17Trial(c) })
	if len(first) == 0 {
		return
	}
	reproduced := 0
	for k := 0; k < 8 && reproduced == 0; k++ {
		c.R = gen.ForCase(c.Seed, c.Prop, c.Idx)
		if again := c.Captured(func() { c17Trial(c) }); len(again) > 0 {
			reproduced = k + 1
		}
	}
	c.Count("trials-re-examined", 1)
	if reproduced > 0 {
		for _, v := range first {
			c.Violation(v.Sig, "%s [shown again when the trial was re-run, attempt %d]", v.Detail, reproduced)
		}
		return
	}
	c.Count("deviations-not-reproduced", 1)
	c.Violation(GCFindingSignature, "%s: %s [not shown again in 8 re-runs of the same trial]", first[0].Sig, first[0].Detail)
}

// GCFindingSignature names the recorded C17 finding (see GCProbe).
const GCFindingSignature = "concurrent:tensor-memory-freed-while-referenced-through-uintptr(gorgonia)"

func c17Trial(c *Ctx) {
	r := c.R
	var spec *modelSpec
	var desc string
	kind := c.Idx % 20
	// cold-start trials (tier "cold*": one trial per fresh worker process): the concurrent
	// Runs are the first thing the library does in the process - whatever it initialises on
	// first use (tables, caches, pools) is initialised by Runs that overlap
	cold := strings.HasPrefix(c.Tier, "cold") && !c.coldDone
	c.coldDone = true
	if cold {
		kind = []int{0, 5, 6, 7, 8, 9, 10, 11, 12, 14, 15}[c.Idx%11]
		c.Count("cold-start-trials", 1)
	}
	switch {
	case kind < 4:
		specs := sampleModels()
		spec = specs[r.Intn(3)]
		if r.Chance(0.08) {
			spec = specs[3]
		}
		desc = spec.Name
	case kind == 13:
		// error paths: every Run gets an operand of another shape, most of them incompatible
		// with the shared weight, so that failing Runs (broadcast errors, shape mismatches
		// inside a node) execute concurrently and must report what they report alone
		op := r.PickStr("Add", "Mul", "Sub", "Div", "Greater", "PRelu", "MatMul", "Gemm")
		a, b := r.Range(2, 4), r.Range(2, 4)
		W := numTensor(r, ref.F32, []int{a, b})
		req := mon.OpReq{Op: op, Inputs: []*ref.T{numTensor(r, ref.F32, []int{a, b}), W}}
		if op == "Gemm" {
			req.Inputs = []*ref.T{numTensor(r, ref.F32, []int{a, a}), numTensor(r, ref.F32, []int{a, b}), W}
		}
		g, feed := mon.BuildOpModel(req, mon.ModelOpts{InitMask: ^uint64(1), DynamicIn: true})
		var outs []string
		for _, o := range g.Outputs {
			outs = append(outs, o.Name)
		}
		base := feed["i0"]
		spec = &modelSpec{Name: "error paths " + op, Bytes: g.Bytes(), Outputs: outs,
			Feed: func(fr *gen.R, _ int) map[string]*ref.T {
				if fr.Chance(0.25) {
					return map[string]*ref.T{"i0": base.Clone()}
				}
				return map[string]*ref.T{"i0": numTensor(fr, ref.F32, []int{fr.Range(1, 6), fr.Range(1, 6)})}
			}}
		desc = "error paths: " + trunc(req.Describe(), 300)
	case kind == 14:
		// Runs of differing input shapes on one model: anything the library keeps per shape
		// (or per "last seen" operand) between or across Runs is exposed when Runs whose
		// batch / sequence / spatial extents differ execute at the same time
		var req mon.OpReq
		var mask uint64
		var draw func(fr *gen.R) map[string]*ref.T
		switch pick := r.Intn(10); {
		case pick < 6:
			op := r.PickStr("GRU", "LSTM", "RNN")
			gates := recGates(op)
			I, H := r.Range(1, 5), r.Range(1, 6)
			w := uniformT(r, ref.F32, []int{1, gates * H, I}, 0.4)
			rr := uniformT(r, ref.F32, []int{1, gates * H, H}, 0.4)
			var b *ref.T
			if r.Bool() {
				b = uniformT(r, ref.F32, []int{1, 2 * gates * H}, 0.4)
			}
			withH0 := r.Bool()
			req = mon.OpReq{Op: op, Inputs: []*ref.T{uniformT(r, ref.F32, []int{2, 2, I}, 2), w, rr, b}, Attrs: []*mon.Attr{mon.AttrI("hidden_size", int64(H))}}
			mask = 2 | 4 | 8
			if withH0 {
				req.Inputs = append(req.Inputs, nil, uniformT(r, ref.F32, []int{1, 2, H}, 1))
			}
			draw = func(fr *gen.R) map[string]*ref.T {
				S, B := fr.Range(1, 4), fr.Range(1, 5)
				f := map[string]*ref.T{"i0": uniformT(fr, ref.F32, []int{S, B, I}, 2)}
				if withH0 {
					f["i5"] = uniformT(fr, ref.F32, []int{1, B, H}, 1)
				}
				return f
			}
		case pick == 6:
			C, M, k := r.Range(1, 3), r.Range(1, 3), r.Range(1, 3)
			req = mon.OpReq{Op: "Conv", Inputs: []*ref.T{numTensor(r, ref.F32, []int{1, C, 4, 4}), numTensor(r, ref.F32, []int{M, C, k, k}), numTensor(r, ref.F32, []int{M})}}
			mask = 2 | 4
			draw = func(fr *gen.R) map[string]*ref.T {
				return map[string]*ref.T{"i0": numTensor(fr, ref.F32, []int{fr.Range(1, 3), C, fr.Range(k, k+4), fr.Range(k, k+4)})}
			}
		case pick == 7:
			k, n := r.Range(2, 12), r.Range(2, 12)
			req = mon.OpReq{Op: "MatMul", Inputs: []*ref.T{numTensor(r, ref.F32, []int{2, k}), numTensor(r, ref.F32, []int{k, n})}}
			mask = 2
			draw = func(fr *gen.R) map[string]*ref.T {
				shape := []int{fr.Range(1, 5), k}
				if fr.Bool() {
					shape = []int{fr.Range(1, 3), fr.Range(1, 4), k}
				}
				return map[string]*ref.T{"i0": numTensor(fr, ref.F32, shape)}
			}
		case pick == 8:
			k, n := r.Range(2, 8), r.Range(2, 8)
			req = mon.OpReq{Op: "Gemm", Inputs: []*ref.T{numTensor(r, ref.F32, []int{2, k}), numTensor(r, ref.F32, []int{k, n}), numTensor(r, ref.F32, []int{n})}}
			mask = 2 | 4
			draw = func(fr *gen.R) map[string]*ref.T {
				return map[string]*ref.T{"i0": numTensor(fr, ref.F32, []int{fr.Range(1, 6), k})}
			}
		default:
			n := r.Range(1, 5)
			op := r.PickStr("Add", "Mul", "PRelu", "Sub", "Div")
			req = mon.OpReq{Op: op, Inputs: []*ref.T{numTensor(r, ref.F32, []int{2, n}), numTensor(r, ref.F32, []int{n})}}
			mask = 2
			draw = func(fr *gen.R) map[string]*ref.T {
				shape := []int{fr.Range(1, 5), n}
				if fr.Bool() {
					shape = []int{fr.Range(1, 3), fr.Range(1, 3), n}
				}
				return map[string]*ref.T{"i0": numTensor(fr, ref.F32, shape)}
			}
		}
		g, _ := mon.BuildOpModel(req, mon.ModelOpts{InitMask: mask, DynamicIn: true, RawInits: r.Bool()})
		var outs []string
		for _, o := range g.Outputs {
			outs = append(outs, o.Name)
		}
		spec = &modelSpec{Name: "differing shapes " + req.Op, Bytes: g.Bytes(), Outputs: outs,
			Feed: func(fr *gen.R, _ int) map[string]*ref.T { return draw(fr) }}
		desc = "Runs of differing shapes: " + trunc(req.Describe(), 300)
	case kind == 12:
		// linear-algebra roles of a shared weight: vector x matrix, matrix x vector,
		// batched x matrix, vector x batched matrix, Gemm with a transposed weight
		k, n := r.Range(8, 40), r.Range(8, 40) // large enough for the Runs to overlap inside the product
		W := numTensor(r, ref.F32, []int{k, n})
		var req mon.OpReq
		mask := uint64(2)
		switch r.Intn(7) {
		case 5: // a stack of 1x1 products: (b,1,k) x (k)
			wv := numTensor(r, ref.F32, []int{k})
			req = mon.OpReq{Op: "MatMul", Inputs: []*ref.T{numTensor(r, ref.F32, []int{r.Range(2, 9), 1, k}), wv}}
		case 6: // (k) x (b,k,1), the vector is the shared weight
			wv := numTensor(r, ref.F32, []int{k})
			req, mask = mon.OpReq{Op: "MatMul", Inputs: []*ref.T{wv, numTensor(r, ref.F32, []int{r.Range(2, 9), k, 1})}}, 1
		case 0:
			req = mon.OpReq{Op: "MatMul", Inputs: []*ref.T{numTensor(r, ref.F32, []int{k}), W}}
		case 1:
			req, mask = mon.OpReq{Op: "MatMul", Inputs: []*ref.T{W, numTensor(r, ref.F32, []int{n})}}, 1
		case 2:
			req = mon.OpReq{Op: "MatMul", Inputs: []*ref.T{numTensor(r, ref.F32, []int{r.Range(1, 3), r.Range(1, 4), k}), W}}
		case 3:
			req = mon.OpReq{Op: "MatMul", Inputs: []*ref.T{numTensor(r, ref.F32, []int{k}), numTensor(r, ref.F32, []int{r.Range(2, 3), k, n})}}
		default:
			req = mon.OpReq{Op: "Gemm", Inputs: []*ref.T{numTensor(r, ref.F32, []int{r.Range(1, 4), n}), W, numTensor(r, ref.F32, []int{k})}, Attrs: []*mon.Attr{mon.AttrI("transB", 1)}}
			mask = 6
		}
		spec = specFromOpReq(r, req, mask)
		desc = trunc(req.Describe(), 300)
	case kind < 12:
		// single-node models from the per-operator generators, rotating over all 55
		// operators; usually every input (also the data operand) is a shared weight
		name := c15Names[(c.Idx+int(c.Seed))%len(c15Names)]
		req, _, ok := SampleValidReq(r, name, true)
		if !ok {
			c.Skip("no valid request")
			return
		}
		spec = specFromOpReq(r, req, ^uint64(0)&^(r.U64()&r.U64()&3))
		desc = trunc(req.Describe(), 300)
	default:
		p := genProgram(r, 8)
		if len(p.Nodes) == 0 {
			c.Skip("empty program")
			return
		}
		p.promote(0.15)
		d, _ := p.structure()
		desc = d
		spec = specFromProgram(p, p.declaredOutputs())
	}
	G := r.PickInt(2, 2, 3, 4, 8, 16)
	R := r.Range(3, 12)
	if spec.Heavy {
		G, R = r.PickInt(2, 3, 4), r.Range(2, 4)
	}
	if kind == 12 || kind == 13 || kind == 14 { // single small nodes: many goroutines and Runs, so that calls really overlap
		G, R = r.PickInt(8, 16), 12
	}
	misshape := !spec.Heavy && r.Chance(0.35)
	procs := []int{2, 4, 8, 16}[c.Idx%4]
	old := runtime.GOMAXPROCS(procs)
	defer runtime.GOMAXPROCS(old)
	useProxy := r.Bool()
	loaders := r.PickInt(0, 1, 1, 2)
	c.SetCase("model %s | %d goroutines x %d runs | GOMAXPROCS %d | proxy-yields %v | loaders %d | some Runs with a misshapen input %v", trunc(desc, 600), G, R, procs, useProxy, loaders, misshape)

	// the inputs of every Run (drawn before anything of the library runs)
	feeds := make([][]map[string]*ref.T, G)
	base := make([][]gonnx.Tensors, G)
	baseErr := make([][]error, G)
	for g := 0; g < G; g++ {
		feeds[g] = make([]map[string]*ref.T, R)
		base[g] = make([]gonnx.Tensors, R)
		baseErr[g] = make([]error, R)
		for j := 0; j < R; j++ {
			feeds[g][j] = spec.Feed(r, 0)
			if misshape && r.Chance(0.3) {
				// this Run gets one float input of another shape: it fails in the signature check
				// or inside a node (or computes something else); the error paths run concurrently too
				var names []string
				for k, v := range feeds[g][j] {
					if v.DT.IsFloat() {
						names = append(names, k)
					}
				}
				sort.Strings(names)
				if len(names) > 0 {
					k := names[r.Intn(len(names))]
					feeds[g][j][k] = variantOf(r, feeds[g][j][k], r.Bool())
				}
			}
		}
	}
	// sequential baseline on fresh models: before the concurrent phase - or, in a cold-start
	// trial (the first Runs of the process are the concurrent ones), after it
	baseline := func() bool {
		bm, err := gonnx.NewModelFromBytes(spec.Bytes)
		if err != nil {
			c.Violation("concurrent:model-does-not-load", "%v", err)
			return false
		}
		for g := 0; g < G; g++ {
			for j := 0; j < R; j++ {
				in := gonnx.Tensors{}
				for k, v := range feeds[g][j] {
					in[k] = mon.ToTensor(v)
				}
				o := mon.Capture(nil, func() ([]tensor.Tensor, error) {
					var err error
					one := bm
					if !spec.Heavy { // "what it returns when executed alone": a freshly loaded model per Run
						if one, err = gonnx.NewModelFromBytes(spec.Bytes); err != nil {
							return nil, err
						}
					}
					base[g][j], err = one.Run(in)
					return nil, err
				})
				if o.Kind == mon.Panic {
					c.Violation("concurrent:panic", "sequential baseline: %s", o.Describe())
					return false
				}
				baseErr[g][j] = o.Err
			}
		}
		c.Eval(G * R)
		return true
	}
	if !cold && !baseline() {
		return
	}

	// the shared model
	m, err := gonnx.NewModelFromBytes(spec.Bytes)
	if err != nil {
		c.Violation("concurrent:model-does-not-load", "%v", err)
		return
	}
	weights := map[string]mon.Fingerprint{}
	for name, t := range m.VerifParameters() {
		weights[name] = mon.Fp(t)
	}
	protoFp := mon.ProtoFingerprint(m)
	var px *mon.Proxy
	var orderMu sync.Mutex
	var order []string
	if useProxy {
		px = mon.Attach(m)
		px.Light = true
		salt := r.U64()
		px.Yield = func(node int, phase string) {
			h := gen.HashStr(fmt.Sprintf("%d/%s/%d", node, phase, atomic.AddInt64(&c17Clock, 1))) ^ salt
			switch h % 7 {
			case 0:
				runtime.Gosched()
			case 1:
				time.Sleep(time.Duration(h%50) * time.Microsecond)
			}
			if phase == "apply" {
				orderMu.Lock()
				if len(order) < 400 {
					order = append(order, fmt.Sprintf("%d", node))
				}
				orderMu.Unlock()
			}
		}
	}
	type stamp struct{ start, end int64 }
	stamps := make([][]stamp, G)
	got := make([][]gonnx.Tensors, G)
	gotOutcome := make([][]mon.Outcome, G)
	for g := range got {
		got[g], gotOutcome[g] = make([]gonnx.Tensors, R), make([]mon.Outcome, R)
	}
	type failure struct {
		g, j int
		what string
	}
	var failMu sync.Mutex
	var fails []failure
	start := make(chan struct{})
	var wg sync.WaitGroup
	var done int32
	for g := 0; g < G; g++ {
		stamps[g] = make([]stamp, R)
		wg.Add(1)
		go func(g int) {
			defer wg.Done()
			<-start
			for j := 0; j < R; j++ {
				in := gonnx.Tensors{}
				for k, v := range feeds[g][j] {
					in[k] = mon.ToTensor(v)
				}
				var out gonnx.Tensors
				stamps[g][j].start = atomic.AddInt64(&c17Clock, 1)
				o := mon.Capture(nil, func() ([]tensor.Tensor, error) {
					var err error
					out, err = m.Run(in)
					return nil, err
				})
				stamps[g][j].end = atomic.AddInt64(&c17Clock, 1)
				got[g][j], gotOutcome[g][j] = out, o
			}
		}(g)
	}
	var lwg sync.WaitGroup
	other := sampleModels()[c.Idx%3].Bytes
	for l := 0; l < loaders; l++ {
		lwg.Add(1)
		go func(l int) {
			defer lwg.Done()
			<-start
			for atomic.LoadInt32(&done) == 0 {
				b := spec.Bytes
				if l == 1 {
					b = other
				}
				lm, err := gonnx.NewModelFromBytes(b)
				if err != nil || lm == nil {
					failMu.Lock()
					fails = append(fails, failure{-1, l, fmt.Sprintf("concurrent load failed: %v", err)})
					failMu.Unlock()
					return
				}
				runtime.Gosched()
			}
		}(l)
	}
	close(start)
	wg.Wait()
	atomic.StoreInt32(&done, 1)
	lwg.Wait()
	if cold && !baseline() {
		return
	}
	for g := 0; g < G; g++ {
		for j := 0; j < R; j++ {
			o, out := gotOutcome[g][j], got[g][j]
			what := ""
			switch {
			case o.Kind == mon.Panic:
				what = "panic: " + o.Describe()
			case (o.Err != nil) != (baseErr[g][j] != nil):
				what = fmt.Sprintf("concurrent outcome %v, sequential outcome %v", o.Err, baseErr[g][j])
			case o.Err != nil && o.Err.Error() != baseErr[g][j].Error():
				what = fmt.Sprintf("concurrent error text %q, sequential error text %q", o.Err.Error(), baseErr[g][j].Error())
			case o.Err == nil:
				what = diffResults(out, base[g][j])
			}
			if what != "" {
				fails = append(fails, failure{g, j, what})
			}
		}
	}
	c.Eval(G * R)
	c.Count("runs", int64(G*R))
	for g := range baseErr {
		for _, e := range baseErr[g] {
			if e != nil {
				c.Count("runs-that-fail-alone-and-concurrently", 1)
			}
		}
	}
	c.Count("trials-with-proxy-yields", b2i(useProxy))

	// quiescent point: weights unchanged
	for name, t := range m.VerifParameters() {
		if same, what := weights[name].Equal(mon.Fp(t)); !same {
			c.Violation("concurrent:weight-modified", "weight %q changed during concurrent Runs: %s | %s", name, what, trunc(desc, 300))
		}
	}
	if mon.ProtoFingerprint(m) != protoFp {
		c.Violation("concurrent:model-proto-modified", "the numeric payloads of the decoded model (initializer messages, attribute tensors and float lists) changed during concurrent Runs | %s", trunc(desc, 300))
	}
	for i, f := range fails {
		if i >= 3 {
			break
		}
		sig := "concurrent:result-differs-from-sequential"
		if strings.HasPrefix(f.what, "panic") {
			sig = "concurrent:panic"
		} else if strings.HasPrefix(f.what, "concurrent outcome") {
			sig = "concurrent:run-fails-only-concurrently"
		} else if strings.HasPrefix(f.what, "concurrent error text") {
			sig = "concurrent:error-differs-from-sequential"
		} else if strings.HasPrefix(f.what, "concurrent load") {
			sig = "concurrent:load-disturbed"
		}
		c.Violation(sig, "goroutine %d run %d: %s | %s", f.g, f.j, trunc(f.what, 400), trunc(desc, 300))
	}
	// overlap measurement
	overlaps := 0
	for a := 0; a < G; a++ {
		for b := a + 1; b < G; b++ {
			for _, x := range stamps[a] {
				for _, y := range stamps[b] {
					if x.start < y.end && y.start < x.end {
						overlaps++
					}
				}
			}
		}
	}
	c.Count("overlapping-pairs", int64(overlaps))
	if overlaps > 0 {
		c.Nontrivial(fmt.Sprintf("%s|%d|%d|%d", desc, G, R, procs))
	} else {
		c.Count("trials-without-overlap", 1)
	}
	if useProxy {
		c.Distinct("interleaving-signature", strings.Join(order, ","))
	}
	var stampList []string
	for g := range stamps {
		stampList = append(stampList, fmt.Sprintf("g%d:[%d..%d]", g, stamps[g][0].start, stamps[g][R-1].end))
	}
	sort.Strings(stampList)
	if c.Idx%40 == 3 {
		c.Sample(map[string]any{"model": trunc(desc, 300), "goroutines": G, "runs_each": R, "GOMAXPROCS": procs, "overlapping_run_pairs": overlaps, "proxy_yields": useProxy, "loaders": loaders, "first_apply_order": trunc(strings.Join(order, ","), 120), "run_intervals": trunc(strings.Join(stampList, " "), 200)})
	}
}
