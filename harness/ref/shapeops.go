package ref

import "sort"

// Reshape implements ONNX Reshape (allowzero=0): Appendix A.7.
func Reshape(t *T, target []int64) (*T, error) {
	total := len(t.Bits)
	out := make([]int, len(target))
	neg := -1
	prod := 1
	for i, v := range target {
		switch {
		case v == 0:
			if i >= t.Rank() {
				return nil, invalid("reshape: 0 at position %d beyond input rank %d", i, t.Rank())
			}
			out[i] = t.Shape[i]
			prod *= out[i]
		case v == -1:
			if neg >= 0 {
				return nil, invalid("reshape: two -1 entries")
			}
			neg = i
		case v < -1:
			return nil, invalid("reshape: negative entry %d", v)
		default:
			if v > int64(total) && total > 0 {
				return nil, invalid("reshape: entry %d exceeds element count", v)
			}
			out[i] = int(v)
			prod *= out[i]
		}
	}
	if neg >= 0 {
		if prod == 0 || total%prod != 0 {
			return nil, invalid("reshape: cannot infer -1 (%d elements, other dims %d)", total, prod)
		}
		out[neg] = total / prod
		prod *= out[neg]
	}
	if prod != total {
		return nil, invalid("reshape: %d elements into %v", total, out)
	}
	return t.WithShape(out...), nil
}

// Flatten implements ONNX Flatten.
func Flatten(t *T, axis int) (*T, error) {
	r := t.Rank()
	if axis < -r || axis > r {
		return nil, invalid("flatten axis %d for rank %d", axis, r)
	}
	if axis < 0 {
		axis += r
	}
	return t.WithShape(NumElems(t.Shape[:axis]), NumElems(t.Shape[axis:])), nil
}

// normAxes normalises axes for a tensor of the given rank; invalid on range or duplicates.
func normAxes(axes []int64, rank int) ([]int, error) {
	out := make([]int, len(axes))
	seen := map[int]bool{}
	for i, a := range axes {
		if a < int64(-rank) || a >= int64(rank) {
			return nil, invalid("axis %d out of range for rank %d", a, rank)
		}
		v := int(a)
		if v < 0 {
			v += rank
		}
		if seen[v] {
			return nil, invalid("duplicate axis %d", v)
		}
		seen[v] = true
		out[i] = v
	}
	return out, nil
}

// Squeeze implements ONNX Squeeze-13 (axes nil = all extent-1 axes).
func Squeeze(t *T, axes []int64, axesGiven bool) (*T, error) {
	var drop map[int]bool
	if !axesGiven {
		drop = map[int]bool{}
		for i, e := range t.Shape {
			if e == 1 {
				drop[i] = true
			}
		}
	} else {
		na, err := normAxes(axes, t.Rank())
		if err != nil {
			return nil, err
		}
		drop = map[int]bool{}
		for _, a := range na {
			if t.Shape[a] != 1 {
				return nil, invalid("squeeze axis %d has extent %d", a, t.Shape[a])
			}
			drop[a] = true
		}
	}
	var shape []int
	for i, e := range t.Shape {
		if !drop[i] {
			shape = append(shape, e)
		}
	}
	return t.WithShape(shape...), nil
}

// Unsqueeze implements ONNX Unsqueeze-13.
func Unsqueeze(t *T, axes []int64) (*T, error) {
	R := t.Rank() + len(axes)
	na, err := normAxes(axes, R)
	if err != nil {
		return nil, err
	}
	sort.Ints(na)
	shape := make([]int, 0, R)
	src, k := 0, 0
	for i := 0; i < R; i++ {
		if k < len(na) && na[k] == i {
			shape = append(shape, 1)
			k++
		} else {
			shape = append(shape, t.Shape[src])
			src++
		}
	}
	return t.WithShape(shape...), nil
}

// ShapeOf implements ONNX Shape: 1-D int64 of length rank.
func ShapeOf(t *T) *T {
	out := New(I64, t.Rank())
	for i, e := range t.Shape {
		out.Bits[i] = uint64(int64(e))
	}
	return out
}
