package props

import (
	"fmt"

	"github.com/advancedclimatesystems/gonnx/onnx"
	"github.com/advancedclimatesystems/gonnx/ops"
	"github.com/advancedclimatesystems/gonnx/ops/opset13"

	"verif/harness/gen"
	"verif/harness/mon"
	"verif/harness/ref"
)

// SampleValidReq draws a valid (must-compute) request for the named operator
// together with its expectation; nonDefault asks for non-default attributes
// where the operator has any. ok=false when no generator yields a
// must-compute request within a few attempts.
func SampleValidReq(r *gen.R, name string, nonDefault bool) (mon.OpReq, Expect, bool) {
	g := validGens[name]
	if g == nil {
		return mon.OpReq{}, Expect{}, false
	}
	for try := 0; try < 40; try++ {
		req, exp, ok := g(r, nonDefault)
		if ok && exp.Kind == MustEqual {
			return req, exp, true
		}
	}
	return mon.OpReq{}, Expect{}, false
}

// validGens maps an operator name to a generator of valid requests.
var validGens = map[string]func(r *gen.R, nonDefault bool) (mon.OpReq, Expect, bool){}

func init() {
	for _, op := range ref.BinaryOps {
		op := op
		validGens[op] = func(r *gen.R, _ bool) (mon.OpReq, Expect, bool) {
			dt := c03MustDT[r.Intn(4)]
			if ref.IsLogic(op) {
				dt = ref.Bool
			}
			sa := r.Shape(0, 3, 3, 30)
			sb := c03Compatible(r, sa)
			a, b := r.Tensor(dt, sa, gen.FillSmall, 20), r.Tensor(dt, sb, gen.FillSmall, 20)
			if op == "Div" {
				for i := range b.Bits {
					if b.F(i) == 0 {
						b.Bits[i] = ref.EncF(dt, 2)
						if dt.IsInt() {
							b.Bits[i] = 2
						}
					}
				}
			}
			exp, skip := c03Expect(op, a, b)
			return mon.OpReq{Op: op, Inputs: []*ref.T{a, b}}, exp, skip == ""
		}
	}
}

// nodeFor renders the NodeProto of a request (operator API use).
func nodeFor(req mon.OpReq) *onnx.NodeProto {
	n := &onnx.NodeProto{OpType: req.Op, Name: "n0", Attribute: req.Attrs}
	for i, in := range req.Inputs {
		if in == nil {
			n.Input = append(n.Input, "")
		} else {
			n.Input = append(n.Input, fmt.Sprintf("i%d", i))
		}
	}
	k := req.NOutputs
	if k == 0 {
		k = 1
	}
	for i := 0; i < k; i++ {
		n.Output = append(n.Output, fmt.Sprintf("o%d", i))
	}
	if req.OutNames != nil {
		n.Output = req.OutNames
	}
	return n
}

// runProtoModel marshals a ModelProto, loads it with NewModelFromBytes and runs it
// without inputs; the named outputs are returned in order.
func runProtoModel(mp *onnx.ModelProto, outputs []string) mon.Outcome {
	return mon.RunModelProto(mp, nil, outputs)
}

func getOp(name string) (ops.Operator, error) { return opset13.GetOperator(name) }

// C15Names lists the operator names of the opset (for probes).
func C15Names() []string { return c15Names }
