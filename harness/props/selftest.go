package props

import (
	_ "embed"
	"encoding/json"
	"fmt"
	"math"

	"gorgonia.org/tensor"

	"verif/harness/gen"
	"verif/harness/mon"
	"verif/harness/ref"
)

// SelfTest cross-checks the reference model and the monitors before every run;
// a failure makes the check inconclusive (never a pass, never a violation).
//
//  1. the reference model against selftest_vectors.json: ONNX documentation
//     examples typed in by hand plus cases computed with numpy by
//     tools/gen_selftest_vectors.py (independent of harness/ref);
//  2. the tensor reader: the fast Data() path against coordinate access on
//     contiguous tensors, views and transposed tensors; fingerprints detect a
//     change of shape, strides and contents;
//  3. every registered operator has a generator of valid requests.
func SelfTest() error {
	for _, f := range []func() error{selfTestVectors, selfTestReader, selfTestGenerators} {
		if err := f(); err != nil {
			return err
		}
	}
	return nil
}

//go:embed selftest_vectors.json
var selfTestJSON []byte

type stTensor struct {
	DType string    `json:"dtype"`
	Shape []int     `json:"shape"`
	Data  []float64 `json:"data"`
}

type stCase struct {
	Op      string         `json:"op"`
	Inputs  []*stTensor    `json:"inputs"`
	Attrs   map[string]any `json:"attrs"`
	Outputs []*stTensor    `json:"outputs"`
}

func (t *stTensor) ref() *ref.T {
	if t == nil {
		return nil
	}
	dt := ref.F32
	if t.DType == "int64" {
		dt = ref.I64
	}
	return ref.FromF(dt, t.Shape, t.Data)
}

func attrIntOf(a map[string]any, k string, def int) int {
	if v, ok := a[k]; ok {
		return int(v.(float64))
	}
	return def
}

func attrIntsOf(a map[string]any, k string) []int {
	v, ok := a[k]
	if !ok {
		return nil
	}
	var out []int
	for _, x := range v.([]any) {
		out = append(out, int(x.(float64)))
	}
	return out
}

func ints64(v []int) []int64 {
	if v == nil {
		return nil
	}
	o := make([]int64, len(v))
	for i, x := range v {
		o[i] = int64(x)
	}
	return o
}

func selfTestVectors() error {
	var f struct {
		Cases []stCase `json:"cases"`
	}
	if err := json.Unmarshal(selfTestJSON, &f); err != nil {
		return fmt.Errorf("selftest vectors: %w", err)
	}
	if len(f.Cases) < 50 {
		return fmt.Errorf("selftest vectors: only %d cases", len(f.Cases))
	}
	for i, cs := range f.Cases {
		in := make([]*ref.T, 8)
		for k, t := range cs.Inputs {
			in[k] = t.ref()
		}
		var outs []*ref.T
		var err error
		one := func(a *ref.Approx, e error) {
			err = e
			if a != nil {
				outs = []*ref.T{a.T}
			}
		}
		oneT := func(t *ref.T, e error) {
			err = e
			outs = []*ref.T{t}
		}
		a := cs.Attrs
		switch cs.Op {
		case "Conv":
			ap := ""
			if s, ok := a["auto_pad"]; ok {
				ap = s.(string)
			}
			one(ref.Conv(in[0], in[1], in[2], ref.ConvAttrs{AutoPad: ap, Pads: attrIntsOf(a, "pads"), Strides: attrIntsOf(a, "strides"), Dilations: attrIntsOf(a, "dilations")}))
		case "MatMul":
			one(ref.MatMul(in[0], in[1]))
		case "Gemm":
			one(ref.Gemm(in[0], in[1], in[2], a["alpha"].(float64), a["beta"].(float64), attrIntOf(a, "transA", 0) != 0, attrIntOf(a, "transB", 0) != 0))
		case "Softmax", "LogSoftmax":
			one(ref.Softmax(in[0], attrIntOf(a, "axis", -1), cs.Op == "LogSoftmax"))
		case "Gather":
			oneT(ref.Gather(in[0], in[1], attrIntOf(a, "axis", 0)))
		case "ArgMax":
			oneT(ref.ArgMax(in[0], attrIntOf(a, "axis", 0), attrIntOf(a, "keepdims", 1) != 0))
		case "ReduceMax", "ReduceMin":
			oneT(ref.ReduceMaxMin(in[0], ints64(attrIntsOf(a, "axes")), attrIntOf(a, "keepdims", 1) != 0, cs.Op == "ReduceMax"))
		case "Transpose":
			oneT(ref.Transpose(in[0], ints64(attrIntsOf(a, "perm"))))
		case "Slice":
			var ax, st []int64
			if in[3] != nil {
				ax = in[3].Ints()
			}
			if in[4] != nil {
				st = in[4].Ints()
			}
			oneT(ref.Slice(in[0], in[1].Ints(), in[2].Ints(), ax, st))
		case "Reshape":
			oneT(ref.Reshape(in[0], in[1].Ints()))
		case "Expand":
			oneT(ref.Expand(in[0], in[1].Ints()))
		case "Concat":
			var ts []*ref.T
			for _, t := range in {
				if t != nil {
					ts = append(ts, t)
				}
			}
			oneT(ref.Concat(ts, attrIntOf(a, "axis", 0)))
		case "RNN":
			outs, err = ref.RNN(in[0], in[1], in[2], in[3], in[5], ref.RecAttrs{Hidden: attrIntOf(a, "hidden_size", 0)})
		case "GRU":
			outs, err = ref.GRU(in[0], in[1], in[2], in[3], in[5], ref.RecAttrs{Hidden: attrIntOf(a, "hidden_size", 0), LinearBeforeReset: attrIntOf(a, "linear_before_reset", 0) != 0})
		case "LSTM":
			outs, err = ref.LSTM(in[0], in[1], in[2], in[3], in[5], in[6], in[7], ref.RecAttrs{Hidden: attrIntOf(a, "hidden_size", 0)})
		default:
			return fmt.Errorf("selftest vectors: unknown op %s", cs.Op)
		}
		if err != nil {
			return fmt.Errorf("selftest vector %d (%s): reference refused: %v", i, cs.Op, err)
		}
		if len(outs) != len(cs.Outputs) {
			return fmt.Errorf("selftest vector %d (%s): %d outputs, expected %d", i, cs.Op, len(outs), len(cs.Outputs))
		}
		for k, w := range cs.Outputs {
			g := outs[k]
			if !ref.ShapeEq(g.Shape, w.Shape) {
				return fmt.Errorf("selftest vector %d (%s) output %d: reference shape %v, expected %v", i, cs.Op, k, g.Shape, w.Shape)
			}
			for e, wv := range w.Data {
				if d := math.Abs(g.F(e) - wv); d > 2e-5*(1+math.Abs(wv)) || d != d {
					return fmt.Errorf("selftest vector %d (%s) output %d element %d: reference %v, expected %v", i, cs.Op, k, e, g.F(e), wv)
				}
			}
		}
	}
	return nil
}

func selfTestReader() error {
	r := gen.New(7)
	for _, dt := range gen.AllDecodable {
		v := r.Tensor(dt, []int{3, 4, 2}, gen.FillUnique, 0)
		t := mon.ToTensor(v)
		a, err1 := mon.FromTensor(t)
		b, err2 := mon.FromTensorAt(t)
		if err1 != nil || err2 != nil || mon.HashBits(a.Bits) != mon.HashBits(b.Bits) || mon.HashBits(a.Bits) != mon.HashBits(v.Bits) {
			return fmt.Errorf("selftest reader: round trip of %v differs (%v %v)", dt, err1, err2)
		}
		// a sliced view and a transposed tensor must be read in logical order
		view, err := t.Slice(nil, tensor.S(1, 3), nil)
		if err != nil {
			return err
		}
		got, err := mon.FromTensor(view)
		if err != nil {
			return fmt.Errorf("selftest reader: view: %v", err)
		}
		want, _ := ref.Slice(v, []int64{1}, []int64{3}, []int64{1}, nil)
		if !ref.ShapeEq(got.Shape, want.Shape) || mon.HashBits(got.Bits) != mon.HashBits(want.Bits) {
			return fmt.Errorf("selftest reader: sliced view of %v read as %v, expected %v", dt, got, want)
		}
		tr, err := tensor.Transpose(t, 2, 0, 1)
		if err != nil {
			return err
		}
		gotT, err := mon.FromTensor(tr)
		wantT, _ := ref.Transpose(v, []int64{2, 0, 1})
		if err != nil || mon.HashBits(gotT.Bits) != mon.HashBits(wantT.Bits) {
			return fmt.Errorf("selftest reader: transposed %v differs (%v)", dt, err)
		}
		// fingerprints see shape and content changes
		f0 := mon.Fp(t)
		if err := t.Reshape(4, 6); err != nil {
			return err
		}
		if ok, _ := f0.Equal(mon.Fp(t)); ok {
			return fmt.Errorf("selftest reader: fingerprint blind to a reshape")
		}
		_ = t.Reshape(3, 4, 2)
		if ok, what := f0.Equal(mon.Fp(t)); !ok {
			return fmt.Errorf("selftest reader: fingerprint not restored: %s", what)
		}
	}
	// scalars and zero-element tensors
	s := mon.ToTensor(ref.FromF(ref.F32, []int{}, []float64{2.5}))
	if v, err := mon.FromTensor(s); err != nil || v.Rank() != 0 || v.F(0) != 2.5 {
		return fmt.Errorf("selftest reader: scalar read as %v (%v)", v, err)
	}
	z := mon.ToTensor(ref.New(ref.I64, 0))
	if v, err := mon.FromTensor(z); err != nil || len(v.Bits) != 0 {
		return fmt.Errorf("selftest reader: zero-element tensor: %v", err)
	}
	return nil
}

func selfTestGenerators() error {
	r := gen.New(11)
	for _, name := range c15Names {
		if _, _, ok := SampleValidReq(r, name, true); !ok {
			return fmt.Errorf("selftest generators: no valid request for operator %s", name)
		}
	}
	return nil
}
