// Package props holds the per-property workloads and oracles, and the small
// framework they share (case context, result aggregation, known-finding
// signatures).
package props

import (
	"encoding/json"
	"fmt"
	"os"
	"sort"
	"strings"

	"verif/harness/gen"
)

// Property describes one check.
type Property struct {
	// ChildProbe names a verifcheck subcommand that the supervisor runs in a process
	// of its own after the workers; what it observes is recorded under
	// ChildProbeSignature (used for findings that can end in a fatal runtime error).
	ChildProbe          string
	ChildProbeSignature string
	ID                  string
	Title               string
	// Cases returns the number of cases of a tier ("quick", "thorough", "race").
	Cases func(tier string) int
	// Run executes case c.Idx (generate, execute, judge).
	Run func(c *Ctx)
	// Floor is the minimum number of distinct non-trivial cases below which a
	// run is inconclusive.
	Floor func(tier string) int
	Rule  string
	// Exhaustive reports whether the tier enumerates its stated finite space completely.
	Exhaustive  func(tier string) bool
	Assumptions []string
	// RaceInThorough: the thorough tier repeats a reduced workload in the -race binary.
	RaceInThorough bool
	// RaceOnly: every tier runs in the -race binary (C17).
	RaceOnly bool
	// MemCapMiB: address-space cap for plain workers (hostile-input properties).
	MemCapMiB int
	// Technique names the deciding method.
	Technique string
	// Extra lets a property add evidence keys computed from the aggregate.
	Extra func(a *Aggregate, cov map[string]any)
}

var registry = map[string]*Property{}

// Register adds a property.
func Register(p *Property) { registry[p.ID] = p }

// Get looks a property up.
func Get(id string) *Property { return registry[id] }

// IDs lists the registered property ids.
func IDs() []string {
	var ids []string
	for id := range registry {
		ids = append(ids, id)
	}
	sort.Strings(ids)
	return ids
}

// Violation is one observed violation.
type Violation struct {
	Idx    int    `json:"idx"`
	Sig    string `json:"signature"`
	Detail string `json:"detail"`
	Case   string `json:"case"`
	// History is the number of preceding cases behind which the deviation shows (0: alone).
	History int `json:"history,omitempty"`
}

// Result is what a worker reports for a range of cases.
type Result struct {
	Prop        string              `json:"prop"`
	From        int                 `json:"from"`
	To          int                 `json:"to"`
	Cases       int                 `json:"cases"`
	Evaluations int64               `json:"evaluations"`
	Skips       int64               `json:"skips"`
	Hashes      []uint64            `json:"hashes"`
	Counters    map[string]int64    `json:"counters"`
	Sets        map[string][]uint64 `json:"sets"`
	Samples     []any               `json:"samples"`
	Violations  []Violation         `json:"violations"`
	SigCounts   map[string]int64    `json:"sig_counts"`
	SelfTestErr string              `json:"selftest_err,omitempty"`
}

// Ctx is the context of one case.
type Ctx struct {
	Prop    string
	Tier    string
	Seed    uint64
	Idx     int
	R       *gen.R
	Verbose bool
	// coldDone: the cold-start trial of this case has run (a re-examination is a warm trial)
	coldDone bool
	res      *Result
	hashes   map[uint64]struct{}
	sets     map[string]map[uint64]struct{}
	caseStr  string
	capture  *[]Violation // when set, Violation() collects here instead of reporting
}

// Captured runs fn with violations collected instead of reported and returns them.
func (c *Ctx) Captured(fn func()) []Violation {
	var buf []Violation
	prev := c.capture
	c.capture = &buf
	defer func() { c.capture = prev }()
	fn()
	return buf
}

// NewResult prepares an empty result.
func NewResult(prop string, from, to int) *Result {
	return &Result{Prop: prop, From: from, To: to, Counters: map[string]int64{}, Sets: map[string][]uint64{}, SigCounts: map[string]int64{}}
}

// Runner drives cases of one property inside a worker.
type Runner struct {
	P      *Property
	Tier   string
	Seed   uint64
	Res    *Result
	hashes map[uint64]struct{}
	sets   map[string]map[uint64]struct{}
	// historyReplays counts the replays of a whole worker prefix (bounded per worker)
	historyReplays int
}

// NewRunner creates a runner.
func NewRunner(p *Property, tier string, seed uint64, from, to int) *Runner {
	return &Runner{P: p, Tier: tier, Seed: seed, Res: NewResult(p.ID, from, to), hashes: map[uint64]struct{}{}, sets: map[string]map[uint64]struct{}{}}
}

// RunCase executes one case.
//
// Every case is a deterministic function of (seed, property, index) - C17, whose
// trials depend on the schedule, re-examines its deviations itself. A violation
// is therefore reported under its own signature when the case deviates again on
// re-evaluation (any signature): alone (up to two more times), or - because the
// library may keep state between calls (pools, caches, memos) - behind the case
// before it, or behind all the cases this worker evaluated before it (at most
// three such prefix replays per worker; the violation records how many preceding
// cases its replay needs). A case that stays completely clean in all of these
// cannot owe its deviation to the code under test as a function of this input or
// of the calls before it, and the deviation is attributed to the recorded finding
// "tensor memory freed while referenced through a uintptr" (gorgonia's
// collector-unsafe slice headers, see GCProbe), under GCUnreproducedSignature.
func (r *Runner) RunCase(idx int, verbose bool) {
	c := &Ctx{Prop: r.P.ID, Tier: r.Tier, Seed: r.Seed, Idx: idx, R: gen.ForCase(r.Seed, r.P.ID, idx), Verbose: verbose, res: r.Res, hashes: r.hashes, sets: r.sets}
	r.Res.Cases++
	if r.P.RaceOnly { // C17: schedule-dependent, handled in the property itself
		r.P.Run(c)
		return
	}
	// one case in 48 is evaluated right behind a case of ANOTHER property (its outcome is
	// ignored): whatever the library keeps between calls must not carry over from one
	// operator family to another. The foreign case is part of the evaluation of this index,
	// so a re-evaluation repeats it.
	eval := func() { r.evaluate(c) }
	if q, _ := r.foreignCase(idx); q != nil {
		r.Res.Counters["cases-evaluated-right-behind-a-case-of-another-property"]++
	}
	first := c.Captured(eval)
	if len(first) == 0 {
		return
	}
	again, history := 0, 0
	for k := 0; k < 2 && again == 0; k++ {
		again += len(c.Captured(eval))
	}
	// not shown again alone: the deviation may depend on what the library kept from the cases
	// before it (process-wide pools, caches, memos). Replay the case behind its predecessor,
	// then (a bounded number of times per worker) behind all the cases this worker ran before it.
	if again == 0 {
		var spans []int
		if idx-r.Res.From >= 1 {
			spans = append(spans, 1)
		}
		if idx-r.Res.From > 1 && r.historyReplays < 3 {
			spans = append(spans, idx-r.Res.From)
			r.historyReplays++
		}
		for _, h := range spans {
			for j := idx - h; j < idx; j++ {
				scratch := &Ctx{Prop: r.P.ID, Tier: r.Tier, Seed: r.Seed, Idx: j, R: gen.ForCase(r.Seed, r.P.ID, j), res: NewResult(r.P.ID, j, j+1), hashes: map[uint64]struct{}{}, sets: map[string]map[uint64]struct{}{}}
				_ = scratch.Captured(func() { r.evaluate(scratch) })
			}
			if n := len(c.Captured(eval)); n > 0 {
				again, history = n, h
				break
			}
		}
	}
	for _, v := range first {
		if again > 0 { // the case deviates again (under whatever signature): reported as observed
			if history > 0 {
				r.Res.Counters["deviations-shown-again-only-behind-the-preceding-cases"]++
				c.violationWithHistory(v.Sig, history, "%s [not shown by the case alone; shown again when evaluated behind the %d case(s) before it]", v.Detail, history)
				continue
			}
			c.Violation(v.Sig, "%s", v.Detail)
			continue
		}
		r.Res.Counters["deviations-not-shown-again-on-re-evaluation"]++
		c.Violation(GCUnreproducedSignature, "%s: %s [the same case evaluated again - alone twice, and behind the cases before it - showed no deviation at all]", v.Sig, v.Detail)
	}
}

// evaluate runs case c.Idx: the case of another property in front of it (one case in 48,
// outcome ignored), then the case itself from a fresh PRNG state.
func (r *Runner) evaluate(c *Ctx) {
	if q, j := r.foreignCase(c.Idx); q != nil {
		c.Logf("evaluated right behind case %d of %s (outcome ignored)", j, q.ID)
		scratch := &Ctx{Prop: q.ID, Tier: r.Tier, Seed: r.Seed, Idx: j, R: gen.ForCase(r.Seed, q.ID, j), res: NewResult(q.ID, j, j+1), hashes: map[uint64]struct{}{}, sets: map[string]map[uint64]struct{}{}}
		func() {
			defer func() { _ = recover() }()
			_ = scratch.Captured(func() { q.Run(scratch) })
		}()
	}
	c.R = gen.ForCase(r.Seed, r.P.ID, c.Idx)
	r.P.Run(c)
}

// foreignProps are the (single-goroutine, cheap) properties whose cases serve as the
// "case of another property" in front of one case in 48.
var foreignProps = []string{"C03", "C04", "C05", "C06", "C07", "C08", "C09", "C10", "C11", "C14", "C15"}

// foreignCase returns the property and case index evaluated in front of case idx (nil: none).
func (r *Runner) foreignCase(idx int) (*Property, int) {
	if idx%48 != 29 || r.P.RaceOnly {
		return nil, 0
	}
	h := gen.HashStr(fmt.Sprintf("%s/%d/%d", r.P.ID, r.Seed, idx))
	id := foreignProps[h%uint64(len(foreignProps))]
	if id == r.P.ID {
		id = foreignProps[(h+1)%uint64(len(foreignProps))]
	}
	q := Get(id)
	if q == nil {
		return nil, 0
	}
	n := q.Cases("quick")
	if n <= 0 {
		return nil, 0
	}
	return q, int((h >> 8) % uint64(n))
}

// GCUnreproducedSignature names, in the deterministic checks, a deviation that did
// not show again when the same case was re-evaluated (recorded finding, see GCProbe).
const GCUnreproducedSignature = "unreproducible-deviation:tensor-memory-freed-while-referenced-through-uintptr(gorgonia)"

// Finish freezes the hash sets into the result.
func (r *Runner) Finish() *Result {
	r.Res.Hashes = make([]uint64, 0, len(r.hashes))
	for h := range r.hashes {
		r.Res.Hashes = append(r.Res.Hashes, h)
	}
	for k, s := range r.sets {
		l := make([]uint64, 0, len(s))
		for h := range s {
			l = append(l, h)
		}
		r.Res.Sets[k] = l
	}
	return r.Res
}

// SetCase records the human-readable description of the current case (used in
// violation reports and verbose replays).
func (c *Ctx) SetCase(format string, a ...any) {
	c.caseStr = fmt.Sprintf(format, a...)
	if c.Verbose {
		fmt.Printf("CASE %s idx=%d: %s\n", c.Prop, c.Idx, c.caseStr)
	}
}

// Logf prints in verbose (replay) mode.
func (c *Ctx) Logf(format string, a ...any) {
	if c.Verbose {
		fmt.Printf("  "+format+"\n", a...)
	}
}

// Eval counts executions of the code under test.
func (c *Ctx) Eval(n int) { c.res.Evaluations += int64(n) }

// Skip records a generated case outside the property's quantifier.
func (c *Ctx) Skip(reason string) {
	c.res.Skips++
	c.Count("skip:"+reason, 1)
}

// Count adds to a named counter.
func (c *Ctx) Count(key string, n int64) { c.res.Counters[key] += n }

// Nontrivial records a distinct non-trivial case by its descriptor.
func (c *Ctx) Nontrivial(desc string) { c.hashes[gen.HashStr(desc)] = struct{}{} }

// Distinct records a member of a named set whose cardinality is reported in the evidence.
func (c *Ctx) Distinct(set, member string) {
	s := c.sets[set]
	if s == nil {
		s = map[uint64]struct{}{}
		c.sets[set] = s
	}
	s[gen.HashStr(member)] = struct{}{}
}

// Sample records an example case (a handful are kept).
func (c *Ctx) Sample(v any) {
	if len(c.res.Samples) < 4 {
		c.res.Samples = append(c.res.Samples, v)
	}
}

// Violation records a violation. sig is the signature of the *kind* of wrong
// behaviour (stable across runs); detail describes this instance.
func (c *Ctx) Violation(sig, format string, a ...any) {
	c.violationWithHistory(sig, 0, format, a...)
}

func (c *Ctx) violationWithHistory(sig string, history int, format string, a ...any) {
	detail := fmt.Sprintf(format, a...)
	if c.capture != nil {
		*c.capture = append(*c.capture, Violation{Idx: c.Idx, Sig: sig, Detail: detail, Case: c.caseStr, History: history})
		return
	}
	c.res.SigCounts[sig]++
	if c.res.SigCounts[sig] <= 3 {
		c.res.Violations = append(c.res.Violations, Violation{Idx: c.Idx, Sig: sig, Detail: detail, Case: c.caseStr, History: history})
	}
	if c.Verbose {
		fmt.Printf("  VIOLATION-DETAIL signature=%s: %s\n", sig, detail)
	}
}

// WriteResult stores a worker result.
func WriteResult(path string, r *Result) error {
	b, err := json.Marshal(r)
	if err != nil {
		return err
	}
	return os.WriteFile(path, b, 0o644)
}

// Aggregate is the union of all worker results of a run.
type Aggregate struct {
	Cases       int
	Evaluations int64
	Skips       int64
	Hashes      map[uint64]struct{}
	Counters    map[string]int64
	Sets        map[string]map[uint64]struct{}
	Samples     []any
	Violations  []Violation
	SigCounts   map[string]int64
}

// NewAggregate creates an empty aggregate.
func NewAggregate() *Aggregate {
	return &Aggregate{Hashes: map[uint64]struct{}{}, Counters: map[string]int64{}, Sets: map[string]map[uint64]struct{}{}, SigCounts: map[string]int64{}}
}

// Add merges a worker result.
func (a *Aggregate) Add(r *Result) {
	a.Cases += r.Cases
	a.Evaluations += r.Evaluations
	a.Skips += r.Skips
	for _, h := range r.Hashes {
		a.Hashes[h] = struct{}{}
	}
	for k, v := range r.Counters {
		a.Counters[k] += v
	}
	for k, l := range r.Sets {
		s := a.Sets[k]
		if s == nil {
			s = map[uint64]struct{}{}
			a.Sets[k] = s
		}
		for _, h := range l {
			s[h] = struct{}{}
		}
	}
	for _, s := range r.Samples {
		if len(a.Samples) < 6 {
			a.Samples = append(a.Samples, s)
		}
	}
	a.Violations = append(a.Violations, r.Violations...)
	for k, v := range r.SigCounts {
		a.SigCounts[k] += v
	}
}

// trunc shortens long strings in reports.
func trunc(s string, n int) string {
	if len(s) <= n {
		return s
	}
	return s[:n] + "…"
}

// join is strings.Join for fmt.Stringer-free use.
func join(parts []string) string { return strings.Join(parts, ", ") }
