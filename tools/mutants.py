#!/usr/bin/env python3
"""Seeded breaks of DESIGN.md Appendix B, applied one at a time to /repo's working
tree (and reverted with `git checkout`), to validate that the monitors fire.

usage: mutants.py [Cxx ...]     (default: all)
For each mutant: apply -> repository suite (a mutant the suite catches is
discarded) -> quick check of the targeted property (must exit 1) -> revert.
Writes /verif/MUTANTS.md."""
import subprocess, sys, os, json, time

REPO = "/repo"
ENV = dict(os.environ, GOFLAGS="-mod=mod", GOPROXY="off", GOSUMDB="off", GOTOOLCHAIN="local")

# (property, name, file, old, new)
M = []
def m(prop, name, f, old, new):
    M.append((prop, name, f, old, new))

# ---- C01
m("C01", "registry caches one Gemm instance", "ops/opset13/opset13.go",
  'func GetOperator(operatorType string) (ops.Operator, error) {\n\tif opInit, ok := operators13[operatorType]; ok {\n\t\treturn opInit(), nil\n\t}',
  'var cachedOps = map[string]ops.Operator{}\n\nfunc GetOperator(operatorType string) (ops.Operator, error) {\n\tif opInit, ok := operators13[operatorType]; ok {\n\t\tif operatorType == "Gemm" {\n\t\t\tif c, ok := cachedOps[operatorType]; ok {\n\t\t\t\treturn c, nil\n\t\t\t}\n\t\t\tcachedOps[operatorType] = opInit()\n\t\t\treturn cachedOps[operatorType], nil\n\t\t}\n\t\treturn opInit(), nil\n\t}')
m("C01", "empty input name looked up instead of nil", "model.go",
  '\t\tif tensorName == "" {\n\t\t\tinputTensors = append(inputTensors, nil)\n\t\t} else if',
  '\t\tif tensorName == "" && len(inputTensors) == 0 {\n\t\t\tinputTensors = append(inputTensors, nil)\n\t\t} else if tensorName == "" {\n\t\t\tinputTensors = append(inputTensors, inputTensors[len(inputTensors)-1])\n\t\t} else if')
m("C01", "outputs bound in reverse order", "model.go",
  '\tfor i, tensor := range outputTensors {\n\t\ttensors[names[i]] = tensor\n\t}',
  '\tfor i, tensor := range outputTensors {\n\t\ttensors[names[len(names)-1-i]] = tensor\n\t}')
m("C01", "LSTM swaps Y_h and Y_c", "ops/opset13/lstm.go",
  'allOutputs := []tensor.Tensor{Y, Yh, Yc}', 'allOutputs := []tensor.Tensor{Y, Yc, Yh}')
m("C01", "error of the last node ignored", "model.go",
  '\t\tif err := m.applyOp(op, n, tensors); err != nil {\n\t\t\treturn nil, err\n\t\t}',
  '\t\tif err := m.applyOp(op, n, tensors); err != nil && n != m.mp.Graph.GetNode()[len(m.mp.Graph.GetNode())-1] {\n\t\t\treturn nil, err\n\t\t}')
m("C01", "initializer overrides the caller again", "model.go",
  '\t\tif _, ok := inputs[parameterName]; ok && m.hasInput(parameterName) {\n\t\t\tcontinue\n\t\t}\n', '')
# ---- C02
m("C02", "Reshape without clone", "ops/opset13/reshape.go",
  '\tout, ok := t.Clone().(tensor.Tensor)\n\tif !ok {\n\t\treturn nil, ops.ErrTypeAssert("tensor.Tensor", t.Clone())\n\t}',
  '\tout := t')
m("C02", "Flatten without clone", "ops/opset13/flatten.go",
  '\tout, ok := inputs[0].Clone().(tensor.Tensor)\n\tif !ok {\n\t\treturn nil, ops.ErrTypeAssert("tensor.Tensor", inputs[0].Clone())\n\t}',
  '\tout := inputs[0]')
m("C02", "broadcast helper reshapes the original", "ops/multidir_broadcast.go",
  '\tt, ok := originalT.Clone().(tensor.Tensor)\n\tif !ok {\n\t\treturn nil, ErrTypeAssert("tensor.Tensor", originalT.Clone())\n\t}',
  '\tt := originalT')
m("C02", "intermediate tensors of a Run kept and re-used by the next Run", "model.go",
  '\ttensors := make(Tensors)\n\tfor inputName, inputTensor := range inputs {\n\t\ttensors[inputName] = inputTensor\n\t}',
  '\ttensors := make(Tensors)\n\tfor name, t := range m.parameters {\n\t\tif len(name) > 6 && name[:6] == "__run_" {\n\t\t\ttensors[name[6:]] = t\n\t\t}\n\t}\n\n\tdefer func() {\n\t\tfor _, o := range m.OutputNames() {\n\t\t\tif t, ok := tensors[o]; ok && t != nil && len(inputs) > 1 {\n\t\t\t\tm.parameters["__run_"+o] = t\n\t\t\t}\n\t\t}\n\t}()\n\n\tfor inputName, inputTensor := range inputs {\n\t\ttensors[inputName] = inputTensor\n\t}')
m("C02", "ArgMax writes the input shape again", "ops/opset13/argmax.go",
  'newShape := inputs[0].Shape().Clone()', 'newShape := inputs[0].Shape()')
m("C02", "LSTM initial_c reshaped in place", "ops/opset13/lstm.go",
  '\tCt, err = cloneWithoutFirstDim(Ct)\n\tif err != nil {\n\t\treturn nil, err\n\t}',
  '\tif err = Ct.Reshape(Ct.Shape().Clone()[1:]...); err != nil {\n\t\treturn nil, err\n\t}')
# ---- C03
m("C03", "Greater uses >=", "ops/binary_op.go", 'return tensor.Gt(A, B)', 'return tensor.Gte(A, B)')
m("C03", "Less uses <=", "ops/binary_op.go", 'return tensor.Lt(A, B)', 'return tensor.Lte(A, B)')
m("C03", "Sub operands swapped", "ops/binary_op.go", 'return tensor.Sub(A, B)', 'return tensor.Sub(B, A)')
m("C03", "Xor computed as or", "ops/binary_op.go", 'func(a, b bool) bool { return a != b }', 'func(a, b bool) bool { return a || b }')
m("C03", "broadcast repeats only A", "ops/multidir_broadcast.go",
  '\t\t\tcase sizeDimB == 1:\n\t\t\t\tB, err = tensor.Repeat(B, axis, sizeDimA)',
  '\t\t\tcase sizeDimB == 1 && axis > 0:\n\t\t\t\tB, err = tensor.Repeat(B, axis, sizeDimA)')
# ---- C04
m("C04", "batched MatMul odometer stops one early", "ops/opset13/matmul.go",
  '\t\tif dimSize == (dimSliceStart + 1) {\n', '\t\tif dimSize == (dimSliceStart + 1) || (i == 0 && dimSize > 2 && dimSize == dimSliceStart+2) {\n')
m("C04", "Gemm beta multiplies the product", "ops/opset13/gemm.go",
  '\ty, err := tensor.Mul(c, g.beta)', '\tx, err = tensor.Mul(x, g.beta)\n\tif err != nil {\n\t\treturn nil, err\n\t}\n\n\ty, err := tensor.Mul(c, float32(1))')
m("C04", "Gemm alpha dropped for transA", "ops/opset13/gemm.go",
  '\tx, err = tensor.Mul(x, g.alpha)', '\tif !g.transA {\n\t\tx, err = tensor.Mul(x, g.alpha)\n\t}')
m("C04", "LinearRegressor coefficient layout transposed", "ops/opset13/linear_regressor.go",
  '\terr := l.coefficients.Reshape(l.targets, ops.NElements(l.coefficients.Shape()...)/l.targets)\n\tif err != nil {\n\t\treturn err\n\t}\n\n\treturn l.coefficients.T()',
  '\treturn l.coefficients.Reshape(ops.NElements(l.coefficients.Shape()...)/l.targets, l.targets)')
# ---- C05
m("C05", "width loop bounded by height again", "ops/opset13/conv.go", 'for w := 0; w < paddedX.Shape()[3]; w += c.strides[1] {', 'for w := 0; w < paddedX.Shape()[2]; w += c.strides[1] {')
m("C05", "pads begin/end exchanged", "ops/opset13/conv.go",
  '\t\tif c.pads[i] != 0 {\n\t\t\tpadsBeforeShape := x.Shape().Clone()\n\t\t\tpadsBeforeShape[nNonSpatialDims+i] = c.pads[i]',
  '\t\tif c.pads[i+nSpatialDims] != 0 {\n\t\t\tpadsBeforeShape := x.Shape().Clone()\n\t\t\tpadsBeforeShape[nNonSpatialDims+i] = c.pads[i+nSpatialDims]')
m("C05", "stride of axis 0 used for both axes", "ops/opset13/conv.go", 'dimWOutputIdx := w / c.strides[1]', 'dimWOutputIdx := w / c.strides[0]')
m("C05", "SAME_LOWER computed as SAME_UPPER for small paddings", "ops/opset13/conv.go", '\t\tif c.autoPad == SameLower {\n', '\t\tif c.autoPad == SameLower && padNeeded > 3 {\n')
# ---- C06
m("C06", "LSTM gate order iofc -> ifoc", "ops/opset13/lstm.go", 'return weights[0], weights[1], weights[2], weights[3], nil', 'return weights[0], weights[2], weights[1], weights[3], nil')
m("C06", "LSTM output gate peephole uses the old cell", "ops/opset13/lstm.go",
  '\t\tCt, err = l.cellCalculation(ft, it, ct, Ct)\n\t\tif err != nil {\n\t\t\treturn nil, err\n\t\t}\n\n\t\tot, err := l.gateCalculation(Xt, Wo, Wbo, Ht, Ro, Rbo, Po, Ct, fActivation)',
  '\t\toldCt := Ct\n\n\t\tCt, err = l.cellCalculation(ft, it, ct, Ct)\n\t\tif err != nil {\n\t\t\treturn nil, err\n\t\t}\n\n\t\tot, err := l.gateCalculation(Xt, Wo, Wbo, Ht, Ro, Rbo, Po, oldCt, fActivation)')
m("C06", "GRU update gate applied the other way round", "ops/opset13/gru.go",
  '\ttemp2, err := tensor.Mul(temp1, ht)\n\tif err != nil {\n\t\treturn nil, err\n\t}\n\n\ttemp3, err := tensor.Mul(zt, prevH)',
  '\ttemp2, err := tensor.Mul(temp1, prevH)\n\tif err != nil {\n\t\treturn nil, err\n\t}\n\n\ttemp3, err := tensor.Mul(zt, ht)')
m("C06", "GRU ignores linear_before_reset", "ops/opset13/gru.go", '\tif !g.linearBeforeReset {\n\t\ttemp1, err := tensor.Mul(rt, prevH)', '\tif true {\n\t\ttemp1, err := tensor.Mul(rt, prevH)')
m("C06", "RNN drops the recurrence bias", "ops/opset13/rnn.go", 'hiddenCalc, err := gemm.Apply([]tensor.Tensor{H, Ri, Rbi})', 'hiddenCalc, err := gemm.Apply([]tensor.Tensor{H, Ri, nil})')
m("C06", "LSTM input_forget ignored again", "ops/opset13/lstm.go", '\t\tif l.inputForget {\n\t\t\tft, err = tensor.Sub', '\t\tif l.inputForget && false {\n\t\t\tft, err = tensor.Sub')
# ---- C07
m("C07", "Reshape 0 copies dim 0", "ops/opset13/reshape.go", 'newShape[i] = currentShape[i]', 'newShape[i] = currentShape[0]')
m("C07", "Reshape allows two -1", "ops/opset13/reshape.go", '\t\t\t\tif newShape[j] == -1 {\n\t\t\t\t\treturn ops.ErrDimension("at most one -1 dim size is allowed")\n\t\t\t\t}\n', '\t\t\t\tif newShape[j] == -1 {\n\t\t\t\t\tcontinue\n\t\t\t\t}\n')
m("C07", "Flatten axis==rank mapped to rank-1", "ops/opset13/flatten.go", '\tif axis < 0 {\n\t\taxis = rank + axis\n\t}', '\tif axis < 0 {\n\t\taxis = rank + axis\n\t}\n\n\tif axis == rank && rank > 1 {\n\t\taxis = rank - 1\n\t}')
m("C07", "Unsqueeze does not sort its axes", "ops/opset13/unsqueeze.go", '\tsort.Ints(axes)\n', '\t_ = sort.Ints\n')
m("C07", "Squeeze negative axes off by one", "ops/opset13/squeeze.go", 'dimsToSqueeze[i] = nDims + val', 'dimsToSqueeze[i] = nDims - 1 + val')
m("C07", "Shape returns int32", "ops/opset13/shape.go", '\tshape := make([]int64, len(nodeShape))\n\n\tfor i, dimSize := range nodeShape {\n\t\tshape[i] = int64(dimSize)\n\t}', '\tshape := make([]int32, len(nodeShape))\n\n\tfor i, dimSize := range nodeShape {\n\t\tshape[i] = int32(dimSize)\n\t}')
# ---- C08
m("C08", "Concat negative axis off by one", "ops/opset13/concat.go", '\tif axis < 0 {\n\t\taxis = rank + axis\n\t}', '\tif axis < 0 {\n\t\taxis = rank - 1 + axis\n\t\tif axis < 0 {\n\t\t\taxis = 0\n\t\t}\n\t}')
m("C08", "Gather negative index off by one", "ops/utils.go", '\t\tif n < 0 {\n\t\t\treturn n + offset\n\t\t}', '\t\tif n < 0 {\n\t\t\treturn n + offset - 1\n\t\t}')
m("C08", "Transpose applies the inverse permutation", "ops/opset13/transpose.go",
  '\tout, err := tensor.Transpose(inputs[0], t.perm...)', '\tinv := make([]int, len(t.perm))\n\tfor i, p := range t.perm {\n\t\tinv[p] = i\n\t}\n\n\tout, err := tensor.Transpose(inputs[0], inv...)')
m("C08", "Slice ignores axes (leading axes)", "ops/opset13/slice.go", '\t\tnewAxes[i] = axis\n', '\t\tnewAxes[i] = i\n')
m("C08", "Expand left alignment again", "ops/opset13/expand.go",
  '\texpanded, _, err := ops.MultidirectionalBroadcast(input, target)', '\tif len(shape) < len(input.Shape()) {\n\t\tif err := target.Reshape(append(shape, make([]int, 0)...)...); err != nil {\n\t\t\treturn nil, err\n\t\t}\n\t\tfor len(target.Shape()) < len(input.Shape()) {\n\t\t\tif err := target.Reshape(append(target.Shape().Clone(), 1)...); err != nil {\n\t\t\t\treturn nil, err\n\t\t\t}\n\t\t}\n\t}\n\n\texpanded, _, err := ops.MultidirectionalBroadcast(input, target)')
# ---- C09
m("C09", "ArgMax keepdims inverted for rank 3", "ops/opset13/argmax.go", '\tif a.keepDims {\n\t\tnewShape := inputs[0].Shape().Clone()', '\tif a.keepDims != (nDims == 3) {\n\t\tnewShape := inputs[0].Shape().Clone()')
m("C09", "ReduceMin computes Max for float64", "ops/opset13/reduce_min.go", '\t\treturn t.Min(axis)', '\t\tif t.Dtype() == tensor.Float64 {\n\t\t\treturn t.Max(axis)\n\t\t}\n\n\t\treturn t.Min(axis)')
m("C09", "Softmax negative axis off by one", "ops/opset13/softmax.go", '\tif s.axis < 0 {\n\t\taxis += nDims\n\t}', '\tif s.axis < -1 {\n\t\taxis += nDims - 1\n\t} else if s.axis < 0 {\n\t\taxis += nDims\n\t}')
m("C09", "LogSoftmax returns Softmax", "ops/opset13/logsoftmax.go", 'out, err := softmax(input, axis, true)', 'out, err := softmax(input, axis, false)')
m("C09", "softmax without max subtraction", "ops/opset13/reduce_utils.go", '\tshifted, err := tensor.Sub(input, max)', '\tshifted, err := tensor.Sub(input, float32(0))\n\tif input.Dtype() == tensor.Float64 {\n\t\tshifted, err = tensor.Sub(input, float64(0))\n\t}\n\t_ = max')
# ---- C10
m("C10", "Acos computes Asin", "ops/opset13/acos.go", 'math.Acos(float64(x))', 'math.Asin(float64(x))')
m("C10", "Atanh clips its argument", "ops/opset13/atanh.go", 'return T(math.Atanh(float64(x)))', 'return T(math.Atanh(math.Max(-0.999999, math.Min(0.999999, float64(x)))))')
m("C10", "ReLU back to X*(X>0)", "ops/activation.go", '\tcase tensor.Float32:\n\t\treturn X.Apply(relu[float32])\n\tcase tensor.Float64:\n\t\treturn X.Apply(relu[float64])\n\t}', '\t}')
m("C10", "PRelu treats zero as negative", "ops/opset13/prelu.go", '\t\tif v < 0 {\n\t\t\tv = convertedSlope[i] * v', '\t\tif v <= 0 {\n\t\t\tv = convertedSlope[i]*v + 0')
m("C10", "Not is the identity", "ops/opset13/not.go", 'return !x', 'return x')
m("C10", "Sigmoid clamp removed", "ops/activation.go", '\tX, err = tensor.Clamp(X, minX, maxX)\n\tif err != nil {\n\t\treturn nil, err\n\t}\n', '\t_, _ = minX, maxX\n')
# ---- C11
m("C11", "Cast to INT16 builds int8", "ops/convert.go", 'return createNewBacking[B, int16](backing), nil', 'return createNewBacking[B, int8](backing), nil')
m("C11", "Cast to UINT32 builds int32", "ops/convert.go", 'return createNewBacking[B, uint32](backing), nil', 'return createNewBacking[B, int32](backing), nil')
m("C11", "Constant value_int as int32", "ops/opset13/constant.go", 'c.value = tensor.New(tensor.FromScalar(attr.GetI()))', 'c.value = tensor.New(tensor.FromScalar(int32(attr.GetI())))')
m("C11", "Constant value_floats drops the last", "ops/opset13/constant.go", '\t\tfloats := attr.GetFloats()\n\t\tc.value = tensor.New(tensor.WithShape(len(floats)), tensor.WithBacking(floats))', '\t\tfloats := attr.GetFloats()\n\t\tif len(floats) > 3 {\n\t\t\tfloats = floats[:len(floats)-1]\n\t\t}\n\n\t\tc.value = tensor.New(tensor.WithShape(len(floats)), tensor.WithBacking(floats))')
m("C11", "ConstantOfShape shape reversed", "ops/opset13/constant_of_shape.go", '\tt := tensor.New(tensor.WithShape(shape...), tensor.Of(c.value.Dtype()))', '\tfor i, j := 0, len(shape)-1; i < j; i, j = i+1, j-1 {\n\t\tshape[i], shape[j] = shape[j], shape[i]\n\t}\n\n\tt := tensor.New(tensor.WithShape(shape...), tensor.Of(c.value.Dtype()))')
# ---- C12
m("C12", "uint64 4-byte buffer again", "onnx/graph_proto.go", '\tbuffer := bytes.NewReader(data)\n\telement := make([]byte, uint64Size)', '\tbuffer := bytes.NewReader(data)\n\telement := make([]byte, int32Size)')
m("C12", "int16 read without sign", "onnx/graph_proto.go", 'values = append(values, int16(binary.LittleEndian.Uint16(element)))', 'values = append(values, int16(binary.LittleEndian.Uint16(element)&0x7fff))')
m("C12", "float64 read big-endian", "onnx/graph_proto.go", '\t\tuintElement := binary.LittleEndian.Uint64(element)\n\t\tvalues = append(values, math.Float64frombits(uintElement))', '\t\tuintElement := binary.BigEndian.Uint64(element)\n\t\tvalues = append(values, math.Float64frombits(uintElement))')
m("C12", "dims/count validation skipped for typed fields", "onnx/graph_proto.go", '\tif err := validateDims(tp, reflect.ValueOf(values).Len()); err != nil {', '\tif err := validateDims(tp, reflect.ValueOf(values).Len()); err != nil && len(tp.RawData) > 0 {')
m("C12", "bool from int32 accepts any non-zero only as false", "onnx/graph_proto.go", 'newArr[i] = value == 1', 'newArr[i] = value > 1')
# ---- C13
m("C13", "shapes validated after the node loop", "model.go", '\tif err := m.validateShapes(inputs); err != nil {\n\t\treturn nil, err\n\t}\n\n\ttensors := make(Tensors)', '\ttensors := make(Tensors)')
m("C13", "only dim 0 compared", "model.go", '\t\tfor i, dim := range shapeExpected {\n\t\t\t// because', '\t\tfor i, dim := range shapeExpected[:1] {\n\t\t\t// because')
m("C13", "rank comparison skipped", "model.go", '\t\tif len(shapeReceived) != len(shapeExpected) {\n\t\t\treturn ErrInvalidShape(shapeExpected, shapeReceived)\n\t\t}', '\t\tif len(shapeReceived) < len(shapeExpected) {\n\t\t\treturn ErrInvalidShape(shapeExpected, shapeReceived)\n\t\t}')
m("C13", "initializer inputs required", "model.go", '\t\tif _, ok := m.parameters[name]; ok {\n\t\t\tcontinue\n\t\t}\n', '')
m("C13", "dynamic only when a dim_param is present", "onnx/graph_proto.go", '\t\t\tif v == 0 {\n\t\t\t\tisDynamic = true\n\t\t\t}', '\t\t\tif v == 0 && param != "" {\n\t\t\t\tisDynamic = true\n\t\t\t}')
# ---- C14
m("C14", "incompatible extents tolerated when they differ by one", "ops/multidir_broadcast.go", '\t\t\tdefault:\n\t\t\t\treturn nil, nil, ErrIncompatibleDimensions()', '\t\t\tdefault:\n\t\t\t\tif sizeDimA-sizeDimB == 1 && sizeDimB == 3 {\n\t\t\t\t\tcontinue\n\t\t\t\t}\n\n\t\t\t\treturn nil, nil, ErrIncompatibleDimensions()')
m("C14", "extra dims appended at the back", "ops/multidir_broadcast.go", '\tnewShape := []int{}\n\tfor i := 0; i < nExtraDims; i++ {\n\t\tnewShape = append(newShape, 1)\n\t}\n\n\tnewShape = append(newShape, t.Shape()...)', '\tnewShape := append([]int{}, t.Shape()...)\n\tfor i := 0; i < nExtraDims; i++ {\n\t\tnewShape = append(newShape, 1)\n\t}')
m("C14", "unidirectional allows B of higher rank", "ops/unidir_broadcast.go", '\tdefault:\n\t\treturn nil, ErrUnidirBroadcast(A.Shape(), B.Shape())\n\t}\n}', '\tdefault:\n\t\treturn B, nil\n\t}\n}')
# ---- C15
m("C15", "too many inputs not rejected for optional operators", "ops/validate_inputs.go", 'if nInputs < min || nInputs > max {', 'if nInputs < min {')
m("C15", "type check skipped for the last position", "ops/validate_inputs.go", '\tfor i, input := range inputs {\n\t\t// Optional inputs', '\tfor i, input := range inputs {\n\t\tif i == len(inputs)-1 && i > 1 {\n\t\t\tcontinue\n\t\t}\n\t\t// Optional inputs')
m("C15", "padding to min instead of max", "ops/validate_inputs.go", '\t\tpadLength = max\n', '\t\tpadLength = min\n')
m("C15", "unknown operator falls back to Add", "ops/opset13/opset13.go", '\treturn nil, ops.ErrUnknownOperatorType(operatorType)', '\tif len(operatorType) == 3 {\n\t\treturn newAdd(), nil\n\t}\n\n\treturn nil, ops.ErrUnknownOperatorType(operatorType)')
# ---- C16
m("C16", "GRU takes batch row 0 for every row at t>0", "ops/recurrent_utils.go", '\tXt, err := X.Slice(NewSlicer(t, t+1), nil, nil)', '\tXt, err := X.Slice(NewSlicer(t, t+1), nil, nil)\n\tif t > 2 && X.Shape()[1] > 2 {\n\t\tXt, err = X.Slice(NewSlicer(t-1, t), nil, nil)\n\t}')
m("C16", "Conv sub-image always from batch 0 for batch > 2", "ops/opset13/conv.go", '\tslices := []tensor.Slice{\n\t\tops.NewSlicer(batchIdx, batchIdx+1),', '\tif batchIdx > 2 {\n\t\tbatchIdx = 0\n\t}\n\n\tslices := []tensor.Slice{\n\t\tops.NewSlicer(batchIdx, batchIdx+1),')
m("C16", "Gemm bias broadcast along the batch for square results", "ops/opset13/gemm.go", '\tx, y, err = ops.UnidirectionalBroadcast(x, y)', '\tif len(y.Shape()) == 1 && x.Shape()[0] == x.Shape()[1] && x.Shape()[0] > 1 {\n\t\tif err = y.Reshape(x.Shape()[0], 1); err != nil {\n\t\t\treturn nil, err\n\t\t}\n\t}\n\n\tx, y, err = ops.UnidirectionalBroadcast(x, y)')
# ---- C17
m("C17", "Conv bias reshaped in place again", "ops/opset13/conv.go", '\tbias, err := reshapeCopy(bias, biasShape)\n\tif err != nil {\n\t\treturn nil, err\n\t}', '\terr := bias.Reshape(biasShape...)\n\tif err != nil {\n\t\treturn nil, err\n\t}')
m("C17", "parameter lookups memoised in a map written during Run", "model.go", '\tfor parameterName, parameterTensor := range m.parameters {\n\t\t// A parameter', '\tm.parameters["__last_run"] = nil\n\tdelete(m.parameters, "__last_run")\n\n\tfor parameterName, parameterTensor := range m.parameters {\n\t\t// A parameter')
m("C17", "Scaler subtracts into the shared input with reuse", "ops/opset13/scaler.go", '\tX, err = tensor.Sub(X, offset)', '\tX, err = tensor.Sub(X, offset, tensor.UseUnsafe())')
# ---- C18
m("C18", "opset = version of the first import", "model.go", '\t\tif version > opsetID {\n\t\t\topsetID = version\n\t\t}', '\t\tif i == 0 {\n\t\t\topsetID = version\n\t\t}')
m("C18", "opset table falls back to 13 for newer versions", "opset.go", '\treturn nil, ops.ErrUnsupportedOpsetVersion', '\tif opsetID > 13 {\n\t\treturn operatorGetters[13], nil\n\t}\n\n\treturn nil, ops.ErrUnsupportedOpsetVersion')
m("C18", "unknown operator returns (nil, nil)", "ops/opset13/opset13.go", '\treturn nil, ops.ErrUnknownOperatorType(operatorType)', '\tif operatorType == "" {\n\t\treturn nil, nil\n\t}\n\n\treturn nil, ops.ErrUnknownOperatorType(operatorType)')
m("C18", "negative dims no longer rejected", "onnx/graph_proto.go", '\t\tif dim < 0 {\n\t\t\treturn fmt.Errorf("%w: negative dim %d", ErrInvalidTensorShape, dim)\n\t\t}\n', '')

def sh(cmd, cwd=None, timeout=1200):
    return subprocess.run(cmd, shell=True, cwd=cwd, env=ENV, capture_output=True, text=True, timeout=timeout)

def baseline_ok():
    r = sh("python3 /verif/tools/baseline.py")
    return r.returncode == 0, r.stdout.strip().splitlines()[-1] if r.stdout.strip() else r.stderr[-200:]

def main():
    want = set(sys.argv[1:])
    rows = []
    assert sh("git status --porcelain", REPO).stdout.strip() == "", "/repo is dirty"
    for prop, name, f, old, new in M:
        if want and prop not in want:
            continue
        path = os.path.join(REPO, f)
        src = open(path).read()
        if old not in src:
            rows.append((prop, name, f, "NOT-APPLICABLE (anchor text not found)", ""))
            print(rows[-1]); continue
        open(path, "w").write(src.replace(old, new, 1))
        try:
            b = sh("go build ./... && go vet -vet=off ./... 2>/dev/null; go build ./...", REPO)
            if b.returncode != 0:
                rows.append((prop, name, f, "DOES-NOT-COMPILE", b.stderr.strip().splitlines()[-1][:120] if b.stderr.strip() else ""))
                print(rows[-1]); continue
            ok, info = baseline_ok()
            if not ok:
                rows.append((prop, name, f, "caught by the repository's own tests (discarded)", info[:100]))
                print(rows[-1]); continue
            t0 = time.time()
            r = sh("./check.sh %s quick" % prop, "/verif", timeout=1800)
            dt = time.time() - t0
            sigs = [l.split("signature=")[1].split(" ")[0] for l in r.stdout.splitlines() if "signature=" in l and "KNOWN" not in l]
            verdict = {0: "MISSED", 1: "caught", 2: "INCONCLUSIVE"}.get(r.returncode, "rc=%d" % r.returncode)
            rows.append((prop, name, f, verdict, "%.0fs %s" % (dt, ", ".join(sigs[:3]))))
            print(rows[-1])
        finally:
            sh("git checkout -- .", REPO)
    with open("/verif/MUTANTS.md", "a" if want else "w") as out:
        if not want:
            out.write("# Seeded breaks (DESIGN.md Appendix B) - kill matrix\n\nEach mutant is applied alone to /repo's working tree, must pass the repository's own tests, and is then given to the quick check of the targeted property.\n\n| Property | Mutant | File | Verdict | Time / signatures |\n|---|---|---|---|---|\n")
        for r in rows:
            out.write("| %s | %s | %s | %s | %s |\n" % r)
    missed = [r for r in rows if r[3] in ("MISSED", "INCONCLUSIVE")]
    print("missed:", missed)

if __name__ == "__main__":
    main()
