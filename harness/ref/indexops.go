package ref

import "math"

// Transpose implements ONNX Transpose (perm nil = reverse).
func Transpose(t *T, perm []int64) (*T, error) {
	r := t.Rank()
	p := make([]int, r)
	if perm == nil {
		for i := range p {
			p[i] = r - 1 - i
		}
	} else {
		if len(perm) != r {
			return nil, invalid("perm length %d for rank %d", len(perm), r)
		}
		seen := make([]bool, r)
		for i, v := range perm {
			if v < 0 || v >= int64(r) || seen[v] {
				return nil, invalid("perm %v is not a permutation", perm)
			}
			seen[v] = true
			p[i] = int(v)
		}
	}
	shape := make([]int, r)
	for i := range shape {
		shape[i] = t.Shape[p[i]]
	}
	out := New(t.DT, shape...)
	oc := make([]int, r)
	ic := make([]int, r)
	for i := range out.Bits {
		Unravel(i, shape, oc)
		for j := 0; j < r; j++ {
			ic[p[j]] = oc[j]
		}
		out.Bits[i] = t.Bits[Ravel(ic, t.Shape)]
	}
	return out, nil
}

// Concat implements ONNX Concat.
func Concat(ts []*T, axis int) (*T, error) {
	if len(ts) == 0 {
		return nil, invalid("concat of nothing")
	}
	r := ts[0].Rank()
	ax, ok := NormAxis(axis, r)
	if !ok {
		return nil, invalid("concat axis %d for rank %d", axis, r)
	}
	shape := append([]int{}, ts[0].Shape...)
	shape[ax] = 0
	for _, t := range ts {
		if t.DT != ts[0].DT {
			return nil, invalid("concat types differ")
		}
		if t.Rank() != r {
			return nil, invalid("concat ranks differ")
		}
		for d := 0; d < r; d++ {
			if d != ax && t.Shape[d] != ts[0].Shape[d] {
				return nil, invalid("concat extents differ off-axis")
			}
		}
		shape[ax] += t.Shape[ax]
	}
	out := New(ts[0].DT, shape...)
	oc := make([]int, r)
	for i := range out.Bits {
		Unravel(i, shape, oc)
		c := oc[ax]
		for _, t := range ts {
			if c < t.Shape[ax] {
				oc[ax] = c
				out.Bits[i] = t.Bits[Ravel(oc, t.Shape)]
				break
			}
			c -= t.Shape[ax]
		}
	}
	return out, nil
}

func satAdd(a int64, d int64) int64 {
	s := a + d
	if d > 0 && s < a {
		return math.MaxInt64
	}
	if d < 0 && s > a {
		return math.MinInt64
	}
	return s
}

func clamp(v, lo, hi int64) int64 {
	if v < lo {
		return lo
	}
	if v > hi {
		return hi
	}
	return v
}

// SliceAxis resolves one (start, end, step) triple against an extent d:
// first index, step and number of selected elements (Appendix A.8).
func SliceAxis(start, end, step int64, d int) (first int64, count int) {
	D := int64(d)
	if start < 0 {
		start = satAdd(start, D)
	}
	if end < 0 {
		end = satAdd(end, D)
	}
	if step > 0 {
		start = clamp(start, 0, D)
		end = clamp(end, 0, D)
		if end <= start {
			return start, 0
		}
		// ceil((end-start)/step) without overflow
		n := (end - start - 1) / step
		return start, int(n + 1)
	}
	start = clamp(start, 0, D-1)
	end = clamp(end, -1, D-1)
	if end >= start {
		return start, 0
	}
	n := (start - end - 1) / (-step)
	if step == math.MinInt64 {
		n = 0
	}
	return start, int(n + 1)
}

// Slice implements ONNX Slice-13. axes/steps nil = defaults.
func Slice(t *T, starts, ends, axes, steps []int64) (*T, error) {
	r := t.Rank()
	if len(starts) != len(ends) {
		return nil, invalid("starts/ends length")
	}
	if axes == nil {
		axes = make([]int64, len(starts))
		for i := range axes {
			axes[i] = int64(i)
		}
	}
	if steps == nil {
		steps = make([]int64, len(starts))
		for i := range steps {
			steps[i] = 1
		}
	}
	if len(axes) != len(starts) || len(steps) != len(starts) {
		return nil, invalid("axes/steps length")
	}
	na, err := normAxes(axes, r)
	if err != nil {
		return nil, err
	}
	first := make([]int64, r)
	stp := make([]int64, r)
	shape := append([]int{}, t.Shape...)
	for i := range stp {
		stp[i] = 1
	}
	for i, a := range na {
		if steps[i] == 0 {
			return nil, invalid("slice step 0")
		}
		f, c := SliceAxis(starts[i], ends[i], steps[i], t.Shape[a])
		first[a], stp[a], shape[a] = f, steps[i], c
	}
	out := New(t.DT, shape...)
	oc := make([]int, r)
	ic := make([]int, r)
	for i := range out.Bits {
		Unravel(i, shape, oc)
		for d := 0; d < r; d++ {
			ic[d] = int(first[d] + int64(oc[d])*stp[d])
		}
		out.Bits[i] = t.Bits[Ravel(ic, t.Shape)]
	}
	return out, nil
}

// Gather implements ONNX Gather.
func Gather(t *T, idx *T, axis int) (*T, error) {
	r := t.Rank()
	if r < 1 {
		return nil, invalid("gather on a scalar")
	}
	ax, ok := NormAxis(axis, r)
	if !ok {
		return nil, invalid("gather axis %d for rank %d", axis, r)
	}
	d := int64(t.Shape[ax])
	ids := make([]int, len(idx.Bits))
	for i := range ids {
		v := idx.I(i)
		if v < -d || v >= d {
			return nil, invalid("gather index %d for extent %d", v, d)
		}
		if v < 0 {
			v += d
		}
		ids[i] = int(v)
	}
	shape := append([]int{}, t.Shape[:ax]...)
	shape = append(shape, idx.Shape...)
	shape = append(shape, t.Shape[ax+1:]...)
	out := New(t.DT, shape...)
	q := idx.Rank()
	oc := make([]int, len(shape))
	ic := make([]int, r)
	for i := range out.Bits {
		Unravel(i, shape, oc)
		copy(ic[:ax], oc[:ax])
		ic[ax] = ids[Ravel(oc[ax:ax+q], idx.Shape)]
		copy(ic[ax+1:], oc[ax+q:])
		out.Bits[i] = t.Bits[Ravel(ic, t.Shape)]
	}
	return out, nil
}

// Expand implements ONNX Expand (two-way broadcast against the target shape).
func Expand(t *T, target []int64) (*T, error) {
	ts := make([]int, len(target))
	for i, v := range target {
		if v < 1 {
			return nil, invalid("expand target entry %d", v)
		}
		ts[i] = int(v)
	}
	shape, err := BroadcastShape(t.Shape, ts)
	if err != nil {
		return nil, err
	}
	return BroadcastTo(t, shape), nil
}
