package props

import (
	"fmt"
	"os"
	"sort"
	"sync"

	"verif/harness/gen"
	"verif/harness/mon"
	"verif/harness/ref"
)

// modelSpec is a loadable model together with a way to draw inputs for it.
type modelSpec struct {
	Name  string
	Bytes []byte
	// Feed draws an input set for the given batch size (0 = the model's native one).
	Feed func(r *gen.R, batch int) map[string]*ref.T
	// BatchAxis maps input and output names to the axis that carries the batch.
	BatchAxis map[string]int
	Outputs   []string
	// StateLoop lists (output, input) pairs that can be fed back (recurrent state round trip).
	StateLoop [][2]string
	Heavy     bool // expensive model (used sparingly under -race)
}

var sampleOnce sync.Once
var sampleSpecs []*modelSpec

const sampleDir = "/repo/sample_models/onnx_models/"

// sampleModels returns the loadable sample models of the repository.
func sampleModels() []*modelSpec {
	sampleOnce.Do(func() {
		read := func(n string) []byte {
			b, err := os.ReadFile(sampleDir + n + ".onnx")
			if err != nil {
				panic(fmt.Sprintf("sample model %s: %v", n, err))
			}
			return b
		}
		f32 := func(r *gen.R, shape ...int) *ref.T { return uniformT(r, ref.F32, shape, 2) }
		sampleSpecs = []*modelSpec{
			{Name: "mlp.onnx", Bytes: read("mlp"), Outputs: []string{"preds"}, BatchAxis: map[string]int{"data_input": 0, "preds": 0},
				Feed: func(r *gen.R, b int) map[string]*ref.T {
					if b == 0 {
						b = r.Range(1, 5)
					}
					return map[string]*ref.T{"data_input": f32(r, b, 3)}
				}},
			{Name: "gru.onnx", Bytes: read("gru"), Outputs: []string{"preds", "hidden_out"}, BatchAxis: map[string]int{"data_input": 0, "init_hidden": 1, "preds": 0, "hidden_out": 1},
				StateLoop: [][2]string{{"hidden_out", "init_hidden"}},
				Feed: func(r *gen.R, b int) map[string]*ref.T {
					if b == 0 {
						b = r.Range(1, 4)
					}
					return map[string]*ref.T{"data_input": f32(r, b, r.Range(1, 6), 3), "init_hidden": f32(r, 1, b, 5)}
				}},
			{Name: "scaler.onnx", Bytes: read("scaler"), Outputs: []string{"variable"}, BatchAxis: map[string]int{"X": 0, "variable": 0},
				Feed: func(r *gen.R, b int) map[string]*ref.T {
					if b == 0 {
						b = r.Range(1, 5)
					}
					return map[string]*ref.T{"X": f32(r, b, 3)}
				}},
			{Name: "ndm.onnx", Bytes: read("ndm"), Outputs: []string{"optimal_supply_temp"}, Heavy: true, BatchAxis: map[string]int{"sensor_input": 0, "setpoint_input": 0, "optimal_supply_temp": 0},
				Feed: func(r *gen.R, b int) map[string]*ref.T {
					if b == 0 {
						b = r.Range(1, 3)
					}
					return map[string]*ref.T{"sensor_input": f32(r, b, r.Range(1, 4), 4), "setpoint_input": f32(r, b, 1)}
				}},
		}
	})
	return sampleSpecs
}

// specFromProgram wraps a generated program.
func specFromProgram(p *program, outs []string) *modelSpec {
	shapes := map[string][]int{}
	dts := map[string]ref.DType{}
	for k, v := range p.Feed {
		shapes[k] = v.Shape
		dts[k] = v.DT
	}
	orig := p.Feed
	// inputs that have a default (an initializer of the same name): every call decides
	// anew whether it overrides the default
	var shadowNames []string
	shadow := map[string]*ref.T{}
	for _, it := range p.Inits {
		if p.Shadow[it.Name] {
			shadow[it.Name] = it.T
			shadowNames = append(shadowNames, it.Name)
		}
	}
	sort.Strings(shadowNames)
	return &modelSpec{Name: "generated", Bytes: p.Graph(outs).Bytes(), Outputs: outs,
		Feed: func(r *gen.R, b int) map[string]*ref.T {
			feed := map[string]*ref.T{}
			for _, name := range shadowNames {
				if r.Bool() {
					feed[name] = uniformT(r, shadow[name].DT, shadow[name].Shape, 2)
				}
			}
			for k, v := range orig {
				if _, isShadow := shadow[k]; isShadow {
					continue
				}
				if v.DT == ref.F32 && r.Chance(0.8) {
					feed[k] = uniformT(r, ref.F32, shapes[k], 2)
				} else {
					feed[k] = v.Clone() // index / shape parameters keep their values
				}
			}
			return feed
		}}
}

// specFromOpReq wraps a single-node model built from a valid operator request
// (the rich per-operator generators of C03..C11); initMask chooses which inputs
// are initializers (weights) and which are supplied by the caller.
func specFromOpReq(r *gen.R, req mon.OpReq, initMask uint64) *modelSpec {
	for i, in := range req.Inputs { // complex / string tensors cannot be stored as initializers
		if in != nil && (in.DT == ref.C64 || in.DT == ref.C128 || in.DT == ref.Str) {
			initMask &^= 1 << uint(i)
		}
	}
	g, feed := mon.BuildOpModel(req, mon.ModelOpts{InitMask: initMask, RawInits: r.Bool(), Truncate: r.Bool(), DynamicIn: r.Chance(0.4)})
	var outs []string
	for _, o := range g.Outputs {
		outs = append(outs, o.Name)
	}
	return &modelSpec{Name: "single-node " + req.Op, Bytes: g.Bytes(), Outputs: outs,
		Feed: func(_ *gen.R, _ int) map[string]*ref.T {
			f := map[string]*ref.T{}
			for k, v := range feed {
				f[k] = v.Clone()
			}
			return f
		}}
}
