package props

import (
	"fmt"
	"math"
	"sort"
	"strings"

	"github.com/advancedclimatesystems/gonnx"
	"gorgonia.org/tensor"

	"verif/harness/gen"
	"verif/harness/mon"
	"verif/harness/ref"
)

// C02 — Run is history-independent and never modifies caller tensors or weights.

func init() {
	Register(&Property{
		ID:    "C02",
		Title: "Run is history-independent and never modifies caller tensors or weights",
		Cases: func(tier string) int {
			switch tier {
			case "thorough":
				return 240000
			case "race":
				return 1500
			}
			return 30000
		},
		Run:            c02Run,
		Floor:          func(tier string) int { return 500 },
		Rule:           "(every 8th program ends in a node whose output name is already taken by a graph input or a weight: rebinding the name leaves the tensor alone) (histories also contain 'refilled-objects': the caller writes new values into the tensor objects of the previous Run; single-node models carry NaN / infinities / signed zeros in half of the cases) histories of 3..10 Run calls on one Model drawn from the alphabet {fresh inputs, same values again, the same tensor objects again, outputs of the previous Run fed back (recurrent state round trip / any shape-compatible output), another batch size, a call failing validation (missing input, wrong rank), a call failing inside a node (proxy-injected error at a random node and phase; a caller tensor of another shape that passes the signature check through symbolic dimensions), proxy attached or not}; models: the four loadable sample models and generated programs in which initializers are randomly promoted to caller inputs so that caller tensors and weights both play the special roles (Conv bias, initial_h/initial_c, ArgMax/Reduce operand, Expand/Concat single input, Reshape/Squeeze/Unsqueeze/Flatten operands, MatMul operands, PRelu slope, Gather/Slice parameters, Constant/Scaler/LinearRegressor attribute tensors). After every call: every tensor the caller ever passed has an unchanged deep fingerprint (dtype, shape, strides, elements, backing), every weight has an unchanged fingerprint, and the outcome equals bit for bit (or error for error) the outcome of a freshly loaded Model given deep copies of the same inputs. Non-trivial = history with at least one re-use, feedback, failing call or batch change after a successful Run; distinct = (model structure, action sequence).",
		RaceInThorough: true,
		Technique:      "runtime monitoring: deep before/after fingerprints of caller tensors and weights (hook: Model.VerifParameters), differential oracle against a freshly loaded model (the real code as its own reference, exact comparison), per-node attribution through the operator proxy",
		Assumptions:    []string{"a freshly loaded Model given deep copies of the inputs is the reference for 'what this call returns'"},
	})
}

type callerTensor struct {
	name string
	t    tensor.Tensor
	fp   mon.Fingerprint
	step int
}

func c02Run(c *Ctx) {
	r := c.R
	var spec *modelSpec
	var desc string
	if r.Chance(0.25) {
		specs := sampleModels()
		spec = specs[r.Intn(len(specs))]
		if spec.Heavy && (c.Tier == "race" || r.Chance(0.7)) {
			spec = specs[r.Intn(3)]
		}
		desc = spec.Name
	} else if r.Chance(0.3) {
		// a single-node model from the per-operator generators (all 55 operators, every
		// parameter shape they know), inputs randomly split into weights and caller tensors
		name := c15Names[r.Intn(len(c15Names))]
		req, _, ok := SampleValidReq(r, name, true)
		if !ok {
			c.Skip("no valid request")
			return
		}
		if r.Chance(0.5) {
			// special values (NaN, infinities, signed zero, extremes) in the float operands: the
			// freshly loaded model is the reference, whatever the operator makes of them
			for i, in := range req.Inputs {
				if in == nil || !(in.DT == ref.F32 || in.DT == ref.F64) || len(in.Bits) == 0 {
					continue
				}
				salted := in.Clone()
				for k := r.Range(1, 2); k > 0; k-- {
					salted.Bits[r.Intn(len(salted.Bits))] = r.SpecialBits(in.DT)
					if r.Chance(0.4) {
						salted.Bits[r.Intn(len(salted.Bits))] = ref.EncF(in.DT, math.NaN())
					}
				}
				req.Inputs[i] = salted
			}
		}
		spec = specFromOpReq(r, req, r.U64())
		desc = trunc(req.Describe(), 400)
	} else {
		p := genProgram(r, 8)
		if len(p.Nodes) == 0 {
			c.Skip("empty program")
			return
		}
		p.promote(0.35)
		if c.Idx%8 == 3 {
			// a last node that writes its result under a name that is already taken by a graph input
			// or a weight (graphs need not be in single-assignment form to load): the name is bound
			// anew for the rest of the Run, the caller's tensor / the weight stays what it was
			var cands []string
			for _, in := range p.Inputs {
				if t := p.Values[in.Name]; t != nil && t.DT == ref.F32 {
					cands = append(cands, in.Name)
				}
			}
			for _, it := range p.Inits {
				if it.T != nil && it.T.DT == ref.F32 {
					cands = append(cands, it.Name)
				}
			}
			if len(cands) > 0 {
				x := cands[r.Intn(len(cands))]
				op := r.PickStr("Tanh", "Relu", "Abs", "Sigmoid")
				p.Nodes = append(p.Nodes, progNode{G: mon.GNode{Op: op, Name: "rebinds", Inputs: []string{x}, Outputs: []string{x}}, NOut: 1, Mode: CmpTol, Eval: approxEval(func(in []*ref.T) (*ref.Approx, error) { return ref.Unary(op, in[0]) })})
				c.Count("programs-whose-last-node-rebinds-an-input-or-weight-name", 1)
			}
		}
		d, _ := p.structure()
		desc = d
		spec = specFromProgram(p, p.declaredOutputs())
	}
	m, err := gonnx.NewModelFromBytes(spec.Bytes)
	if err != nil {
		c.Violation("history:model-does-not-load", "%v", err)
		return
	}
	weights := map[string]mon.Fingerprint{}
	for name, t := range m.VerifParameters() {
		weights[name] = mon.Fp(t)
	}
	protoFp := mon.ProtoFingerprint(m)
	px := mon.Attach(m)
	px.Detach(m)

	steps := r.Range(3, 10)
	var all []callerTensor
	var prevIn gonnx.Tensors
	var prevOut gonnx.Tensors
	var prevFeed map[string]*ref.T
	var actions []string
	returned := map[tensor.Tensor]bool{} // tensor objects a Run returned (never written by the harness)
	interesting := false
	succeeded := false
	for step := 0; step < steps; step++ {
		action := r.PickStr("fresh", "same-values", "same-objects", "refilled-objects", "feedback", "batch", "fail-validation", "fail-node", "misshapen", "fresh")
		feed := spec.Feed(r, 0)
		in := gonnx.Tensors{}
		expectFail := false
		inject := false
		switch {
		case action == "same-values" && prevFeed != nil:
			feed = prevFeed
		case action == "same-objects" && prevIn != nil:
			feed = prevFeed
			in = prevIn
		case action == "refilled-objects" && prevIn != nil:
			// the caller keeps its input tensors and writes the next values into them: the Run
			// must see the new contents (nothing may be remembered per tensor object)
			feed = map[string]*ref.T{}
			in = prevIn
			for k, v := range prevFeed {
				feed[k] = v
				if !v.DT.IsFloat() || len(v.Bits) == 0 || returned[prevIn[k]] {
					continue // index / shape parameters keep their values; fed-back results are not the caller's to write
				}
				nv := uniformT(r, v.DT, v.Shape, 2)
				if mon.Overwrite(prevIn[k], nv) {
					feed[k] = nv
					for i := range all {
						if all[i].t == prevIn[k] {
							all[i].fp = mon.Fp(prevIn[k])
						}
					}
				}
			}
		case action == "feedback" && prevOut != nil:
			// feed an output tensor object of the previous Run back as an input of matching shape
			fed := false
			for _, loop := range spec.StateLoop {
				if t := prevOut[loop[0]]; t != nil && prevFeed != nil {
					feed = map[string]*ref.T{}
					for k, v := range prevFeed {
						feed[k] = v
					}
					if v, err := mon.FromTensor(t); err == nil && ref.ShapeEq(v.Shape, prevFeed[loop[1]].Shape) {
						feed[loop[1]] = v
						for k, v := range feed {
							in[k] = mon.ToTensor(v)
						}
						in[loop[1]] = t
						fed = true
					}
				}
			}
			if !fed && prevFeed != nil {
				for oname, t := range prevOut {
					if t == nil {
						continue
					}
					v, err := mon.FromTensor(t)
					if err != nil {
						continue
					}
					for iname, old := range feed {
						if !fed && old.DT == v.DT && ref.ShapeEq(old.Shape, v.Shape) {
							feed[iname] = v
							for k, fv := range feed {
								in[k] = mon.ToTensor(fv)
							}
							in[iname] = t
							fed = true
							_ = oname
						}
					}
				}
			}
			if !fed {
				action = "fresh"
			}
		case action == "batch" && spec.BatchAxis != nil:
			feed = spec.Feed(r, r.Range(1, 6))
		case action == "fail-validation":
			names := make([]string, 0, len(feed))
			for k := range feed {
				names = append(names, k)
			}
			sort.Strings(names)
			if len(names) > 0 {
				victim := names[r.Intn(len(names))]
				switch v := feed[victim]; {
				case r.Bool():
					delete(feed, victim)
				case r.Bool() && v.Rank() > 1: // one rank less: the leading (often symbolic) axis dropped
					feed[victim] = r.Tensor(v.DT, v.Shape[1:], gen.FillSmall, 2)
				default:
					feed[victim] = r.Tensor(v.DT, append([]int{1}, v.Shape...), gen.FillSmall, 2)
				}
				expectFail = true
			}
		case action == "fail-node":
			inject = true
		case action == "misshapen":
			// one caller tensor of another shape: with symbolic dimensions this passes the
			// signature check and fails (or not) inside a node; the fresh model decides
			// (float data only: integer inputs are shape / index parameters, whose values
			// would ask for arbitrarily large results)
			names := make([]string, 0, len(feed))
			for k, v := range feed {
				if v.DT.IsFloat() {
					names = append(names, k)
				}
			}
			sort.Strings(names)
			if len(names) > 0 {
				victim := names[r.Intn(len(names))]
				if v := feed[victim]; v.Rank() > 1 && r.Chance(0.3) { // one sample without its batch axis
					feed[victim] = r.Tensor(v.DT, v.Shape[1:], gen.FillSmall, 2)
				} else {
					feed[victim] = variantOf(r, feed[victim], r.Bool())
				}
			}
		default:
			action = "fresh"
		}
		if len(in) == 0 {
			for k, v := range feed {
				in[k] = mon.ToTensor(v)
			}
		}
		actions = append(actions, action)
		if action != "fresh" && succeeded {
			interesting = true
		}
		for k, t := range in {
			known := false
			for _, ct := range all {
				if ct.t == t {
					known = true
				}
			}
			if !known {
				all = append(all, callerTensor{name: k, t: t, fp: mon.Fp(t), step: step})
			}
		}
		// this call, on the long-lived model
		proxied := inject || r.Chance(0.4)
		if proxied {
			px = mon.Attach(m)
			if inject {
				node := r.Intn(8)
				phase := r.PickStr("init", "validate", "apply")
				px.Inject = func(n int, _ string, ph string) error {
					if n == node && ph == phase {
						return &mon.ErrInjected{Node: n, Phase: ph}
					}
					return nil
				}
			}
		}
		if r.Chance(0.15) {
			// what the introspection methods returned belongs to the caller: it edits the lists in
			// place (a filter, display names) before the next Run
			for _, names := range [][]string{m.OutputNames(), m.InputNames(), m.ParamNames()} {
				for i := range names {
					names[i] = "edited-by-the-caller"
				}
			}
			for _, dims := range m.InputShapes() {
				for i := range dims {
					dims[i].Size, dims[i].Name = dims[i].Size+5, "edited"
				}
			}
			c.Count("runs-after-the-caller-edited-introspection-results", 1)
		}
		var out gonnx.Tensors
		handed := make(map[string]tensor.Tensor, len(in))
		for k, t := range in {
			handed[k] = t
		}
		o := mon.Capture(nil, func() ([]tensor.Tensor, error) {
			var err error
			out, err = m.Run(in)
			return nil, err
		})
		// the map is the caller's too (it may keep it, with its tensors, for the next Run): the
		// same names bound to the same objects afterwards
		if len(in) != len(handed) {
			c.Violation("history:caller-map-modified", "step %d (%s): the caller's input map has %d entries after Run, %d before | model %s", step, action, len(in), len(handed), trunc(desc, 300))
			return
		}
		for k, t := range handed {
			if in[k] != t {
				c.Violation("history:caller-map-modified", "step %d (%s): entry %q of the caller's input map holds another object after Run | model %s", step, action, k, trunc(desc, 300))
				return
			}
		}
		var events []mon.Event
		if proxied {
			events = px.Events()
			px.Detach(m)
		}
		c.Eval(1)
		if o.Kind == mon.Panic {
			// the freshly loaded model is the reference here too: a request that makes a fresh
			// model panic as well (e.g. a fed-back int64 result used as a ConstantOfShape shape
			// asking for 2^63 elements) is not a dependence on history; the history ends there
			fo := mon.Capture(nil, func() ([]tensor.Tensor, error) {
				fm, err := gonnx.NewModelFromBytes(spec.Bytes)
				if err != nil {
					return nil, err
				}
				fin := gonnx.Tensors{}
				for k, v := range feed {
					fin[k] = mon.ToTensor(v)
				}
				_, err = fm.Run(fin)
				return nil, err
			})
			c.Eval(1)
			if fo.Kind == mon.Panic {
				c.Count("runs-that-panic-on-a-fresh-model-as-well(history ended)", 1)
				c.SetCase("model %s | history %s (ended by a Run that panics on a fresh model too)", trunc(desc, 600), strings.Join(actions, ","))
				return
			}
			c.Violation("history:panic", "step %d (%s): %s | a freshly loaded model gives %s | history %s", step, action, o.Describe(), trunc(fo.Describe(), 200), strings.Join(actions, ","))
			return
		}
		// the reference: a freshly loaded model with deep copies
		var refOut gonnx.Tensors
		fo := mon.Capture(nil, func() ([]tensor.Tensor, error) {
			fm, err := gonnx.NewModelFromBytes(spec.Bytes)
			if err != nil {
				return nil, err
			}
			fin := gonnx.Tensors{}
			for k, v := range feed {
				fin[k] = mon.ToTensor(v)
			}
			refOut, err = fm.Run(fin)
			return nil, err
		})
		c.Eval(1)
		hist := strings.Join(actions, ",")
		injectedHit := false
		for _, e := range events {
			if e.Injected {
				injectedHit = true
			}
		}
		switch {
		case inject && injectedHit:
			if o.Kind != mon.Error {
				c.Violation("history:injected-error-swallowed", "step %d: Run succeeded although a node failed | history %s", step, hist)
			}
		case fo.Kind == mon.Panic:
			c.Violation("history:panic", "fresh model, step %d (%s): %s", step, action, fo.Describe())
		case (o.Kind == mon.Error) != (fo.Kind == mon.Error):
			c.Violation("history:outcome-depends-on-history", "step %d (%s): the long-lived model gives %s, a fresh model gives %s | history %s | model %s", step, action, trunc(o.Describe(), 200), trunc(fo.Describe(), 200), hist, trunc(desc, 300))
		case o.Kind == mon.Value:
			// (a mutated input set may still be acceptable, e.g. when the victim is a defaulted
			// input: acceptance itself is C13's subject; here the fresh model is the reference)
			if d := diffResults(out, refOut); d != "" {
				c.Violation("history:result-depends-on-history", "step %d (%s): %s | history %s | model %s", step, action, d, hist, trunc(desc, 300))
			}
			succeeded = true
		}
		// nothing the caller ever passed may have changed; no weight may have changed
		for _, ct := range all {
			if same, what := ct.fp.Equal(mon.Fp(ct.t)); !same {
				c.Violation("history:caller-tensor-modified", "tensor %q passed at step %d changed during step %d (%s): %s%s | history %s | model %s", ct.name, ct.step, step, action, what, blame(events), hist, trunc(desc, 300))
				return
			}
		}
		for name, t := range m.VerifParameters() {
			if same, what := weights[name].Equal(mon.Fp(t)); !same {
				c.Violation("history:weight-modified", "weight %q changed during step %d (%s): %s%s | history %s | model %s", name, step, action, what, blame(events), hist, trunc(desc, 300))
				return
			}
		}
		if !spec.Heavy || step == steps-1 {
			if fp := mon.ProtoFingerprint(m); fp != protoFp {
				c.Violation("history:model-proto-modified", "the numeric payloads of the decoded model (initializer messages, attribute tensors and float lists) changed during step %d (%s)%s | history %s | model %s", step, action, blame(events), hist, trunc(desc, 300))
				return
			}
		}
		if len(m.VerifParameters()) != len(weights) {
			c.Violation("history:weight-set-changed", "the model has %d weights after step %d, %d after loading", len(m.VerifParameters()), step, len(weights))
		}
		for _, t := range out {
			returned[t] = true
		}
		if o.Kind == mon.Value && !expectFail {
			prevIn, prevOut, prevFeed = in, out, feed
		}
	}
	c.SetCase("model %s | history %s", trunc(desc, 600), strings.Join(actions, ","))
	if interesting {
		c.Nontrivial(desc + "|" + strings.Join(actions, ","))
	}
	c.Count("runs", int64(len(actions)))
	c.Count("caller-tensors-fingerprinted", int64(len(all)))
	c.Count("weights-fingerprinted", int64(len(weights)))
	for _, a := range actions {
		c.Count("action:"+a, 1)
	}
	if c.Idx%250 == 43 {
		c.Sample(map[string]any{"model": trunc(desc, 300), "history": actions, "weights": len(weights), "caller_tensors": len(all)})
	}
}

// blame names the nodes that modified one of their inputs (when the call was proxied).
func blame(events []mon.Event) string {
	var who []string
	for _, e := range events {
		if e.Phase != "apply" {
			continue
		}
		for i := range e.InBefore {
			if i < len(e.InAfter) {
				if same, what := e.InBefore[i].Equal(e.InAfter[i]); !same {
					who = append(who, fmt.Sprintf("node %d (%s) input %d: %s", e.Node, e.OpType, i, what))
				}
			}
		}
	}
	if len(who) == 0 {
		return ""
	}
	return " [modified by " + strings.Join(who, "; ") + "]"
}

// diffResults compares two result maps bit for bit.
func diffResults(a, b gonnx.Tensors) string {
	if len(a) != len(b) {
		return fmt.Sprintf("%d outputs vs %d", len(a), len(b))
	}
	for name, ta := range a {
		tb, ok := b[name]
		if !ok {
			return fmt.Sprintf("output %q missing", name)
		}
		if (ta == nil) != (tb == nil) {
			return fmt.Sprintf("output %q nil-ness differs", name)
		}
		if ta == nil {
			continue
		}
		va, ea := mon.FromTensor(ta)
		vb, eb := mon.FromTensor(tb)
		if ea != nil || eb != nil {
			return fmt.Sprintf("output %q unreadable: %v / %v", name, ea, eb)
		}
		if va.DT != vb.DT || !ref.ShapeEq(va.Shape, vb.Shape) {
			return fmt.Sprintf("output %q: %v%v vs %v%v", name, va.DT, va.Shape, vb.DT, vb.Shape)
		}
		for i := range va.Bits {
			if va.Bits[i] != vb.Bits[i] {
				return fmt.Sprintf("output %q element %d: %s vs %s", name, i, elemStr(va, i), elemStr(vb, i))
			}
		}
	}
	return ""
}
