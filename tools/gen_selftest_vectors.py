#!/usr/bin/env python3
"""Generates harness/props/selftest_vectors.json: cases computed with numpy,
independently of the Go reference model (harness/ref). The formulas for the
recurrent operators follow the ONNX backend-test helpers (onnx/backend/test/
case/node/{rnn,gru,lstm}.py). Run with python3-vt (numpy). The file is
committed; the Go self-test compares the reference model against it before
every check."""
import json, numpy as np
rng = np.random.RandomState(12345)
cases = []

def T(a, dt="float32"):
    a = np.asarray(a)
    return {"dtype": dt, "shape": list(a.shape), "data": [float(v) for v in a.astype(np.float64).ravel()]}

def add(op, inputs, attrs, outputs):
    cases.append({"op": op, "inputs": inputs, "attrs": attrs, "outputs": outputs})

# ---- hand-typed ONNX documentation examples
x = np.arange(25, dtype=np.float32).reshape(1, 1, 5, 5); w = np.ones((1, 1, 3, 3), np.float32)
add("Conv", [T(x), T(w)], {"pads": [1, 1, 1, 1]}, [T(np.array([[[[12, 21, 27, 33, 24], [33, 54, 63, 72, 51], [63, 99, 108, 117, 81], [93, 144, 153, 162, 111], [72, 111, 117, 123, 84]]]], np.float32))])
add("Conv", [T(x), T(w)], {}, [T(np.array([[[[54, 63, 72], [99, 108, 117], [144, 153, 162]]]], np.float32))])
x75 = np.arange(35, dtype=np.float32).reshape(1, 1, 7, 5)
add("Conv", [T(x75), T(w)], {"pads": [1, 1, 1, 1], "strides": [2, 2]}, [T(np.array([[[[12, 27, 24], [63, 108, 81], [123, 198, 141], [112, 177, 124]]]], np.float32))])
add("Conv", [T(x75), T(w)], {"pads": [1, 0, 1, 0], "strides": [2, 2]}, [T(np.array([[[[21, 33], [99, 117], [189, 207], [171, 183]]]], np.float32))])
add("Conv", [T(x), T(np.ones((1, 1, 3, 3), np.float32))], {"auto_pad": "SAME_LOWER", "strides": [2, 2]}, [T(np.array([[[[12, 27, 24], [63, 108, 81], [72, 117, 84]]]], np.float32))])
add("Softmax", [T(np.array([[-1, 0, 1]], np.float32))], {"axis": 1}, [T(np.array([[0.09003058, 0.24472848, 0.66524094]], np.float32))])
add("Gather", [T(np.array([[1.0, 1.2], [2.3, 3.4], [4.5, 5.7]], np.float32)), T(np.array([[0, 1], [1, 2]]), "int64")], {"axis": 0}, [T(np.array([[[1.0, 1.2], [2.3, 3.4]], [[2.3, 3.4], [4.5, 5.7]]], np.float32))])
add("Gather", [T(np.array([[1.0, 1.2, 1.9], [2.3, 3.4, 3.9], [4.5, 5.7, 5.9]], np.float32)), T(np.array([[0, 2]]), "int64")], {"axis": 1}, [T(np.array([[[1.0, 1.9]], [[2.3, 3.9]], [[4.5, 5.9]]], np.float32))])
add("ArgMax", [T(np.array([[2, 1], [3, 10]], np.float32))], {"axis": 1, "keepdims": 1}, [T(np.array([[0], [1]]), "int64")])
add("MatMul", [T(np.array([[1, 2], [3, 4]], np.float32)), T(np.array([[5, 6], [7, 8]], np.float32))], {}, [T(np.array([[19, 22], [43, 50]], np.float32))])
add("Slice", [T(np.array([[1, 2, 3, 4], [5, 6, 7, 8]], np.float32)), T([1, 0], "int64"), T([2, 3], "int64"), T([0, 1], "int64"), T([1, 2], "int64")], {}, [T(np.array([[5, 7]], np.float32))])
add("Slice", [T(np.array([[1, 2, 3, 4], [5, 6, 7, 8]], np.float32)), T([0, 1], "int64"), T([-1, 1000], "int64")], {}, [T(np.array([[2, 3, 4]], np.float32))])
add("Reshape", [T(np.arange(24, dtype=np.float32).reshape(2, 3, 4)), T([2, 0, -1], "int64")], {}, [T(np.arange(24, dtype=np.float32).reshape(2, 3, 4))])
add("Reshape", [T(np.arange(24, dtype=np.float32).reshape(2, 3, 4)), T([-1, 2, 3, 4], "int64")], {}, [T(np.arange(24, dtype=np.float32).reshape(1, 2, 3, 4))])

# ---- numpy-computed random cases
for _ in range(6):
    a = rng.randn(*rng.randint(1, 4, size=rng.randint(2, 5))).astype(np.float32)
    k = a.shape[-1]
    bshape = list(a.shape[:-2][-rng.randint(0, len(a.shape) - 1):]) if len(a.shape) > 2 and rng.rand() < 0.5 else list(a.shape[:-2])
    b = rng.randn(*(bshape + [k, rng.randint(1, 4)])).astype(np.float32)
    add("MatMul", [T(a), T(b)], {}, [T(np.matmul(a.astype(np.float64), b.astype(np.float64)))])
a = rng.randn(4).astype(np.float32); b = rng.randn(2, 4, 3).astype(np.float32)
add("MatMul", [T(a), T(b)], {}, [T(np.matmul(a.astype(np.float64), b.astype(np.float64)))])
a = rng.randn(2, 3, 4).astype(np.float32); b = rng.randn(4).astype(np.float32)
add("MatMul", [T(a), T(b)], {}, [T(np.matmul(a.astype(np.float64), b.astype(np.float64)))])
a = rng.randn(4).astype(np.float32); b = rng.randn(4).astype(np.float32)
add("MatMul", [T(a), T(b)], {}, [T(np.matmul(a.astype(np.float64), b.astype(np.float64)))])
for ta in (0, 1):
    for tb in (0, 1):
        m, k, n = rng.randint(1, 5, size=3)
        a = rng.randn(*((k, m) if ta else (m, k))).astype(np.float32)
        b = rng.randn(*((n, k) if tb else (k, n))).astype(np.float32)
        c = rng.randn(*[(n,), (1, n), (m, 1), (m, n)][rng.randint(4)]).astype(np.float32)
        al, be = 0.5, -1.5
        y = al * ((a.T if ta else a).astype(np.float64) @ (b.T if tb else b).astype(np.float64)) + be * c
        add("Gemm", [T(a), T(b), T(c)], {"alpha": al, "beta": be, "transA": ta, "transB": tb}, [T(y)])

def conv_ref(x, w, b, pads, strides, dil):
    n = x.ndim - 2
    N, C, M = x.shape[0], x.shape[1], w.shape[0]
    xp = np.pad(x.astype(np.float64), [(0, 0), (0, 0)] + [(pads[i], pads[i + n]) for i in range(n)])
    keff = [(w.shape[2 + i] - 1) * dil[i] + 1 for i in range(n)]
    out = [(xp.shape[2 + i] - keff[i]) // strides[i] + 1 for i in range(n)]
    y = np.zeros([N, M] + out)
    for idx in np.ndindex(*out):
        sl = tuple(slice(idx[i] * strides[i], idx[i] * strides[i] + keff[i], dil[i]) for i in range(n))
        patch = xp[(slice(None), slice(None)) + sl]
        y[(slice(None), slice(None)) + idx] = np.tensordot(patch, w.astype(np.float64), axes=(list(range(1, n + 2)), list(range(1, n + 2))))
    if b is not None:
        y += b.astype(np.float64).reshape([1, M] + [1] * n)
    return y
for _ in range(8):
    n = rng.randint(1, 3)
    N, C, M = rng.randint(1, 4, size=3)
    sp = list(rng.randint(3, 8, size=n)); ks = list(rng.randint(1, 4, size=n))
    strides = [int(v) for v in rng.randint(1, 3, size=n)]; dil = [int(v) for v in rng.randint(1, 3, size=n)]
    pads = [int(v) for v in rng.randint(0, 3, size=2 * n)]
    if any(sp[i] + pads[i] + pads[i + n] < (ks[i] - 1) * dil[i] + 1 for i in range(n)):
        continue
    x = rng.randn(N, C, *sp).astype(np.float32); w = rng.randn(M, C, *ks).astype(np.float32)
    b = rng.randn(M).astype(np.float32) if rng.rand() < 0.5 else None
    ins = [T(x), T(w)] + ([T(b)] if b is not None else [])
    add("Conv", ins, {"pads": pads, "strides": strides, "dilations": dil}, [T(conv_ref(x, w, b, pads, strides, dil))])

def sigmoid(v): return 1 / (1 + np.exp(-v))
def rnn_ref(X, W, R, B, H0):
    H = W.shape[1]
    h = H0[0] if H0 is not None else np.zeros((X.shape[1], H))
    wb, rb = (B[0][:H], B[0][H:]) if B is not None else (0, 0)
    ys = []
    for x in X:
        h = np.tanh(x @ W[0].T + h @ R[0].T + wb + rb); ys.append(h)
    return np.stack(ys)[:, None], h[None]
def gru_ref(X, W, R, B, H0, lbr):
    H = R.shape[2]
    h = H0[0] if H0 is not None else np.zeros((X.shape[1], H))
    wz, wr, wh = np.split(W[0], 3); rz, rr, rh = np.split(R[0], 3)
    b = B[0] if B is not None else np.zeros(6 * H)
    wbz, wbr, wbh, rbz, rbr, rbh = np.split(b, 6)
    ys = []
    for x in X:
        z = sigmoid(x @ wz.T + h @ rz.T + wbz + rbz)
        r = sigmoid(x @ wr.T + h @ rr.T + wbr + rbr)
        if lbr:
            hh = np.tanh(x @ wh.T + r * (h @ rh.T + rbh) + wbh)
        else:
            hh = np.tanh(x @ wh.T + (r * h) @ rh.T + rbh + wbh)
        h = (1 - z) * hh + z * h; ys.append(h)
    return np.stack(ys)[:, None], h[None]
def lstm_ref(X, W, R, B, H0, C0, P):
    H = R.shape[2]
    h = H0[0] if H0 is not None else np.zeros((X.shape[1], H))
    c = C0[0] if C0 is not None else np.zeros((X.shape[1], H))
    wi, wo, wf, wc = np.split(W[0], 4); ri, ro, rf, rc = np.split(R[0], 4)
    b = B[0] if B is not None else np.zeros(8 * H)
    wbi, wbo, wbf, wbc, rbi, rbo, rbf, rbc = np.split(b, 8)
    pi, po, pf = np.split(P[0], 3) if P is not None else (0, 0, 0)
    ys = []
    for x in X:
        i = sigmoid(x @ wi.T + h @ ri.T + pi * c + wbi + rbi)
        f = sigmoid(x @ wf.T + h @ rf.T + pf * c + wbf + rbf)
        g = np.tanh(x @ wc.T + h @ rc.T + wbc + rbc)
        c = f * c + i * g
        o = sigmoid(x @ wo.T + h @ ro.T + po * c + wbo + rbo)
        h = o * np.tanh(c); ys.append(h)
    return np.stack(ys)[:, None], h[None], c[None]
for k in range(6):
    S, Bn, I, H = rng.randint(1, 5, size=4)
    f64 = lambda *s: rng.uniform(-0.5, 0.5, size=s)
    X = rng.uniform(-2, 2, size=(S, Bn, I))
    opt = lambda t: t if rng.rand() < 0.6 else None
    W, R, B, H0 = f64(1, H, I), f64(1, H, H), opt(f64(1, 2 * H)), opt(f64(1, Bn, H))
    Y, Yh = rnn_ref(X, W, R, B, H0)
    add("RNN", [T(X), T(W), T(R), T(B) if B is not None else None, None, T(H0) if H0 is not None else None], {"hidden_size": int(H)}, [T(Y), T(Yh)])
    W, R, B, H0 = f64(1, 3 * H, I), f64(1, 3 * H, H), opt(f64(1, 6 * H)), opt(f64(1, Bn, H))
    lbr = int(k % 2)
    Y, Yh = gru_ref(X, W, R, B, H0, lbr)
    add("GRU", [T(X), T(W), T(R), T(B) if B is not None else None, None, T(H0) if H0 is not None else None], {"hidden_size": int(H), "linear_before_reset": lbr}, [T(Y), T(Yh)])
    W, R, B, H0, C0, P = f64(1, 4 * H, I), f64(1, 4 * H, H), opt(f64(1, 8 * H)), opt(f64(1, Bn, H)), opt(f64(1, Bn, H)), opt(f64(1, 3 * H))
    Y, Yh, Yc = lstm_ref(X, W, R, B, H0, C0, P)
    add("LSTM", [T(X), T(W), T(R), T(B) if B is not None else None, None, T(H0) if H0 is not None else None, T(C0) if C0 is not None else None, T(P) if P is not None else None], {"hidden_size": int(H)}, [T(Y), T(Yh), T(Yc)])

for _ in range(6):
    x = rng.randn(*rng.randint(1, 5, size=rng.randint(1, 5))).astype(np.float32)
    ax = int(rng.randint(-x.ndim, x.ndim))
    e = np.exp(x.astype(np.float64) - x.max(axis=ax, keepdims=True)); sm = e / e.sum(axis=ax, keepdims=True)
    add("Softmax", [T(x)], {"axis": ax}, [T(sm)])
    add("LogSoftmax", [T(x)], {"axis": ax}, [T(np.log(sm))])
    add("ArgMax", [T(x)], {"axis": ax, "keepdims": 0}, [T(np.argmax(x, axis=ax), "int64")])
    axes = sorted(set(int(v) for v in rng.randint(0, x.ndim, size=rng.randint(1, x.ndim + 1))))
    add("ReduceMax", [T(x)], {"axes": axes, "keepdims": 1}, [T(x.max(axis=tuple(axes), keepdims=True))])
    add("ReduceMin", [T(x)], {"axes": axes, "keepdims": 0}, [T(x.min(axis=tuple(axes), keepdims=False))])
    perm = [int(v) for v in rng.permutation(x.ndim)]
    add("Transpose", [T(x)], {"perm": perm}, [T(np.transpose(x, perm))])
for _ in range(10):
    x = rng.randn(*rng.randint(2, 6, size=rng.randint(1, 4))).astype(np.float32)
    starts, ends, axes, steps, sl = [], [], [], [], [slice(None)] * x.ndim
    for a in rng.permutation(x.ndim)[:rng.randint(1, x.ndim + 1)]:
        d = x.shape[a]
        s, e, st = int(rng.randint(-d - 2, d + 3)), int(rng.randint(-d - 2, d + 3)), int(rng.choice([1, 2, 3, -1, -2]))
        starts.append(s); ends.append(e); axes.append(int(a)); steps.append(st); sl[a] = slice(s, e, st)
    y = x[tuple(sl)]
    if y.size == 0:
        continue
    add("Slice", [T(x), T(starts, "int64"), T(ends, "int64"), T(axes, "int64"), T(steps, "int64")], {}, [T(y)])
for _ in range(6):
    x = np.asarray(rng.randn(*rng.randint(1, 4, size=rng.randint(0, 4)))).astype(np.float32)
    tgt = [int(v) for v in rng.randint(1, 4, size=rng.randint(1, 5))]
    try:
        y = x * np.ones(tgt, np.float32)
    except ValueError:
        continue
    add("Expand", [T(x), T(tgt, "int64")], {}, [T(y)])
    ts = [rng.randn(*x.shape).astype(np.float32) for _ in range(rng.randint(1, 4))] if x.ndim else None
    if ts:
        ax = int(rng.randint(-x.ndim, x.ndim))
        add("Concat", [T(t) for t in ts], {"axis": ax}, [T(np.concatenate(ts, axis=ax))])
json.dump({"cases": cases}, open("/verif/harness/props/selftest_vectors.json", "w"))
print(len(cases), "cases")
