package props

import (
	"fmt"
	"math"

	"verif/harness/gen"
	"verif/harness/mon"
	"verif/harness/ref"
)

// C10 — unary math and activation operators.

var c10Accepted = map[string][]ref.DType{
	"Abs":   gen.NumericDTs,
	"Relu":  {ref.F32, ref.F64},
	"PRelu": {ref.F32, ref.F64, ref.I32, ref.I64, ref.U32, ref.U64},
	"Not":   {ref.Bool},
}

func c10DTs(op string) []ref.DType {
	if d, ok := c10Accepted[op]; ok {
		return d
	}
	return []ref.DType{ref.F32, ref.F64}
}

func init() {
	Register(&Property{
		ID:    "C10",
		Title: "Unary math and activation operators apply the named function per element",
		Cases: func(tier string) int {
			switch tier {
			case "thorough":
				return 8000000
			case "race":
				return 50000
			}
			return 2400000
		},
		Run:            c10Run,
		Floor:          func(tier string) int { return 5000 },
		Rule:           "17 operators x shapes of rank 0..4 x every element type the operator accepts x values drawn from the IEEE special pool (+-0, subnormals, +-Inf, NaNs, domain edges +-1, arguments that overflow exp, huge trig arguments) mixed with uniform and log-uniform values; PRelu slopes of every unidirectionally broadcastable shape plus invalid slope shapes; operator API plus every 4th case through Run. Float results within 8 ulp + smallest normal of the float64 reference rounded to the element type, special values by class (NaN / +-Inf / finite); integer results exact; shape and element type preserved. Non-trivial = the tensor contains a special value (or, for PRelu, a negative element with a stretched slope); distinct = (operator, dtype, shape, value-class hash)." + ruleShared + ruleReused,
		RaceInThorough: true,
		Technique:      "runtime monitoring: differential execution against Go's float64 math rounded once, with a sound ulp tolerance and class-exact special values",
		Assumptions:    []string{"Go's math package is within 1 ulp in float64", "tolerance 8 ulp + smallest normal of the element type (sigmoid is three float32 operations; subnormal results may flush)"},
	})
	for _, op := range ref.UnaryOps {
		op := op
		validGens[op] = func(r *gen.R, _ bool) (mon.OpReq, Expect, bool) { return genUnary(r, op, true) }
	}
}

func genUnary(r *gen.R, op string, validOnly bool) (mon.OpReq, Expect, bool) {
	dts := c10DTs(op)
	dt := dts[r.Intn(len(dts))]
	shape := r.Shape(0, 4, 5, 80)
	if r.Chance(0.0005) { // a large operand: code paths that switch on the element count
		shape = r.PickShape([]int{1, 4, 16, 17}, []int{3, 7, 64}, []int{1025}, []int{70003}, []int{257, 257})
	}
	mode := r.PickInt(gen.FillMixed, gen.FillMixed, gen.FillSpecial, gen.FillSmall)
	if validOnly {
		mode = gen.FillSmall
	}
	scale := []float64{1.5, 4, 20, 100, 1000}[r.Intn(5)]
	x := r.Tensor(dt, shape, mode, scale)
	if dt.IsFloat() && !validOnly && r.Chance(0.2) { // domain edges and overflow thresholds
		edges := []float64{1, -1, 0.99999994, 1.0000001, 88.72, 88.73, -87.3, -103.9, 709.78, 709.79, -745.2, 1e10, -1e10, 1e38, 3.4e38, 1e300, math.Pi / 2, math.Pi, 0.5}
		for i := range x.Bits {
			if r.Chance(0.5) {
				x.Bits[i] = ref.EncF(dt, edges[r.Intn(len(edges))])
			}
		}
	}
	if dt.IsFloat() && !validOnly && r.Chance(0.04) { // zeros of both signs side by side (every element is mapped on its own)
		for i := range x.Bits {
			if r.Chance(0.85) {
				x.Bits[i] = ref.EncF(dt, r.PickFloat(0, math.Copysign(0, -1)))
			}
		}
	}
	if op == "PRelu" {
		var ss []int
		valid := validOnly || r.Chance(0.85)
		if valid {
			rank := r.Range(0, len(shape))
			ss = make([]int, rank)
			for i := range ss {
				ss[i] = shape[len(shape)-rank+i]
				if r.Chance(0.4) {
					ss[i] = 1
				}
			}
		} else {
			ss = r.Shape(0, 5, 5, 80)
		}
		slope := r.Tensor(dt, ss, mode, 5)
		want, err := ref.PRelu(x, slope)
		req := mon.OpReq{Op: op, Inputs: []*ref.T{x, slope}}
		if err != nil {
			return req, Expect{Kind: MustError, Why: err.Error()}, true
		}
		return req, Expect{Kind: MustEqual, Want: []*ref.Approx{want}, Mode: CmpIEEE, Why: "valid request"}, true
	}
	want, err := ref.Unary(op, x)
	req := mon.OpReq{Op: op, Inputs: []*ref.T{x}}
	if err != nil {
		return req, Expect{Kind: MustError, Why: err.Error()}, true
	}
	return req, Expect{Kind: MustEqual, Want: []*ref.Approx{want}, Mode: CmpTol, Why: "valid request"}, true
}

func hasSpecial(t *ref.T) bool {
	if !t.DT.IsFloat() {
		return false
	}
	for i := range t.Bits {
		v := t.F(i)
		if v != v || math.IsInf(v, 0) || v == 0 || math.Abs(v) < 1e-37 || math.Abs(v) >= 88 || math.Abs(v) == 1 {
			return true
		}
	}
	return false
}

func c10Run(c *Ctx) {
	if c.Idx%16 == 9 {
		c10Shared(c)
		return
	}
	op := ref.UnaryOps[c.R.Intn(len(ref.UnaryOps))]
	req, exp, _ := genUnary(c.R, op, false)
	c.SetCase("%s", req.Describe())
	x := req.Inputs[0]
	if hasSpecial(x) || exp.Kind == MustError || (op == "PRelu" && !ref.ShapeEq(req.Inputs[1].Shape, x.Shape)) || !x.DT.IsFloat() {
		c.Nontrivial(fmt.Sprintf("%s|%v|%v|%x", op, x.DT, x.Shape, mon.HashBits(x.Bits)))
	}
	c.Distinct("operator-dtype", op+"/"+x.DT.String())
	mo := mon.ModelOpts{InitMask: uint64(c.R.Intn(4)), RawInits: c.R.Bool()}
	ok := CheckOp(c, req, exp, c.Idx%4 == 0, mo, c10Known)
	// the odd functions map a zero to the zero of the same sign (IEEE 754 / C99 for sin, tan,
	// asin, atan, sinh, tanh, asinh, atanh): the tolerance comparison does not look at that sign
	if ok && oddAtZero[op] && x.DT.IsFloat() && exp.Kind == MustEqual {
		hasZero := false
		for i := range x.Bits {
			if x.F(i) == 0 {
				hasZero = true
			}
		}
		if hasZero {
			if o, _ := mon.RunOpAPI(req); o.Kind == mon.Value && len(o.Vals) == 1 && o.Vals[0] != nil && len(o.Vals[0].Bits) == len(x.Bits) {
				c.Eval(1)
				for i := range x.Bits {
					if x.F(i) == 0 && o.Vals[0].F(i) == 0 && math.Signbit(x.F(i)) != math.Signbit(o.Vals[0].F(i)) {
						c.Violation(op+":wrong-value", "element %d: %s(%v) = %v: the zero of the other sign | request: %s", i, op, x.F(i), o.Vals[0].F(i), trunc(req.Describe(), 400))
						break
					}
				}
			}
		}
	}
	if c.Idx%9000 == 11 {
		s := map[string]any{"request": trunc(req.Describe(), 300), "expectation": exp.Kind.String()}
		if len(exp.Want) > 0 && exp.Want[0] != nil {
			s["expected"] = trunc(exp.Want[0].T.String(), 200)
		}
		c.Sample(s)
	}
}

var oddAtZero = map[string]bool{"Sin": true, "Tan": true, "Asin": true, "Atan": true, "Sinh": true, "Tanh": true, "Asinh": true, "Atanh": true}

func c10Known(req mon.OpReq, exp Expect, o mon.Outcome, v Verdict) string { return "" }
