package props

import (
	"fmt"
	"math"
	"strings"

	"verif/harness/gen"
	"verif/harness/mon"
	"verif/harness/ref"
)

// C06 — RNN, GRU, LSTM.

func init() {
	Register(&Property{
		ID:    "C06",
		Title: "RNN, GRU, LSTM implement the ONNX recurrences, consistently under splitting",
		Cases: func(tier string) int {
			switch tier {
			case "thorough":
				return 600000
			case "race":
				return 4000
			}
			return 50000
		},
		Run:            c06Run,
		Floor:          func(tier string) int { return 1500 },
		Rule:           "(every 8th case again at the operator API with trailing output names spelled \"\") (parameterised activations HardSigmoid / LeakyRelu / Elu in either spelling with non-default activation_alpha / activation_beta: honoured with these parameters or refused) RNN/GRU/LSTM with seq 1..10, batch 1..4, input 1..5, hidden 1..6; every subset of the optional inputs B, initial_h, initial_c, P present / skipped by \"\" / truncated; attribute combinations (activations together with linear_before_reset / input_forget), activation lists (default, gonnx spelling, ONNX spelling, other ONNX activations, unknown names, wrong count), linear_before_reset and input_forget absent/0/1; per-gate distinct biases and asymmetric weights (|w| <= 0.4). Oracles: (1) float64 ONNX recurrence (gate order iofc / zrh, Appendix A.6): output shapes, Y_h == Y[last], RNN/GRU checked step-wise from the observed Y (Y[t] vs cell(X[t], observed Y[t-1])), LSTM whole-sequence within 2e-4; (2) attribute honoured-or-refused: a value equal to the reference without the attribute (when the two differ) is the 'ignored' violation; (3) metamorphic split on the real code: run(X[:s]) then run(X[s:], state) must reproduce run(X) for a random split point. float32 MUST_EQUAL, float64 MAY_REFUSE, ONNX-invalid MUST_ERROR. Non-trivial = a reference with two gates exchanged differs from the true one by more than 10x the tolerance (so gate order and bias slots are identified); distinct = (operator, sizes, optional-input pattern, attributes)." + ruleReused + ruleChained,
		RaceInThorough: true,
		Technique:      "runtime monitoring: differential execution against a float64 reference recurrence (step-wise from the observed trace), discriminative non-triviality, and a metamorphic split relation on the real code",
		Assumptions:    []string{"ONNX recurrence equations as written in DESIGN.md Appendix A.6", "weights bounded so that rounding differences do not amplify along the sequence"},
	})
	validGens["RNN"] = func(r *gen.R, _ bool) (mon.OpReq, Expect, bool) {
		c := genRec(r, "RNN", true)
		return c.req, c.exp, c.ok
	}
	validGens["GRU"] = func(r *gen.R, _ bool) (mon.OpReq, Expect, bool) {
		c := genRec(r, "GRU", true)
		return c.req, c.exp, c.ok
	}
	validGens["LSTM"] = func(r *gen.R, _ bool) (mon.OpReq, Expect, bool) {
		c := genRec(r, "LSTM", true)
		return c.req, c.exp, c.ok
	}
}

type recCase struct {
	op                    string
	req                   mon.OpReq
	exp                   Expect
	ok                    bool
	x, w, r, b, h0, c0, p *ref.T
	at                    ref.RecAttrs
	S, B, I, H            int
	gates                 int
	discrim               bool
	pattern               string
	attrNote              string // which optional attribute is exercised
	withoutAttr           []*ref.T
}

func recGates(op string) int {
	switch op {
	case "GRU":
		return 3
	case "LSTM":
		return 4
	}
	return 1
}

func recRef(op string, x, w, r, b, h0, c0, p *ref.T, at ref.RecAttrs) ([]*ref.T, error) {
	switch op {
	case "RNN":
		return ref.RNN(x, w, r, b, h0, at)
	case "GRU":
		return ref.GRU(x, w, r, b, h0, at)
	}
	return ref.LSTM(x, w, r, b, h0, c0, p, at)
}

func uniformT(r *gen.R, dt ref.DType, shape []int, lim float64) *ref.T {
	t := ref.New(dt, shape...)
	for i := range t.Bits {
		t.Bits[i] = ref.EncF(dt, float64(float32(r.Uniform(-lim, lim))))
	}
	return t
}

// swapGates exchanges gate blocks g1 and g2 (rows of W and R, slots of both bias halves).
func swapGates(t *ref.T, gates, h, g1, g2 int, bias bool) *ref.T {
	if t == nil {
		return nil
	}
	c := t.Clone()
	if bias {
		for half := 0; half < 2; half++ {
			for j := 0; j < h; j++ {
				a, b := half*gates*h+g1*h+j, half*gates*h+g2*h+j
				c.Bits[a], c.Bits[b] = c.Bits[b], c.Bits[a]
			}
		}
		return c
	}
	cols := t.Shape[2]
	for j := 0; j < h; j++ {
		for k := 0; k < cols; k++ {
			a, b := (g1*h+j)*cols+k, (g2*h+j)*cols+k
			c.Bits[a], c.Bits[b] = c.Bits[b], c.Bits[a]
		}
	}
	return c
}

func genRec(r *gen.R, op string, validOnly bool) recCase {
	c := recCase{op: op, gates: recGates(op)}
	dt := ref.F32
	if !validOnly && r.Chance(0.08) {
		dt = ref.F64
	}
	c.S, c.B, c.I, c.H = r.Range(1, 10), r.Range(1, 4), r.Range(1, 5), r.Range(1, 6)
	if r.Chance(0.08) { // two-digit batch / hidden sizes
		c.S, c.B, c.H = r.Range(1, 3), r.Range(1, 12), r.Range(1, 16)
	}
	if r.Chance(0.5) {
		c.S = r.Range(1, 4)
	}
	G := c.gates
	c.x = uniformT(r, dt, []int{c.S, c.B, c.I}, 2)
	c.w = uniformT(r, dt, []int{1, G * c.H, c.I}, 0.4)
	c.r = uniformT(r, dt, []int{1, G * c.H, c.H}, 0.4)
	// presence pattern of the optional inputs: 0 truncated/absent, 1 skipped by "", 2 present
	nOpt := 3 // B, sequence_lens, initial_h
	if op == "LSTM" {
		nOpt = 5 // + initial_c, P
	}
	present := make([]bool, nOpt)
	for i := range present {
		present[i] = r.Chance(0.6)
	}
	present[1] = false // sequence_lens: not part of the property
	if present[0] {
		c.b = uniformT(r, dt, []int{1, 2 * G * c.H}, 0.5)
	}
	if present[2] {
		c.h0 = uniformT(r, dt, []int{1, c.B, c.H}, 1)
	}
	if op == "LSTM" {
		if present[3] {
			c.c0 = uniformT(r, dt, []int{1, c.B, c.H}, 1)
		}
		if present[4] {
			c.p = uniformT(r, dt, []int{1, 3 * c.H}, 0.5)
		}
	}
	if op == "LSTM" && c.h0 != nil && c.c0 != nil && r.Chance(0.15) {
		c.c0 = c.h0 // the caller passes ONE tensor object as both initial states
	}
	opt := []*ref.T{c.b, nil, c.h0}
	if op == "LSTM" {
		opt = append(opt, c.c0, c.p)
	}
	last := -1
	for i, t := range opt {
		if t != nil {
			last = i
		}
	}
	keep := last + 1
	if r.Chance(0.4) { // explicitly skipped trailing inputs
		keep = r.Range(last+1, nOpt)
	}
	c.req = mon.OpReq{Op: op, Inputs: append([]*ref.T{c.x, c.w, c.r}, opt[:keep]...), NOutputs: 2}
	c.pattern = fmt.Sprintf("%v/%d", present, keep)
	if op == "LSTM" {
		c.req.NOutputs = 3
		c.req.OutNames = [][]string{{"Y", "Y_h", "Y_c"}, {"a", "b", "c"}, {"Y_c", "Y", "Y_h"}, {"out", "hidden", "cell"}}[r.Intn(4)]
	}
	c.at = ref.RecAttrs{Hidden: c.H}
	c.req.Attrs = []*mon.Attr{mon.AttrI("hidden_size", int64(c.H))}
	if r.Chance(0.2) {
		c.req.Attrs = append(c.req.Attrs, mon.AttrS("direction", "forward"))
	}
	// attributes under test
	attrKind := r.Intn(8)
	if validOnly {
		attrKind = r.Intn(3)
	}
	mustErr := ""
	mayRefuse := ""
	nAct := map[string]int{"RNN": 1, "GRU": 2, "LSTM": 3}[op]
	switch attrKind {
	case 0, 1: // defaults
	case 2: // gonnx spelling, possibly a non-default combination
		pool := []string{"sigmoid", "tanh", "relu"}
		acts := make([]string, nAct)
		for i := range acts {
			acts[i] = pool[r.Intn(3)]
		}
		if validOnly { // keep the recurrence bounded: any combination of the two bounded functions
			for i := range acts {
				acts[i] = pool[r.Intn(2)]
			}
		}
		c.at.Activations = acts
		c.req.Attrs = append(c.req.Attrs, mon.AttrStrings("activations", acts))
		c.attrNote = "activations"
		if r.Chance(0.4) { // combined with the other behavioural attribute of the operator
			switch op {
			case "GRU":
				c.at.LinearBeforeReset = true
				c.req.Attrs = append(c.req.Attrs, mon.AttrI("linear_before_reset", 1))
			case "LSTM":
				c.at.InputForget = true
				c.req.Attrs = append(c.req.Attrs, mon.AttrI("input_forget", 1))
				mayRefuse = "input_forget=1 may be refused"
			}
		}
	case 3: // ONNX spelling / other ONNX activations: honoured or refused
		pool := []string{"Sigmoid", "Tanh", "Relu", "LeakyRelu", "HardSigmoid", "Elu", "Softsign", "Softplus"}
		acts := make([]string, nAct)
		for i := range acts {
			acts[i] = pool[r.Intn(len(pool))]
		}
		if r.Chance(0.4) {
			// a parameterised activation with non-default activation_alpha / activation_beta, in
			// either spelling: honoured with these parameters or refused (every entry is the same
			// function, so that the order in which the parameters are consumed has one reading)
			name := r.PickStr("HardSigmoid", "LeakyRelu", "Elu")
			alphas, betas := make([]float32, nAct), make([]float32, nAct)
			c.at.ActAlpha = make([]float64, nAct)
			for i := range acts {
				acts[i] = name
				if r.Bool() {
					acts[i] = strings.ToLower(name)
				}
				alphas[i] = float32(r.PickFloat(0.5, 0.05, 0.3, 0.75))
				c.at.ActAlpha[i] = float64(alphas[i])
			}
			c.req.Attrs = append(c.req.Attrs, mon.AttrFloats("activation_alpha", alphas))
			if name == "HardSigmoid" {
				c.at.ActBeta = make([]float64, nAct)
				for i := range betas {
					betas[i] = float32(r.PickFloat(0.25, 0.1, 0.6, 0.4))
					c.at.ActBeta[i] = float64(betas[i])
				}
				c.req.Attrs = append(c.req.Attrs, mon.AttrFloats("activation_beta", betas))
			}
		}
		c.at.Activations = acts
		c.req.Attrs = append(c.req.Attrs, mon.AttrStrings("activations", acts))
		mayRefuse = "activation names in ONNX spelling / parameterised activations may be refused"
		c.attrNote = "activations"
	case 4: // unknown activation or wrong count
		acts := make([]string, nAct)
		for i := range acts {
			acts[i] = "tanh"
		}
		if r.Bool() {
			acts[r.Intn(nAct)] = r.PickStr("Foo", "", "tanhh", "Gelu")
			mustErr = "unknown activation name"
		} else {
			// too few entries (extra entries are tolerated by some runtimes: not judged)
			acts = acts[:nAct-1]
			if nAct == 1 {
				acts = []string{"Foo"}
			}
			mustErr = fmt.Sprintf("%d activations for %s", len(acts), op)
		}
		c.at.Activations = acts
		c.req.Attrs = append(c.req.Attrs, mon.AttrStrings("activations", acts))
	case 5: // linear_before_reset / input_forget = 1
		switch op {
		case "GRU":
			c.at.LinearBeforeReset = true
			c.req.Attrs = append(c.req.Attrs, mon.AttrI("linear_before_reset", 1))
			c.attrNote = "linear_before_reset"
		case "LSTM":
			c.at.InputForget = true
			c.req.Attrs = append(c.req.Attrs, mon.AttrI("input_forget", 1))
			mayRefuse = "input_forget=1 may be refused"
			c.attrNote = "input_forget"
		}
		if op != "RNN" && r.Chance(0.5) { // combined with a non-default activation list
			pool := []string{"sigmoid", "tanh", "relu"}
			acts := make([]string, nAct)
			for i := range acts {
				acts[i] = pool[r.Intn(2)]
				if !validOnly && r.Chance(0.2) {
					acts[i] = "relu"
				}
			}
			c.at.Activations = acts
			c.req.Attrs = append(c.req.Attrs, mon.AttrStrings("activations", acts))
		}
	case 6: // explicit zero
		switch op {
		case "GRU":
			c.req.Attrs = append(c.req.Attrs, mon.AttrI("linear_before_reset", 0))
		case "LSTM":
			c.req.Attrs = append(c.req.Attrs, mon.AttrI("input_forget", 0))
		}
	case 7: // hidden_size omitted (inferable from R): may be refused
		c.req.Attrs = c.req.Attrs[1:]
		mayRefuse = "hidden_size omitted (inferable from R) may be refused"
	}
	want, err := recRef(op, c.x, c.w, c.r, c.b, c.h0, c.c0, c.p, c.at)
	c.ok = true
	switch {
	case mustErr != "":
		c.exp = Expect{Kind: MustError, Why: mustErr}
		return c
	case err != nil:
		c.exp = Expect{Kind: MustError, Why: err.Error()}
		return c
	}
	// unbounded activations (relu as a gate function) can make the state overflow; the order in
	// which intermediate infinities arise is not pinned by the recurrence: outside the domain
	for _, t := range want {
		for i := range t.Bits {
			if v := t.F(i); v != v || math.Abs(v) > 1e6 {
				c.ok = false
				return c
			}
		}
	}
	kind, why := MustEqual, "valid float32 request"
	if dt == ref.F64 {
		kind, why = MayRefuse, "float64 may be refused"
	}
	if mayRefuse != "" {
		kind, why = MayRefuse, mayRefuse
	}
	tol := 2e-4
	ap := make([]*ref.Approx, len(want))
	for i, t := range want {
		tl := make([]float64, len(t.Bits))
		for k := range tl {
			tl[k] = tol * (1 + math.Abs(t.F(k)))
		}
		ap[i] = &ref.Approx{T: t, Tol: tl}
	}
	c.exp = Expect{Kind: kind, Want: ap, Mode: CmpTol, Why: why}
	// the reference without the attribute under test (for the "ignored" verdict)
	if c.attrNote != "" {
		plain := c.at
		switch c.attrNote {
		case "activations":
			plain.Activations = nil
		case "linear_before_reset":
			plain.LinearBeforeReset = false
		case "input_forget":
			plain.InputForget = false
		}
		c.withoutAttr, _ = recRef(op, c.x, c.w, c.r, c.b, c.h0, c.c0, c.p, plain)
	}
	// discriminative rule: exchanging two gates must change the answer visibly
	if G > 1 {
		g1, g2 := 0, 1
		if op == "LSTM" {
			g1, g2 = r.Intn(3), 3
			if r.Bool() {
				g1, g2 = 1, 2
			}
		}
		alt, aerr := recRef(op, c.x, swapGates(c.w, G, c.H, g1, g2, false), swapGates(c.r, G, c.H, g1, g2, false), swapGates(c.b, G, c.H, g1, g2, true), c.h0, c.c0, c.p, c.at)
		if aerr == nil {
			c.discrim = maxDiff(alt[0], want[0]) > 10*tol
		}
	} else {
		c.discrim = c.S > 1 || c.h0 != nil // the recurrence term contributes
	}
	return c
}

func maxDiff(a, b *ref.T) float64 {
	m := 0.0
	for i := range a.Bits {
		if d := math.Abs(a.F(i) - b.F(i)); d > m || d != d {
			m = d
		}
	}
	return m
}

func c06Run(c *Ctx) {
	op := c.R.PickStr("RNN", "GRU", "GRU", "LSTM", "LSTM")
	rc := genRec(c.R, op, false)
	if !rc.ok {
		c.Skip("the recurrence overflows with the drawn activations")
		return
	}
	c.SetCase("%s", trunc(rc.req.Describe(), 1200))
	desc := fmt.Sprintf("%s|%d,%d,%d,%d|%s|%s", op, rc.S, rc.B, rc.I, rc.H, rc.pattern, attrsString(rc.req))
	if rc.exp.Kind == MustError || rc.discrim {
		c.Nontrivial(desc)
	}
	c.Count("class:"+op+"/"+rc.exp.Kind.String(), 1)
	c.Distinct("optional-input-pattern", op+rc.pattern)
	mo := mon.ModelOpts{InitMask: uint64(c.R.Intn(256)) &^ 1, RawInits: c.R.Bool(), Truncate: c.R.Bool()}
	ok := CheckOp(c, rc.req, rc.exp, c.Idx%4 == 0, mo, nil)
	if ok && c.Idx%8 == 1 {
		// the node spells its omitted trailing outputs as "": the operator still answers one tensor per
		// position, bound by position (the same request, one or two trailing names blanked)
		req2 := rc.req
		names := append([]string{}, rc.req.OutNames...)
		if len(names) == 0 {
			for i := 0; i < rc.req.NOutputs; i++ {
				names = append(names, fmt.Sprintf("o%d", i))
			}
		}
		for k := c.R.Range(1, len(names)-1); k > 0; k-- {
			names[len(names)-k] = ""
		}
		req2.OutNames = names
		o2, _ := mon.RunOpAPI(req2)
		c.Eval(1)
		c.Count("requests-with-trailing-outputs-spelled-empty", 1)
		if v := Judge(rc.exp, o2); !v.OK {
			ok = false
			report(c, fmt.Sprintf("api, output names %q", names), req2, rc.exp, o2, v, nil)
		}
	}
	if rc.exp.Kind == MustError || !ok {
		return
	}
	o, _ := mon.RunOpAPI(rc.req)
	c.Eval(1)
	if o.Kind != mon.Value {
		c.Count("refused:"+op+":"+rc.exp.Why, 1)
		return
	}
	// (2) honoured, not ignored
	if rc.withoutAttr != nil && len(o.Vals) > 0 && o.Vals[0] != nil {
		w := rc.exp.Want[0].T
		if maxDiff(rc.withoutAttr[0], w) > 2e-3 && maxDiff(o.Vals[0], rc.withoutAttr[0]) < 2e-4 {
			c.Violation(op+":attribute-ignored:"+rc.attrNote, "the result equals the recurrence WITHOUT %s although the attribute changes the answer by %.3g | %s", rc.attrNote, maxDiff(rc.withoutAttr[0], w), trunc(rc.req.Describe(), 500))
		}
	}
	// structural: Y_h is the last step of Y, shapes
	c06Structural(c, rc, o)
	// (1b) step-wise check for RNN and GRU from the observed trace
	if (op == "RNN" || op == "GRU") && len(o.Vals) >= 1 && o.Vals[0] != nil && rc.x.DT == ref.F32 {
		c06Stepwise(c, rc, o.Vals[0])
	}
	// (3) metamorphic split on the real code
	if rc.S >= 2 && rc.exp.Kind == MustEqual {
		c06Split(c, rc, o)
	}
	// (4) a refused call must leave the caller's tensors usable: the same tensor objects are
	// first passed to a call that is refused inside Apply (an activation name the library
	// does not know), then to the valid request, which must still give the same result
	if rc.exp.Kind == MustEqual && c.Idx%4 == 1 {
		bad := rc.req
		bad.Attrs = nil
		for _, a := range rc.req.Attrs {
			if a.Name != "activations" {
				bad.Attrs = append(bad.Attrs, a)
			}
		}
		acts := make([]string, map[string]int{"RNN": 1, "GRU": 2, "LSTM": 3}[op])
		for i := range acts {
			acts[i] = "tanh"
		}
		acts[c.R.Intn(len(acts))] = c.R.PickStr("Softsign", "NoSuchActivation")
		bad.Attrs = append(bad.Attrs, mon.AttrStrings("activations", acts))
		sr := mon.NewSharedRunner()
		refused := sr.Run(bad)
		again := sr.Run(rc.req)
		c.Eval(2)
		c.Count("valid-call-after-a-refused-call", 1)
		if refused.Kind == mon.Panic {
			c.Violation(op+":panic", "unknown activation name: %s", refused.Describe())
		}
		if d := diffOutcomes(o, again); d != "" && refused.Kind != mon.Value {
			c.Violation(op+":valid-call-fails-after-a-refused-call", "the same tensor objects were first passed to a call the operator refused (%s), then to the valid request: %s | %s", trunc(refused.Describe(), 150), d, trunc(rc.req.Describe(), 300))
		}
	}
	if c.Idx%1200 == 29 {
		c.Sample(map[string]any{"request": trunc(rc.req.Describe(), 500), "expectation": rc.exp.Kind.String(), "Y_expected": trunc(rc.exp.Want[0].T.String(), 200), "gate_swap_discriminates": rc.discrim})
	}
}

func c06Structural(c *Ctx, rc recCase, o mon.Outcome) {
	if len(o.Vals) < 2 || o.Vals[0] == nil || o.Vals[1] == nil {
		return
	}
	Y, Yh := o.Vals[0], o.Vals[1]
	if !ref.ShapeEq(Y.Shape, []int{rc.S, 1, rc.B, rc.H}) || !ref.ShapeEq(Yh.Shape, []int{1, rc.B, rc.H}) {
		c.Violation(rc.op+":wrong-output-shapes", "Y %v, Y_h %v for seq %d batch %d hidden %d", Y.Shape, Yh.Shape, rc.S, rc.B, rc.H)
		return
	}
	n := rc.B * rc.H
	for i := 0; i < n; i++ {
		if Y.Bits[(rc.S-1)*n+i] != Yh.Bits[i] {
			c.Violation(rc.op+":Y_h-is-not-the-last-step-of-Y", "element %d: Y[last]=%v Y_h=%v", i, Y.F((rc.S-1)*n+i), Yh.F(i))
			return
		}
	}
}

func c06Stepwise(c *Ctx, rc recCase, Y *ref.T) {
	z := ref.RecShapes(rc.S, rc.B, rc.I, rc.H)
	acts := rc.at.Activations
	n := rc.B * rc.H
	prev := make([]float64, n)
	if rc.h0 != nil {
		prev = rc.h0.Floats()
	}
	xf, wf, rf := rc.x.Floats(), rc.w.Floats(), rc.r.Floats()
	var bf []float64
	if rc.b != nil {
		bf = rc.b.Floats()
	}
	var f, g func(float64) float64
	switch rc.op {
	case "RNN":
		name := "Tanh"
		if acts != nil {
			name = acts[0]
		}
		f, _ = rc.at.Act([]string{name}, 0)
	case "GRU":
		n1, n2 := "Sigmoid", "Tanh"
		if acts != nil {
			n1, n2 = acts[0], acts[1]
		}
		f, _ = rc.at.Act([]string{n1, n2}, 0)
		g, _ = rc.at.Act([]string{n1, n2}, 1)
	}
	if f == nil {
		return
	}
	tol := float64(rc.I+rc.H+8) * 8 * 0x1p-24
	for t := 0; t < rc.S; t++ {
		xt := xf[t*rc.B*rc.I : (t+1)*rc.B*rc.I]
		var want []float64
		if rc.op == "RNN" {
			want = ref.RNNStep(z, xt, prev, wf, rf, bf, f)
		} else {
			want = ref.GRUStep(z, xt, prev, wf, rf, bf, f, g, rc.at.LinearBeforeReset)
		}
		obs := make([]float64, n)
		for i := 0; i < n; i++ {
			obs[i] = Y.F(t*n + i)
			scale := 1 + math.Abs(want[i])
			for _, v := range prev {
				if a := math.Abs(v); a > scale {
					scale = a
				}
			}
			if d := math.Abs(obs[i] - want[i]); d > tol*scale || d != d {
				c.Violation(rc.op+":step-differs-from-the-recurrence", "step %d element %d: observed %v, cell(X[t], observed Y[t-1]) = %v (tol %.3g) | %s", t, i, obs[i], want[i], tol*scale, trunc(rc.req.Describe(), 400))
				return
			}
		}
		prev = obs
	}
	c.Count("stepwise-steps-checked", int64(rc.S))
}

func sliceSeq(x *ref.T, from, to int) *ref.T {
	per := ref.NumElems(x.Shape[1:])
	t := ref.New(x.DT, append([]int{to - from}, x.Shape[1:]...)...)
	copy(t.Bits, x.Bits[from*per:to*per])
	return t
}

// c06Split: processing the sequence in two pieces, feeding the final state of
// the first into the second, must reproduce processing it whole (real code only).
func c06Split(c *Ctx, rc recCase, whole mon.Outcome) {
	s := c.R.Range(1, rc.S-1)
	mk := func(x, h0, c0 *ref.T) mon.OpReq {
		req := rc.req
		ins := make([]*ref.T, 6)
		if rc.op == "LSTM" {
			ins = make([]*ref.T, 8)
		}
		copy(ins, rc.req.Inputs)
		ins[0] = x
		ins[5] = h0
		if rc.op == "LSTM" {
			ins[6] = c0
		}
		req.Inputs = ins
		return req
	}
	var h0, c0 *ref.T = rc.h0, rc.c0
	// in half of the cases every call of this relation receives the SAME weight tensor
	// objects (W, R, B, P, initial states), as a caller holding its weights would pass them
	runAPI := func(q mon.OpReq) mon.Outcome { o, _ := mon.RunOpAPI(q); return o }
	if c.Idx%2 == 0 {
		sr := mon.NewSharedRunner()
		if o := sr.Run(rc.req); o.Kind != mon.Value {
			c.Violation(rc.op+":shared-weights-whole-run-fails", "the whole sequence runs on fresh tensors but not on the caller's weight objects: %s", trunc(o.Describe(), 300))
			return
		}
		runAPI = sr.Run
		defer func() {
			again := sr.Run(rc.req)
			c.Eval(1)
			if d := diffOutcomes(whole, again); d != "" {
				c.Violation(rc.op+":second-whole-run-differs", "operator API, same weight tensor objects: the whole sequence run again after the two pieces differs: %s | %s", d, trunc(rc.req.Describe(), 300))
			}
		}()
	}
	o1 := runAPI(mk(sliceSeq(rc.x, 0, s), h0, c0))
	c.Eval(1)
	if o1.Kind != mon.Value || len(o1.Vals) < 2 {
		c.Violation(rc.op+":split-first-piece-fails", "whole sequence runs, the first %d steps do not: %s", s, trunc(o1.Describe(), 300))
		return
	}
	var c1 *ref.T
	if rc.op == "LSTM" {
		if len(o1.Vals) < 3 {
			return
		}
		c1 = o1.Vals[2]
	}
	o2 := runAPI(mk(sliceSeq(rc.x, s, rc.S), o1.Vals[1], c1))
	c.Eval(1)
	if o2.Kind != mon.Value || len(o2.Vals) < 2 {
		c.Violation(rc.op+":split-second-piece-fails", "whole sequence runs, steps %d.. with the fed-back state do not: %s", s, trunc(o2.Describe(), 300))
		return
	}
	n := rc.B * rc.H
	Yw := whole.Vals[0]
	cmp := func(got float64, want float64, what string, i int) bool {
		if got == want {
			return true
		}
		if d := math.Abs(got - want); d > 1e-6*(1+math.Abs(want)) || d != d {
			c.Violation(rc.op+":split-differs-from-whole", "%s element %d: split %v vs whole %v (split at %d of %d) | %s", what, i, got, want, s, rc.S, trunc(rc.req.Describe(), 400))
			return false
		}
		return true
	}
	for i := 0; i < s*n; i++ {
		if !cmp(o1.Vals[0].F(i), Yw.F(i), "Y(first piece)", i) {
			return
		}
	}
	for i := 0; i < (rc.S-s)*n; i++ {
		if !cmp(o2.Vals[0].F(i), Yw.F(s*n+i), "Y(second piece)", i) {
			return
		}
	}
	for i := 0; i < n; i++ {
		if !cmp(o2.Vals[1].F(i), whole.Vals[1].F(i), "Y_h", i) {
			return
		}
		if rc.op == "LSTM" && len(o2.Vals) > 2 && len(whole.Vals) > 2 && !cmp(o2.Vals[2].F(i), whole.Vals[2].F(i), "Y_c", i) {
			return
		}
	}
	c.Count("split-relations-checked", 1)
	// the same relation as a history on ONE loaded model (weights as initializers): whole
	// sequence, then the two pieces with the state fed back, then the whole sequence again
	c06SplitModel(c, rc, s)
	c06SplitChained(c, rc, s, whole)
}

// c06SplitChained: the same relation as ONE graph of two chained nodes of the
// operator - the first consumes steps [0,s), the second steps [s,S) with the
// first node's Y_h (and Y_c) as initial state. The first node's Y is omitted
// ("") in half of the cases and the second node names its skipped optional
// inputs "", as exporters of "only the last state" pipelines do.
func c06SplitChained(c *Ctx, rc recCase, s int, whole mon.Outcome) {
	g := &mon.Graph{}
	feed := map[string]*ref.T{}
	addIn := func(name string, t *ref.T) {
		g.Inputs = append(g.Inputs, mon.GInput{Name: name, DT: t.DT, Dims: mon.FixedDims(t.Shape)})
		feed[name] = t
	}
	addIn("x1", sliceSeq(rc.x, 0, s))
	addIn("x2", sliceSeq(rc.x, s, rc.S))
	nIn := 6
	if rc.op == "LSTM" {
		nIn = 8
	}
	n1 := make([]string, nIn)
	n2 := make([]string, nIn)
	for i, t := range rc.req.Inputs {
		if t == nil || i == 0 {
			continue
		}
		name := fmt.Sprintf("w%d", i)
		if i == 5 || i == 6 {
			addIn(name, t)
		} else {
			g.Inits = append(g.Inits, mon.GInit{Name: name, T: t, Raw: c.R.Bool()})
		}
		n1[i], n2[i] = name, name
	}
	n1[0], n2[0] = "x1", "x2"
	n2[5] = "h1"
	out1, out2 := []string{"y1", "h1"}, []string{"y2", "h2"}
	if rc.op == "LSTM" {
		n2[6] = "c1"
		out1, out2 = append(out1, "c1"), append(out2, "c2")
	}
	omitY := c.R.Bool()
	if omitY {
		out1[0] = ""
	}
	trim := func(names []string) []string {
		for len(names) > 3 && names[len(names)-1] == "" && c.R.Bool() {
			names = names[:len(names)-1]
		}
		return names
	}
	g.Nodes = []mon.GNode{
		{Op: rc.op, Name: "first", Inputs: trim(n1), Outputs: out1, Attrs: rc.req.Attrs},
		{Op: rc.op, Name: "second", Inputs: trim(n2), Outputs: out2, Attrs: rc.req.Attrs},
	}
	for _, o := range out2 {
		g.Outputs = append(g.Outputs, mon.GInput{Name: o, NoType: true})
	}
	o := mon.RunGraph(g, feed)
	c.Eval(1)
	if o.Kind != mon.Value || len(o.Vals) < 2 || o.Vals[0] == nil || o.Vals[1] == nil {
		c.Violation(rc.op+":chained-split-fails", "the whole sequence runs through the operator, a graph of two chained %s nodes (first Y omitted: %v, inputs %v / %v) does not: %s | %s", rc.op, omitY, g.Nodes[0].Inputs, g.Nodes[1].Inputs, trunc(o.Describe(), 300), trunc(rc.req.Describe(), 300))
		return
	}
	n := rc.B * rc.H
	near := func(a, b float64) bool { return a == b || math.Abs(a-b) <= 1e-6*(1+math.Abs(b)) }
	if want := []int{rc.S - s, 1, rc.B, rc.H}; !ref.ShapeEq(o.Vals[0].Shape, want) {
		c.Violation(rc.op+":chained-split-differs-from-whole", "Y of the second node has shape %v, expected %v", o.Vals[0].Shape, want)
		return
	}
	for i := 0; i < (rc.S-s)*n; i++ {
		if !near(o.Vals[0].F(i), whole.Vals[0].F(s*n+i)) {
			c.Violation(rc.op+":chained-split-differs-from-whole", "two chained nodes: Y(second node) element %d: %v vs whole %v (split at %d of %d, first Y omitted: %v) | %s", i, o.Vals[0].F(i), whole.Vals[0].F(s*n+i), s, rc.S, omitY, trunc(rc.req.Describe(), 300))
			return
		}
	}
	for k := 1; k < len(o.Vals) && k < len(whole.Vals); k++ {
		for i := 0; i < n; i++ {
			if o.Vals[k] == nil || whole.Vals[k] == nil || len(o.Vals[k].Bits) != n {
				c.Violation(rc.op+":chained-split-differs-from-whole", "two chained nodes: final state output %d is missing or has the wrong size", k)
				return
			}
			if !near(o.Vals[k].F(i), whole.Vals[k].F(i)) {
				c.Violation(rc.op+":chained-split-differs-from-whole", "two chained nodes: final state %d element %d: %v vs whole %v (split at %d of %d) | %s", k, i, o.Vals[k].F(i), whole.Vals[k].F(i), s, rc.S, trunc(rc.req.Describe(), 300))
				return
			}
		}
	}
	c.Count("split-relations-checked-through-two-chained-nodes", 1)
}

func c06SplitModel(c *Ctx, rc recCase, s int) {
	mask := ^uint64(0) &^ 1 // everything but X is an initializer
	if rc.h0 != nil {
		mask &^= 1 << 5
	}
	if rc.c0 != nil {
		mask &^= 1 << 6
	}
	req := rc.req
	if rc.op == "LSTM" {
		req.OutNames = []string{"o_y", "o_h", "o_c"}
	}
	// make initial states graph inputs even when absent in this case: use explicit zero states
	ins := make([]*ref.T, 6)
	if rc.op == "LSTM" {
		ins = make([]*ref.T, 8)
	}
	copy(ins, rc.req.Inputs)
	if rc.op == "LSTM" && ins[6] != nil && ins[6] == ins[5] {
		ins[6] = ins[6].Clone() // two graph inputs here: the pieces feed h and c back separately
	}
	if ins[5] == nil {
		ins[5] = ref.New(rc.x.DT, 1, rc.B, rc.H)
		mask &^= 1 << 5
	}
	if rc.op == "LSTM" && ins[6] == nil {
		ins[6] = ref.New(rc.x.DT, 1, rc.B, rc.H)
		mask &^= 1 << 6
	}
	req.Inputs = ins
	g, feed := mon.BuildOpModel(req, mon.ModelOpts{InitMask: mask, DynamicIn: true})
	var outs []string
	for _, o := range g.Outputs {
		outs = append(outs, o.Name)
	}
	h := mon.NewSession(g.Bytes())
	if h.Err != nil {
		c.Violation(rc.op+":split-model-does-not-load", "%v", h.Err)
		return
	}
	run := func(x, h0, c0 *ref.T) []*ref.T {
		f := map[string]*ref.T{}
		for k, v := range feed {
			f[k] = v
		}
		f["i0"] = x
		f["i5"] = h0
		if rc.op == "LSTM" {
			f["i6"] = c0
		}
		o := h.Run(f, outs)
		c.Eval(1)
		if o.Kind != mon.Value {
			return nil
		}
		return o.Vals
	}
	var c0 *ref.T
	if rc.op == "LSTM" {
		c0 = ins[6]
	}
	w1 := run(rc.x, ins[5], c0)
	if w1 == nil {
		return // refused through Run: judged elsewhere
	}
	p1 := run(sliceSeq(rc.x, 0, s), ins[5], c0)
	if p1 == nil || len(p1) < 2 {
		c.Violation(rc.op+":split-first-piece-fails", "one model: whole sequence runs, then the first %d steps do not", s)
		return
	}
	var c1 *ref.T
	if rc.op == "LSTM" && len(p1) > 2 {
		c1 = p1[2]
	}
	p2 := run(sliceSeq(rc.x, s, rc.S), p1[1], c1)
	w2 := run(rc.x, ins[5], c0)
	if p2 == nil || w2 == nil {
		c.Violation(rc.op+":split-second-piece-fails", "one model: a later Run fails although the first succeeded (split at %d)", s)
		return
	}
	n := rc.B * rc.H
	near := func(a, b float64) bool { return a == b || math.Abs(a-b) <= 1e-6*(1+math.Abs(b)) }
	for i := range w1[0].Bits {
		if w1[0].Bits[i] != w2[0].Bits[i] {
			c.Violation(rc.op+":second-whole-run-differs", "one model: the whole sequence run again gives another Y (element %d: %v vs %v) | %s", i, w2[0].F(i), w1[0].F(i), trunc(rc.req.Describe(), 300))
			return
		}
	}
	for i := 0; i < (rc.S-s)*n; i++ {
		if !near(p2[0].F(i), w1[0].F(s*n+i)) {
			c.Violation(rc.op+":split-differs-from-whole", "one model, two Runs with the state fed back: Y(second piece) element %d: %v vs whole %v (split at %d of %d) | %s", i, p2[0].F(i), w1[0].F(s*n+i), s, rc.S, trunc(rc.req.Describe(), 300))
			return
		}
	}
	c.Count("split-relations-checked-through-one-model", 1)
}
