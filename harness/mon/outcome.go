package mon

import (
	"fmt"
	"runtime/debug"
	"strings"

	"gorgonia.org/tensor"

	"verif/harness/ref"
)

// OutKind classifies what a call into the library did.
type OutKind int

// Outcome kinds.
const (
	Value OutKind = iota
	Error
	Panic
)

func (k OutKind) String() string { return [...]string{"value", "error", "panic"}[k] }

// Outcome is the observed result of one call at the API boundary.
type Outcome struct {
	Kind    OutKind
	Vals    []*ref.T // Value: converted outputs (nil entry = nil tensor)
	Raw     []tensor.Tensor
	ReadErr string // Value: an output tensor that could not be read back
	Err     error
	Panic   string
	Stack   string
	Phase   string // which phase produced the error/panic (lookup/init/validate/apply/run/load)
}

// Capture runs fn and classifies its outcome; a panic is recovered and kept as Panic.
func Capture(phase *string, fn func() ([]tensor.Tensor, error)) (o Outcome) {
	defer func() {
		if r := recover(); r != nil {
			o = Outcome{Kind: Panic, Panic: fmt.Sprint(r), Stack: trimStack(string(debug.Stack()))}
			if phase != nil {
				o.Phase = *phase
			}
		}
	}()
	ts, err := fn()
	if err != nil {
		o = Outcome{Kind: Error, Err: err}
		if phase != nil {
			o.Phase = *phase
		}
		return o
	}
	o = Outcome{Kind: Value, Raw: ts, Vals: make([]*ref.T, len(ts))}
	for i, t := range ts {
		v, err := readBack(t)
		if err != nil {
			o.ReadErr = fmt.Sprintf("output %d: %v", i, err)
			continue
		}
		o.Vals[i] = v
	}
	return o
}

func readBack(t tensor.Tensor) (v *ref.T, err error) {
	defer func() {
		if r := recover(); r != nil {
			err = fmt.Errorf("panic reading tensor: %v", r)
		}
	}()
	return FromTensor(t)
}

func trimStack(s string) string {
	lines := strings.Split(s, "\n")
	var keep []string
	for _, l := range lines {
		if strings.Contains(l, "gonnx") || strings.Contains(l, "gorgonia") || strings.HasPrefix(l, "panic") {
			keep = append(keep, strings.TrimSpace(l))
		}
		if len(keep) >= 14 {
			break
		}
	}
	return strings.Join(keep, " | ")
}

// Describe renders the outcome compactly.
func (o Outcome) Describe() string {
	switch o.Kind {
	case Error:
		return fmt.Sprintf("error[%s]: %v", o.Phase, o.Err)
	case Panic:
		return fmt.Sprintf("PANIC[%s]: %s @ %s", o.Phase, o.Panic, o.Stack)
	}
	parts := make([]string, len(o.Vals))
	for i, v := range o.Vals {
		parts[i] = v.String()
	}
	s := "value: " + strings.Join(parts, "; ")
	if o.ReadErr != "" {
		s += " (unreadable: " + o.ReadErr + ")"
	}
	return s
}
