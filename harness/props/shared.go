package props

import (
	"fmt"
	"math"

	"verif/harness/gen"
	"verif/harness/mon"
	"verif/harness/ref"
)

// Shared-operand sequences.
//
// A caller (or a graph) may hand the same tensor object to several operator
// calls: one `shape` initializer consumed by two Reshape nodes, one `axes`
// tensor used for inputs of different rank, one value reduced along two axes.
// Every call must still return what ONNX prescribes for the operand values the
// caller built. The scenarios below build such sequences for the shape and
// index operators (C07, C08) and the reductions (C09); expectations come from
// the reference model applied to the original values.

// presetOperand, when set, replaces the data tensor drawn by the C09
// generators, so that several requests with independent attributes share one
// operand object.
var presetOperand *ref.T

// variantOf returns a tensor of the same element type as x with another shape.
func variantOf(r *gen.R, x *ref.T, sameRank bool) *ref.T {
	shape := append([]int(nil), x.Shape...)
	k := r.Intn(4)
	if sameRank || len(shape) >= 5 {
		k = r.Intn(2)
	}
	if len(shape) == 0 && k < 2 {
		k = 2
	}
	switch k {
	case 0:
		i := r.Intn(len(shape))
		shape[i] = shape[i]*r.Range(2, 3) - r.Intn(2)
	case 1:
		i, j := r.Intn(len(shape)), r.Intn(len(shape))
		shape[i], shape[j] = shape[j], shape[i]
		if i == j || shape[i] == shape[j] {
			shape[i]++
		}
	case 2:
		shape = append(shape, r.Range(1, 3))
	default:
		shape = append([]int{r.Range(1, 3)}, shape...)
	}
	for n := 0; prod(shape) > 240 && n < 8; n++ {
		shape[r.Intn(len(shape))] = 1
	}
	return r.Tensor(x.DT, shape, gen.FillUnique, 0)
}

func prod(s []int) int {
	n := 1
	for _, e := range s {
		n *= e
	}
	return n
}

func exoticDT(dt ref.DType) bool { return dt == ref.C64 || dt == ref.C128 || dt == ref.Str }

// c07Shared: one target-shape / axes tensor used for several data tensors.
func c07Shared(c *Ctx) {
	r := c.R
	op := []string{"Reshape", "Reshape", "Squeeze", "Unsqueeze"}[r.Intn(4)]
	var first mon.OpReq
	var exp1 Expect
	ok := false
	for try := 0; try < 20 && !ok; try++ {
		switch op {
		case "Reshape":
			first, exp1, ok = genReshape(r, true)
		case "Squeeze":
			first, exp1, ok = genSqueeze(r, true)
		default:
			first, exp1, ok = genUnsqueeze(r, true)
		}
		ok = ok && exp1.Kind == MustEqual && len(first.Inputs) == 2 && first.Inputs[1] != nil
	}
	if !ok {
		c.Skip("generator rejected the draw")
		return
	}
	x, param := first.Inputs[0], first.Inputs[1]
	ints := param.Ints()
	eval := func(t *ref.T) Expect {
		switch op {
		case "Reshape":
			return expFrom(ref.Reshape(t, ints))
		case "Squeeze":
			return expFrom(ref.Squeeze(t, ints, true))
		}
		return expFrom(ref.Unsqueeze(t, ints))
	}
	reqs, exps := []mon.OpReq{first}, []Expect{exp1}
	for n := r.Range(1, 2); n > 0; n-- {
		var v *ref.T
		var e Expect
		for try := 0; try < 6; try++ { // prefer variants for which the parameter is still valid
			v = variantOf(r, x, false)
			if e = eval(v); e.Kind == MustEqual {
				break
			}
		}
		reqs = append(reqs, mon.OpReq{Op: op, Inputs: []*ref.T{v, param}})
		exps = append(exps, e)
	}
	if r.Chance(0.3) { // and the first data tensor once more at the end
		reqs = append(reqs, mon.OpReq{Op: op, Inputs: []*ref.T{x, param}})
		exps = append(exps, exp1)
	}
	c.SetCase("shared parameter tensor %v for %d %s calls: %s", ints, len(reqs), op, describeSeq(reqs))
	c.Nontrivial(fmt.Sprintf("shared|%s|%v|%v|%s", op, x.DT, ints, shapesOf(reqs)))
	c.Count("class:shared-parameter/"+op, 1)
	paramInit := r.Bool()
	CheckOpsShared(c, reqs, exps, !exoticDT(x.DT), func(t *ref.T) bool { return t == param && paramInit }, c07Known)
}

func describeSeq(reqs []mon.OpReq) string {
	s := ""
	for i, q := range reqs {
		if i > 0 {
			s += " ; "
		}
		s += trunc(q.Describe(), 160)
	}
	return s
}

func shapesOf(reqs []mon.OpReq) string {
	s := ""
	for _, q := range reqs {
		if len(q.Inputs) > 0 && q.Inputs[0] != nil {
			s += fmt.Sprint(q.Inputs[0].Shape)
		}
	}
	return s
}

// c08Shared: index / target tensors shared between calls on different data,
// and one data tensor shared between calls with different parameters.
func c08Shared(c *Ctx) {
	r := c.R
	var reqs []mon.OpReq
	var exps []Expect
	var shared *ref.T
	kind := r.Intn(5)
	switch kind {
	case 0: // Slice: starts/ends/axes/steps shared
		first, e1, ok := genSlice(r, r.Chance(0.6))
		if !ok || e1.Kind == MustError {
			c.Skip("generator rejected the draw")
			return
		}
		reqs, exps = append(reqs, first), append(exps, e1)
		get := func(i int) []int64 {
			if i < len(first.Inputs) && first.Inputs[i] != nil {
				return first.Inputs[i].Ints()
			}
			return nil
		}
		starts, ends, axes, steps := get(1), get(2), get(3), get(4)
		shared = first.Inputs[1]
		for n := r.Range(1, 2); n > 0; n-- {
			v := variantOf(r, first.Inputs[0], true)
			want, err := ref.Slice(v, starts, ends, axes, steps)
			q := mon.OpReq{Op: "Slice", Inputs: append([]*ref.T{v}, first.Inputs[1:]...)}
			reqs, exps = append(reqs, q), append(exps, expCore(want, err, false))
		}
	case 1: // Gather: one index tensor (negative indices) for several data tensors
		first, e1, ok := genGather(r, true)
		if !ok || e1.Kind == MustError {
			c.Skip("generator rejected the draw")
			return
		}
		reqs, exps = append(reqs, first), append(exps, e1)
		shared = first.Inputs[1]
		ax := int(attrInt(first, "axis", 0))
		for n := r.Range(1, 2); n > 0; n-- {
			v := variantOf(r, first.Inputs[0], true)
			want, err := ref.Gather(v, shared, ax)
			q := mon.OpReq{Op: "Gather", Inputs: []*ref.T{v, shared}, Attrs: first.Attrs}
			reqs, exps = append(reqs, q), append(exps, expCore(want, err, true))
		}
	case 2: // Expand: one target tensor for several data tensors
		first, e1, ok := genExpand(r, true)
		if !ok || e1.Kind == MustError {
			c.Skip("generator rejected the draw")
			return
		}
		reqs, exps = append(reqs, first), append(exps, e1)
		shared = first.Inputs[1]
		target := shared.Ints()
		x := first.Inputs[0]
		for n := r.Range(1, 2); n > 0; n-- {
			shape := append([]int(nil), x.Shape...)
			for i := range shape { // other stretchable axes, sometimes a lower rank
				if r.Chance(0.4) {
					j := len(target) - len(shape) + i
					if shape[i] == 1 && j >= 0 && target[j] > 0 && target[j] < 6 {
						shape[i] = int(target[j])
					} else {
						shape[i] = 1
					}
				}
			}
			if len(shape) > 0 && r.Chance(0.3) {
				shape = shape[1:]
			}
			v := r.Tensor(x.DT, shape, gen.FillUnique, 0)
			want, err := ref.Expand(v, target)
			q := mon.OpReq{Op: "Expand", Inputs: []*ref.T{v, shared}}
			reqs, exps = append(reqs, q), append(exps, expCore(want, err, len(target) >= len(shape)))
		}
	case 3: // Transpose: one data tensor, several permutations
		x := c08Data(r, 1, 4)
		shared = x
		for n := r.Range(2, 3); n > 0; n-- {
			perm := make([]int64, x.Rank())
			for i, p := range r.Perm(x.Rank()) {
				perm[i] = int64(p)
			}
			want, err := ref.Transpose(x, perm)
			q := mon.OpReq{Op: "Transpose", Inputs: []*ref.T{x}, Attrs: []*mon.Attr{mon.AttrInts("perm", perm)}}
			reqs, exps = append(reqs, q), append(exps, expCore(want, err, true))
		}
	default: // Concat: the same tensor several times in one call, then along another axis
		x := c08Data(r, 1, 3)
		shared = x
		for n := 2; n > 0; n-- {
			k := r.Range(2, 3)
			ins := make([]*ref.T, k)
			for i := range ins {
				ins[i] = x
			}
			ax := r.Range(-x.Rank(), x.Rank()-1)
			want, err := ref.Concat(ins, ax)
			q := mon.OpReq{Op: "Concat", Inputs: ins, Attrs: []*mon.Attr{mon.AttrI("axis", int64(ax))}}
			reqs, exps = append(reqs, q), append(exps, expCore(want, err, true))
		}
	}
	x := reqs[0].Inputs[0]
	c.SetCase("shared operand for %d %s calls: %s", len(reqs), reqs[0].Op, describeSeq(reqs))
	c.Nontrivial(fmt.Sprintf("shared|%s|%v|%s|%s", reqs[0].Op, x.DT, shapesOf(reqs), trunc(describeSeq(reqs[1:]), 200)))
	c.Count("class:shared-operand/"+reqs[0].Op, 1)
	asInit := r.Bool()
	CheckOpsShared(c, reqs, exps, !exoticDT(x.DT), func(t *ref.T) bool { return t == shared && asInit && !exoticDT(t.DT) }, c08Known)
}

// c09Shared: one data tensor reduced / normalised several times with
// independent attributes.
func c09Shared(c *Ctx) {
	r := c.R
	shape := r.Shape(1, 4, 5, 120)
	var x *ref.T
	if r.Bool() {
		x = tieTensor(r, ref.F32, shape)
	} else {
		x = r.Tensor(r.PickDT(ref.F32, ref.F64), shape, gen.FillSmall, 8)
	}
	presetOperand = x
	defer func() { presetOperand = nil }()
	var reqs []mon.OpReq
	var exps []Expect
	for n := r.Range(2, 4); n > 0; n-- {
		var q mon.OpReq
		var e Expect
		switch r.Intn(6) {
		case 0, 1:
			q, e, _ = genArgMax(r, true)
		case 2:
			q, e, _ = genReduce(r, "ReduceMax", true)
		case 3:
			q, e, _ = genReduce(r, "ReduceMin", true)
		case 4:
			q, e, _ = genSoftmax(r, "Softmax", true)
		default:
			q, e, _ = genSoftmax(r, "LogSoftmax", true)
		}
		if q.Inputs[0] != x {
			panic("harness: preset operand not used by the generator")
		}
		reqs, exps = append(reqs, q), append(exps, e)
	}
	desc := ""
	for _, q := range reqs {
		desc += q.Op + "{" + attrsString(q) + "} "
	}
	c.SetCase("one operand %s used by: %s", trunc(x.String(), 200), desc)
	c.Nontrivial(fmt.Sprintf("shared|%v|%v|%s|%x", x.DT, x.Shape, desc, mon.HashBits(x.Bits)))
	c.Count("class:shared-operand", 1)
	asInit := r.Bool()
	CheckOpsShared(c, reqs, exps, true, func(t *ref.T) bool { return asInit }, c09Known)
}

// c03Shared: one operand object combined with several partners (different
// shapes, different operators, either position, and with itself).
func c03Shared(c *Ctx) {
	r := c.R
	logic := r.Chance(0.2)
	dt := c03MustDT[r.Intn(4)]
	if logic {
		dt = ref.Bool
	}
	sa := c03Shapes[r.Intn(len(c03Shapes))]
	a := r.Tensor(dt, sa, r.PickInt(gen.FillSmall, gen.FillMixed, gen.FillUnique), 20)
	var reqs []mon.OpReq
	var exps []Expect
	desc := ""
	for n := r.Range(2, 4); n > 0; n-- {
		var op string
		for {
			op = ref.BinaryOps[r.Intn(len(ref.BinaryOps))]
			if ref.IsLogic(op) == logic {
				break
			}
		}
		sb := c03Compatible(r, sa)
		b := r.Tensor(dt, sb, gen.FillSmall, 20)
		x, y := a, b
		switch r.Intn(5) {
		case 0:
			x, y = b, a
		case 1:
			y = a
		}
		if op == "Div" && dt.IsInt() {
			if y == a {
				x, y = a, b
			}
			for i := range b.Bits {
				if b.Bits[i] == 0 {
					b.Bits[i] = 1
				}
			}
			if y == a {
				continue
			}
		}
		e, skip := c03Expect(op, x, y)
		if skip != "" {
			continue
		}
		reqs, exps = append(reqs, mon.OpReq{Op: op, Inputs: []*ref.T{x, y}}), append(exps, e)
		desc += fmt.Sprintf("%s%v%v ", op, x.Shape, y.Shape)
		if x != y && r.Chance(0.3) && !(op == "Div" && dt.IsInt()) {
			// the same operator over the same two tensors in the opposite order (as one graph: two
			// nodes that differ in the order of their input names only)
			if e2, skip2 := c03Expect(op, y, x); skip2 == "" {
				reqs, exps = append(reqs, mon.OpReq{Op: op, Inputs: []*ref.T{y, x}}), append(exps, e2)
				desc += fmt.Sprintf("%s%v%v ", op, y.Shape, x.Shape)
			}
		}
	}
	if len(reqs) < 2 {
		c.Skip("fewer than two calls drawn")
		return
	}
	c.SetCase("one operand %s used by: %s", trunc(a.String(), 160), describeSeq(reqs))
	c.Nontrivial(fmt.Sprintf("shared|%v|%v|%s", dt, sa, desc))
	c.Count("class:shared-operand", 1)
	asInit := r.Bool()
	CheckOpsShared(c, reqs, exps, true, func(t *ref.T) bool { return t == a && asInit }, c03Known)
}

// c04Shared: one weight matrix multiplied with left operands of different
// rank (MatMul), one B and C used for several A (Gemm).
func c04Shared(c *Ctx) {
	r := c.R
	dt := ref.F32
	ext := func() int { return r.PickInt(1, 2, 2, 3, 5) }
	k, n := ext(), ext()
	var reqs []mon.OpReq
	var exps []Expect
	var shared []*ref.T
	if r.Bool() {
		sb := []int{k, n}
		switch r.Intn(4) {
		case 0:
			sb = []int{k}
		case 1:
			sb = []int{r.Range(1, 3), k, n}
		}
		b := numTensor(r, dt, sb)
		shared = []*ref.T{b}
		for cnt := r.Range(2, 4); cnt > 0; cnt-- {
			var sa []int
			switch r.Intn(4) {
			case 0:
				sa = []int{k}
			case 1:
				sa = []int{ext(), k}
			case 2:
				sa = []int{r.Range(1, 3), ext(), k}
				if len(sb) == 3 && r.Bool() {
					sa[0] = sb[0]
				}
			default:
				sa = []int{r.Range(1, 2), 1, ext(), k}
			}
			a := numTensor(r, dt, sa)
			x, y := a, b
			switch {
			case r.Chance(0.2) && len(sb) == 2 && len(sa) <= 2: // the shared matrix on the left
				a = numTensor(r, dt, []int{n, ext()})
				x, y = b, a
			case len(sb) == 1 && r.Chance(0.6): // the shared vector on the left, or on both sides
				a = numTensor(r, dt, []int{k, ext()})
				x, y = b, a
				if r.Chance(0.3) {
					y = b
				}
			}
			want, err := ref.MatMul(x, y)
			reqs = append(reqs, mon.OpReq{Op: "MatMul", Inputs: []*ref.T{x, y}})
			exps = append(exps, numExpect(want, err, dt, true))
		}
	} else {
		b := numTensor(r, dt, []int{k, n})
		cc := numTensor(r, dt, r.PickShape([]int{}, []int{n}, []int{1, n}, []int{1}, []int{1, 1}))
		shared = []*ref.T{b, cc}
		for cnt := r.Range(2, 3); cnt > 0; cnt-- {
			a := numTensor(r, dt, []int{ext(), k})
			q := mon.OpReq{Op: "Gemm", Inputs: []*ref.T{a, b, cc}}
			alpha, beta := 1.0, 1.0
			if r.Bool() {
				beta = r.PickFloat(0.5, 2, -1, 1)
				q.Attrs = append(q.Attrs, mon.AttrF("beta", float32(beta)))
			}
			if r.Bool() {
				alpha = r.PickFloat(0.5, 2, -1, 0)
				q.Attrs = append(q.Attrs, mon.AttrF("alpha", float32(alpha)))
			}
			want, err := ref.Gemm(a, b, cc, alpha, beta, false, false)
			reqs, exps = append(reqs, q), append(exps, numExpect(want, err, dt, true))
		}
	}
	c.SetCase("shared weight(s) for %d %s calls: %s", len(reqs), reqs[0].Op, describeSeq(reqs))
	c.Nontrivial(fmt.Sprintf("shared|%s|%s", reqs[0].Op, shapesAll(reqs)))
	c.Count("class:shared-operand/"+reqs[0].Op, 1)
	asInit := r.Bool()
	CheckOpsShared(c, reqs, exps, true, func(t *ref.T) bool {
		for _, s := range shared {
			if t == s {
				return asInit
			}
		}
		return false
	}, nil)
}

func shapesAll(reqs []mon.OpReq) string {
	s := ""
	for _, q := range reqs {
		for _, in := range q.Inputs {
			if in != nil {
				s += fmt.Sprint(in.Shape)
			}
		}
		s += attrsString(q) + ";"
	}
	return s
}

// c10Shared: one operand object passed to several unary operators.
func c10Shared(c *Ctx) {
	r := c.R
	dt := r.PickDT(ref.F32, ref.F32, ref.F64)
	shape := r.Shape(0, 4, 5, 80)
	x := r.Tensor(dt, shape, r.PickInt(gen.FillSmall, gen.FillMixed), []float64{1.5, 4, 20, 100}[r.Intn(4)])
	var reqs []mon.OpReq
	var exps []Expect
	desc := ""
	for n := r.Range(2, 4); n > 0; n-- {
		var op string
		for {
			op = ref.UnaryOps[r.Intn(len(ref.UnaryOps))]
			okDT := false
			for _, d := range c10DTs(op) {
				okDT = okDT || d == dt
			}
			if okDT {
				break
			}
		}
		q := mon.OpReq{Op: op, Inputs: []*ref.T{x}}
		var e Expect
		if op == "PRelu" {
			slope := x
			if r.Bool() {
				slope = r.Tensor(dt, []int{}, gen.FillSmall, 5)
			}
			q.Inputs = append(q.Inputs, slope)
			want, err := ref.PRelu(x, slope)
			if err != nil {
				continue
			}
			e = Expect{Kind: MustEqual, Want: []*ref.Approx{want}, Mode: CmpIEEE, Why: "valid request"}
		} else {
			want, err := ref.Unary(op, x)
			if err != nil {
				continue
			}
			e = Expect{Kind: MustEqual, Want: []*ref.Approx{want}, Mode: CmpTol, Why: "valid request"}
		}
		reqs, exps = append(reqs, q), append(exps, e)
		desc += op + " "
	}
	if len(reqs) < 2 {
		c.Skip("fewer than two calls drawn")
		return
	}
	c.SetCase("one operand %s used by: %s", trunc(x.String(), 200), desc)
	c.Nontrivial(fmt.Sprintf("shared|%v|%v|%s|%x", dt, shape, desc, mon.HashBits(x.Bits)))
	c.Count("class:shared-operand", 1)
	asInit := r.Bool()
	CheckOpsShared(c, reqs, exps, true, func(t *ref.T) bool { return asInit }, c10Known)
}

// c11Shared: one source tensor cast to several types; one shape tensor for
// several ConstantOfShape fills.
func c11Shared(c *Ctx) {
	r := c.R
	var reqs []mon.OpReq
	var exps []Expect
	desc := ""
	if r.Bool() {
		from := r.PickDT(ref.F32, ref.F64, ref.I32, ref.I64, ref.I16, ref.U16, ref.U32, ref.U64)
		x := ref.New(from, r.Shape(0, 4, 4, 60)...)
		for i := range x.Bits { // values every numeric type can hold
			x.Bits[i] = ref.EncF(from, float64(r.Range(0, 100)))
		}
		for n := r.Range(2, 4); n > 0; n-- {
			to := gen.NumericDTs[r.Intn(10)]
			want, ok := ref.Cast(x, to)
			if !ok {
				continue
			}
			q := mon.OpReq{Op: "Cast", Inputs: []*ref.T{x}, Attrs: []*mon.Attr{mon.AttrI("to", int64(to.OnnxCode()))}}
			reqs, exps = append(reqs, q), append(exps, Expect{Kind: MustEqual, Want: Exact(want), Mode: CmpIEEE, Why: "valid request"})
			desc += "Cast->" + to.String() + " "
		}
	} else {
		shape := r.Shape(1, 4, 5, 200)
		s64 := make([]int64, len(shape))
		for i, e := range shape {
			s64[i] = int64(e)
		}
		st := gen.I64s(s64...)
		for n := r.Range(2, 3); n > 0; n-- {
			q := mon.OpReq{Op: "ConstantOfShape", Inputs: []*ref.T{st}}
			var val *ref.T
			if r.Chance(0.8) {
				dt := r.PickDT(ref.F32, ref.F64, ref.I32, ref.I64, ref.U8, ref.I16)
				val = r.Tensor(dt, []int{1}, gen.FillSmall, 100)
				q.Attrs = []*mon.Attr{mon.AttrT("value", mon.TensorProto("", val, r.Bool()))}
			}
			want, err := ref.ConstantOfShape(s64, val)
			if err != nil {
				continue
			}
			reqs, exps = append(reqs, q), append(exps, Expect{Kind: MustEqual, Want: Exact(want), Mode: CmpIEEE, Why: "valid request"})
			desc += "ConstantOfShape{" + attrsString(q) + "} "
		}
	}
	if len(reqs) < 2 {
		c.Skip("fewer than two calls drawn")
		return
	}
	c.SetCase("one operand %s used by: %s", trunc(reqs[0].Inputs[0].String(), 200), desc)
	c.Nontrivial(fmt.Sprintf("shared|%v|%s", reqs[0].Inputs[0].Shape, desc))
	c.Count("class:shared-operand", 1)
	asInit := r.Bool()
	CheckOpsShared(c, reqs, exps, true, func(t *ref.T) bool { return asInit }, nil)
}

// Sentences appended to the evidence rule of the operator-level properties.
const (
	ruleShared  = " One case in sixteen is a SEQUENCE of 2-4 requests that share operand objects (the same tensor object handed to several calls; as one graph: one input or initializer consumed by several nodes, run twice on one loaded model); every call is judged against the reference applied to the operand values the caller built."
	ruleReused  = " In one case of eight the request is additionally applied to an operator instance that was initialised with the request's attributes and has already been applied to one or two other valid input lists (an instance carries only its attributes: same expectation). Further variants of the same request, each in one case of eight: the attribute list in another order; the input list as a prefix of a longer array; the same instance and tensor objects after the caller overwrote the operands in place; operands that are Clone()s of the caller's tensors, for two calls; as a model, the node between two Reshape nodes (operand and result are intermediate values). In one case of 32 each: the attributes without their type field (honoured or refused), and - for operators without attributes - a stray attribute (refused or computed as without it). One re-used-instance case in three has a perturbed, possibly refused, list among the earlier ones; warm calls clear the list they were returned; Apply must leave the list it was handed as it is. Single-node models: one in five without node names, one in sixteen with caller entries named like the initializers. One case in 48 runs right behind a case of another property. A deviating case is evaluated again alone and behind the cases before it (state kept between calls)."
	ruleChained = " The split relation is also run as one graph of two chained nodes (first node's Y omitted in half of the cases, skipped optional inputs named \"\")."
)

// c05Shared: one kernel and bias (the same tensor objects) convolved with
// several inputs of other batch size and spatial extents, and one input
// convolved twice.
func c05Shared(c *Ctx) {
	r := c.R
	var first mon.OpReq
	var e1 Expect
	var info convInfo
	ok := false
	for try := 0; try < 20 && !ok; try++ {
		first, e1, info, ok = genConv(r, true)
		// auto_pad=VALID is a recorded finding whose matcher is tied to one request: left to the single-request cases
		ok = ok && e1.Kind == MustEqual && info.at.AutoPad != "VALID"
	}
	if !ok {
		c.Skip("generator rejected the draw")
		return
	}
	reqs, exps := []mon.OpReq{first}, []Expect{e1}
	for n := r.Range(1, 2); n > 0; n-- {
		xs := append([]int(nil), info.x.Shape...)
		xs[0] = r.Range(1, 3)
		for d := 2; d < len(xs); d++ {
			xs[d] = maxInt(1, xs[d]+r.Range(-1, 2))
		}
		x := primeTensor(r, info.x.DT, xs)
		q := first
		q.Inputs = append([]*ref.T{x}, first.Inputs[1:]...)
		want, err := ref.Conv(x, info.w, info.b, info.at)
		if err != nil {
			reqs, exps = append(reqs, q), append(exps, Expect{Kind: MustError, Why: err.Error()})
			continue
		}
		reqs, exps = append(reqs, q), append(exps, Expect{Kind: MustEqual, Want: []*ref.Approx{want}, Mode: CmpTol, Why: "valid float32 request"})
	}
	if r.Bool() {
		reqs, exps = append(reqs, first), append(exps, e1)
	}
	c.SetCase("one kernel/bias for %d Conv calls: %s", len(reqs), describeSeq(reqs))
	c.Nontrivial(fmt.Sprintf("shared|%s|%s", shapesAll(reqs), attrsString(first)))
	c.Count("class:shared-operand", 1)
	asInit := r.Bool()
	CheckOpsShared(c, reqs, exps, true, func(t *ref.T) bool { return asInit && (t == info.w || t == info.b) }, c05Known(info))
}

// extremeAxes are axis values far outside any rank (integer-arithmetic boundaries).
var extremeAxes = []int64{math.MinInt64, math.MinInt64 + 1, math.MaxInt64, math.MaxInt64 - 1, -1 << 31, 1 << 31, 1 << 32, -(1 << 32), 1 << 40, -(1 << 40)}

func extremeAxis(r *gen.R) int64 { return extremeAxes[r.Intn(len(extremeAxes))] }
