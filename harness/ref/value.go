// Package ref is the executable reference model of ONNX opset-13 semantics used
// as the oracle by every check. It imports neither gonnx nor gorgonia: values are
// a neutral {dtype, shape, row-major bit patterns} triple and every operator is
// written as plain nested loops with float64 accumulation.
package ref

import (
	"fmt"
	"math"
)

// DType is an element type.
type DType int

// Element types. The first eleven are the ones gonnx can decode; the last three
// only appear in gate tests (C15).
const (
	F32 DType = iota
	F64
	I8
	I16
	I32
	I64
	U8
	U16
	U32
	U64
	Bool
	C64
	C128
	Str
	NDTypes
)

var dtNames = [...]string{"float32", "float64", "int8", "int16", "int32", "int64", "uint8", "uint16", "uint32", "uint64", "bool", "complex64", "complex128", "string"}

func (d DType) String() string {
	if d < 0 || int(d) >= len(dtNames) {
		return fmt.Sprintf("dtype(%d)", int(d))
	}
	return dtNames[d]
}

// IsFloat reports whether d is float32/float64.
func (d DType) IsFloat() bool { return d == F32 || d == F64 }

// IsSigned reports whether d is a signed integer type.
func (d DType) IsSigned() bool { return d == I8 || d == I16 || d == I32 || d == I64 }

// IsUnsigned reports whether d is an unsigned integer type.
func (d DType) IsUnsigned() bool { return d == U8 || d == U16 || d == U32 || d == U64 }

// IsInt reports whether d is an integer type.
func (d DType) IsInt() bool { return d.IsSigned() || d.IsUnsigned() }

// Size is the size in bytes of one element in the ONNX raw encoding.
func (d DType) Size() int {
	switch d {
	case F32, I32, U32:
		return 4
	case F64, I64, U64, C64:
		return 8
	case I16, U16:
		return 2
	case I8, U8, Bool:
		return 1
	case C128:
		return 16
	}
	return 0
}

// Bits is the width of an integer type in bits.
func (d DType) Bits() uint { return uint(d.Size() * 8) }

// OnnxCode is the TensorProto.DataType code.
func (d DType) OnnxCode() int32 {
	switch d {
	case F32:
		return 1
	case U8:
		return 2
	case I8:
		return 3
	case U16:
		return 4
	case I16:
		return 5
	case I32:
		return 6
	case I64:
		return 7
	case Str:
		return 8
	case Bool:
		return 9
	case F64:
		return 11
	case U32:
		return 12
	case U64:
		return 13
	case C64:
		return 14
	case C128:
		return 15
	}
	return 0
}

// FromOnnxCode maps a TensorProto.DataType code to a DType (ok=false if the
// code is not one of the eleven decodable types).
func FromOnnxCode(c int32) (DType, bool) {
	for d := F32; d <= Bool; d++ {
		if d.OnnxCode() == c {
			return d, true
		}
	}
	return 0, false
}

// T is a tensor value: row-major element bit patterns.
//
// Encoding of Bits[i]: float32 -> uint64(math.Float32bits); float64 ->
// math.Float64bits; signed ints -> uint64(int64(v)) (sign-extended); unsigned ->
// zero-extended; bool -> 0/1. Complex and string tensors are only ever built for
// gate tests and carry opaque bits.
type T struct {
	DT    DType
	Shape []int
	Bits  []uint64
}

// New allocates a zero tensor.
func New(dt DType, shape ...int) *T {
	return &T{DT: dt, Shape: append([]int{}, shape...), Bits: make([]uint64, NumElems(shape))}
}

// NumElems is the product of the extents (1 for rank 0).
func NumElems(shape []int) int {
	n := 1
	for _, s := range shape {
		n *= s
	}
	return n
}

// Rank returns the number of axes.
func (t *T) Rank() int { return len(t.Shape) }

// Len returns the number of elements.
func (t *T) Len() int { return len(t.Bits) }

// Clone deep-copies t.
func (t *T) Clone() *T {
	if t == nil {
		return nil
	}
	return &T{DT: t.DT, Shape: append([]int{}, t.Shape...), Bits: append([]uint64{}, t.Bits...)}
}

// WithShape returns a copy of t with another shape (same element count).
func (t *T) WithShape(shape ...int) *T {
	c := t.Clone()
	c.Shape = append([]int{}, shape...)
	return c
}

// F returns element i as float64 (exact for every type but 64-bit ints > 2^53).
func (t *T) F(i int) float64 {
	b := t.Bits[i]
	switch t.DT {
	case F32:
		return float64(math.Float32frombits(uint32(b)))
	case F64:
		return math.Float64frombits(b)
	case U8, U16, U32, U64:
		return float64(b)
	case Bool:
		return float64(b & 1)
	default:
		return float64(int64(b))
	}
}

// I returns element i as int64 (integer types and bool only).
func (t *T) I(i int) int64 { return int64(t.Bits[i]) }

// B returns element i as bool.
func (t *T) B(i int) bool { return t.Bits[i] != 0 }

// EncF encodes a float64 into the bit pattern of dt (float types: rounded once;
// integer types: must be integral and in range, wraps like a C cast otherwise).
func EncF(dt DType, v float64) uint64 {
	switch dt {
	case F32:
		return uint64(math.Float32bits(float32(v)))
	case F64:
		return math.Float64bits(v)
	case Bool:
		if v != 0 {
			return 1
		}
		return 0
	case U8, U16, U32, U64:
		return WrapU(dt, uint64(v))
	default:
		return WrapI(dt, int64(v))
	}
}

// WrapI truncates a signed value to the width of dt and sign-extends it back.
func WrapI(dt DType, v int64) uint64 {
	switch dt {
	case I8:
		return uint64(int64(int8(v)))
	case I16:
		return uint64(int64(int16(v)))
	case I32:
		return uint64(int64(int32(v)))
	}
	return uint64(v)
}

// WrapU truncates an unsigned value to the width of dt.
func WrapU(dt DType, v uint64) uint64 {
	switch dt {
	case U8:
		return uint64(uint8(v))
	case U16:
		return uint64(uint16(v))
	case U32:
		return uint64(uint32(v))
	}
	return v
}

// Wrap normalises raw bits into the canonical encoding of dt.
func Wrap(dt DType, b uint64) uint64 {
	switch {
	case dt.IsSigned():
		return WrapI(dt, int64(b))
	case dt.IsUnsigned():
		return WrapU(dt, b)
	case dt == F32:
		return uint64(uint32(b))
	case dt == Bool:
		if b != 0 {
			return 1
		}
		return 0
	}
	return b
}

// FromF builds a float tensor from float64 values.
func FromF(dt DType, shape []int, vals []float64) *T {
	t := New(dt, shape...)
	if len(vals) != len(t.Bits) {
		panic(fmt.Sprintf("ref.FromF: %d values for shape %v", len(vals), shape))
	}
	for i, v := range vals {
		t.Bits[i] = EncF(dt, v)
	}
	return t
}

// FromI builds an integer tensor from int64 values (wrapping to the width).
func FromI(dt DType, shape []int, vals []int64) *T {
	t := New(dt, shape...)
	if len(vals) != len(t.Bits) {
		panic(fmt.Sprintf("ref.FromI: %d values for shape %v", len(vals), shape))
	}
	for i, v := range vals {
		t.Bits[i] = Wrap(dt, uint64(v))
	}
	return t
}

// Ints returns the elements as []int64 (integer tensors).
func (t *T) Ints() []int64 {
	r := make([]int64, len(t.Bits))
	for i := range r {
		r[i] = t.I(i)
	}
	return r
}

// Floats returns the elements as []float64.
func (t *T) Floats() []float64 {
	r := make([]float64, len(t.Bits))
	for i := range r {
		r[i] = t.F(i)
	}
	return r
}

// String is a compact human-readable rendering used in samples and replays.
func (t *T) String() string {
	if t == nil {
		return "<nil>"
	}
	n := len(t.Bits)
	lim := n
	if lim > 24 {
		lim = 24
	}
	s := fmt.Sprintf("%s%v[", t.DT, t.Shape)
	for i := 0; i < lim; i++ {
		if i > 0 {
			s += " "
		}
		switch {
		case t.DT.IsFloat():
			s += fmt.Sprintf("%g", t.F(i))
		case t.DT.IsUnsigned():
			s += fmt.Sprintf("%d", t.Bits[i])
		case t.DT == Bool:
			s += fmt.Sprintf("%v", t.B(i))
		default:
			s += fmt.Sprintf("%d", t.I(i))
		}
	}
	if lim < n {
		s += fmt.Sprintf(" …+%d", n-lim)
	}
	return s + "]"
}

// ShapeEq compares two shapes.
func ShapeEq(a, b []int) bool {
	if len(a) != len(b) {
		return false
	}
	for i := range a {
		if a[i] != b[i] {
			return false
		}
	}
	return true
}

// Strides returns row-major strides of a shape.
func Strides(shape []int) []int {
	st := make([]int, len(shape))
	s := 1
	for i := len(shape) - 1; i >= 0; i-- {
		st[i] = s
		s *= shape[i]
	}
	return st
}

// Unravel converts a flat row-major index into coordinates.
func Unravel(idx int, shape []int, out []int) []int {
	if out == nil {
		out = make([]int, len(shape))
	}
	for i := len(shape) - 1; i >= 0; i-- {
		if shape[i] == 0 {
			out[i] = 0
			continue
		}
		out[i] = idx % shape[i]
		idx /= shape[i]
	}
	return out
}

// Ravel converts coordinates to a flat row-major index.
func Ravel(coord, shape []int) int {
	idx := 0
	for i := range shape {
		idx = idx*shape[i] + coord[i]
	}
	return idx
}

// NormAxis normalises a possibly negative axis; ok=false when out of [-r, r-1].
func NormAxis(a, r int) (int, bool) {
	if a < -r || a >= r {
		return 0, false
	}
	if a < 0 {
		a += r
	}
	return a, true
}
