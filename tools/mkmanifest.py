#!/usr/bin/env python3
"""Regenerates /verif/MANIFEST.json from the table below (kept in one place so
that the manifest stays valid and uniform)."""
import json, subprocess, sys

BUILT = {}  # id -> (technique, level text, level note, design ref)

def add(pid, technique, text, note, ref):
    BUILT[pid] = (technique, text, note, ref)

TRUST = ("Trusted base: the reference model in harness/ref (self-tested on hand-computed ONNX examples before every run), "
         "Go's math and encoding/binary packages, protobuf-go, gorgonia's At()/Data() accessors, and deterministic "
         "case generation from (VERIF_SEED, property, index). Verdicts hold for the executions listed in the evidence file only.")

add("C14", "runtime monitoring: bounded-exhaustive differential execution of the real broadcast helpers against an independent index-map reference, plus deep before/after fingerprints of the sources",
    "Every ordered pair of shapes of rank 0..4 with extents 1..4 (116281 pairs) is pushed through both helpers and every output element is compared with the reference index map; incompatible pairs must yield an error; the sources are fingerprinted before and after. Exhaustive within that bound, sampled beyond it (thorough: all 14 element types, random larger shapes, and a pass in the -race/checkptr binary).",
    TRUST, "DESIGN.md §3 C14")

ALL = ["C%02d" % i for i in range(1, 19)]

def main():
    checks = []
    for pid in ALL:
        if pid not in BUILT:
            continue
        tech, text, note, ref = BUILT[pid]
        checks.append({
            "property_id": pid,
            "quick_cmd": "./check.sh %s quick" % pid,
            "thorough_cmd": "./check.sh %s thorough" % pid,
            "evidence_file": "evidence/%s.json" % pid,
            "replay_cmd_template": "./check.sh %s --replay {path}" % pid,
            "engine": "verifcheck",
            "level_claimed": {"category": "exploration", "text": text, "design_ref": ref},
            "level_note": note,
            "technique": tech,
        })
    hooks_commits = subprocess.run(["git", "-C", "/repo", "log", "--format=%H", "--grep=^verif hooks"], capture_output=True, text=True).stdout.split()
    man = {
        "version": 1,
        "setup_cmd": "./check.sh build",
        "hooks": {
            "guard": "verif",
            "enable": "go build -tags verif (the harness module replaces github.com/advancedclimatesystems/gonnx by /repo, so every check rebuilds from /repo's working tree)",
            "baseline_off_cmd": "cd /repo && GOFLAGS=-mod=mod GOPROXY=off GOSUMDB=off GOTOOLCHAIN=local go test -json -vet=off -count=1 -timeout 25m ./...",
            "source_commits": hooks_commits,
            "add_only": True,
        },
        "engines": [{
            "name": "verifcheck",
            "path": "harness/cmd/verifcheck",
            "serves_properties": sorted(BUILT),
            "kind_free_text": "Go supervisor/worker binary: seeded workload generators, reference-model oracle, deep tensor fingerprints, operator proxy on Model.GetOperator, child-process isolation with write-ahead case log, Go race detector build for the concurrency property and the thorough tiers",
        }],
        "checks": checks,
        "notes": "All checks are runtime monitors over executions of the real code (see DESIGN.md). known_findings.json lists genuine defects that are recorded rather than repaired; fixes are 'fix:' commits in /repo.",
        "not_applicable": [{"property_id": pid, "reason": "check not built yet in this session (planned: DESIGN.md §3 %s); not claimed until it exists" % pid} for pid in ALL if pid not in BUILT],
    }
    json.dump(man, open("/verif/MANIFEST.json", "w"), indent=1)
    print("wrote MANIFEST.json with", len(checks), "checks")

if __name__ == "__main__":
    main()
