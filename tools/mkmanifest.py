#!/usr/bin/env python3
"""Regenerates /verif/MANIFEST.json from the table below (kept in one place so
that the manifest stays valid and uniform)."""
import json, subprocess, sys

BUILT = {}  # id -> (technique, level text, level note, design ref)

def add(pid, technique, text, note, ref):
    BUILT[pid] = (technique, text, note, ref)

BUILD_NOTE = (" Extended during the build by request variants and histories found necessary in fourteen rounds of independently seeded breaks "
              "(DESIGN.md 8.2 and 8.5: re-used operator instances and tensor objects, in-place edits by their owner, spare capacity, cloned operands, models with the node between others, "
              "stray and untyped attributes, optional node names and domains, re-evaluation of deviating cases behind their predecessors, ...).")

TRUST = ("Trusted base: the reference model in harness/ref (self-tested on hand-computed ONNX examples before every run), "
         "Go's math and encoding/binary packages, protobuf-go, gorgonia's At()/Data() accessors, and deterministic "
         "case generation from (VERIF_SEED, property, index). Verdicts hold for the executions listed in the evidence file only.")

DIFF = "runtime monitoring: differential execution of the real operators (operator API and single-node models through Run) against an independent reference model over seeded, boundary-biased workloads; "

add("C01", "runtime monitoring: online checker of the dataflow trace specification over events recorded by a proxy on the exported Model.GetOperator field, per-node reference oracle on observed inputs, paired un-proxied run, fault injection at the proxy",
    "Thousands of generated DAG programs (fan-out/fan-in, repeated operator types, multi-output nodes with arbitrary/omitted/skipped output names, skipped optional inputs, shadowed initializers) are loaded from bytes and run under a recording proxy; an online checker verifies node order, that every node receives exactly the values bound to its input names, positional output binding, per-node correctness against the reference, distinct operator instances and the result map; a second un-proxied run with all intermediates declared must be bit-identical; injected node failures must surface as Run errors. Exploration: programs are sampled.",
    TRUST, "DESIGN.md §3 C01")
add("C02", "runtime monitoring: deep before/after fingerprints of every caller tensor and weight (hook VerifParameters), differential oracle against a freshly loaded model (exact), per-node attribution through the operator proxy",
    "Histories of 3..10 Runs (re-used tensor objects, fed-back outputs, other batch sizes, failing calls, injected node failures) on sample and generated models with caller tensors and weights in every special role; after each call all tensors ever passed and all weights must have unchanged fingerprints and the outcome must equal, bit for bit, that of a fresh model. Exploration over sampled histories.",
    TRUST, "DESIGN.md §3 C02")
add("C03", DIFF + "IEEE / wrap-around scalar semantics with exact comparison; thorough enumerates all 121^2 shape pairs x 12 operators x 4 must-compute types",
    "Every generated case is judged against the broadcast index map and scalar semantics of the reference: MUST_EQUAL for float32/float64/int32/int64 (bool for logic), MAY_REFUSE for other accepted types, MUST_ERROR for incompatible shapes, mixed types and logic on non-bool; NaN, infinities, signed zeros, integer extremes and forced ties included. Exploration (bounded-exhaustive over shapes in the thorough tier).",
    TRUST, "DESIGN.md §3 C03")
add("C04", DIFF + "float64 reference with a sound, order-independent dot-product error bound",
    "MatMul (ranks 1..5, broadcast batches), Gemm (all transpose/alpha/beta/C-shape combinations), LinearRegressor and Scaler are compared with a float64 reference within 2(K+4)u*sum|a_i b_i|; float32 must be computed, other types may be refused but never answered differently; mismatching inner/batch/bias shapes must fail. Exploration.",
    TRUST, "DESIGN.md §3 C04")
add("C05", DIFF + "direct nested-loop convolution in float64 with a sound error bound and a discriminative non-triviality rule",
    "1-D/2-D convolutions over asymmetric geometries (H!=W, kh!=kw, per-axis strides/dilations, per-side pads, all auto_pad modes, bias absent/skipped/present) are compared with a direct convolution; invalid or unimplemented configurations must be refused. Exploration; two pinned-by-tests defects are recorded as known findings.",
    TRUST, "DESIGN.md §3 C05")
add("C06", DIFF + "float64 ONNX recurrences (step-wise from the observed trace for RNN/GRU), attribute honoured-or-refused check, metamorphic split relation on the real code",
    "RNN/GRU/LSTM over all subsets of optional inputs, activation lists, linear_before_reset and input_forget are compared with the ONNX recurrence (gate order identified by a discriminative rule), attributes must be honoured or refused, and processing a sequence in two pieces with the state fed back must reproduce the whole. Exploration.",
    TRUST, "DESIGN.md §3 C06")
add("C07", DIFF + "exact comparison; invalid requests must produce an error",
    "Reshape/Flatten/Squeeze/Unsqueeze/Shape over ranks 0..5, all element types, valid and ONNX-invalid parameters: valid requests must return exactly the input's elements in row-major order with the ONNX shape, invalid ones an error. Exploration.",
    TRUST, "DESIGN.md §3 C07")
add("C08", DIFF + "exact comparison over unique-valued tensors; must-compute core vs may-refuse classes",
    "Transpose/Concat/Slice/Gather/Expand are compared element by element with the ONNX index formulas; requests in the must-compute core must be answered, other valid requests may be refused but never answered with other data or another shape, invalid ones must fail. Exploration; two gorgonia-rooted Slice defects are recorded as known findings.",
    TRUST, "DESIGN.md §3 C08")
add("C09", DIFF + "exact reductions, float64 max-subtracted softmax with tolerance, online structural assertions",
    "ArgMax/ReduceMax/ReduceMin over every axis subset and keepdims, exact; Softmax/LogSoftmax over the whole float range against a float64 reference plus structural assertions (non-negative, slices sum to 1, finite for finite inputs). Exploration.",
    TRUST, "DESIGN.md §3 C09")
add("C10", DIFF + "Go float64 math rounded once, ulp tolerance, class-exact special values",
    "17 unary operators over all accepted element types and the IEEE special-value pool (signed zeros, subnormals, infinities, NaNs, domain edges, exp overflow); shape and type preserved. Exploration.",
    TRUST, "DESIGN.md §3 C10")
add("C11", DIFF + "exact comparison",
    "Every attribute form of Constant, ConstantOfShape over all value types and shapes, Cast over all 10x10 numeric pairs with in-range values; unsupported targets/attributes must be refused. Exploration.",
    TRUST, "DESIGN.md §3 C11")
add("C12", "runtime monitoring: differential decoding (onnx.TensorFromProto, initializer + Run, Constant + Run) against an independent reference decoder, exact comparison; child-process isolation with memory cap for hostile dims",
    "TensorProtos of all 11 types, both encodings, ranks 0..4, random bit patterns and every payload/dims/data_type mutation: well-formed payloads must decode bit-exactly, everything else must be an error, never a panic or a process-fatal allocation (observed through the supervisor). Exploration; the UNDEFINED data_type leniency is a recorded known finding.",
    TRUST, "DESIGN.md §3 C12")
add("C13", "runtime monitoring: acceptance oracle from the declared signature, proxy trace check (no apply on rejection), deep fingerprints of supplied tensors, introspection cross-check",
    "Signatures with fixed/symbolic/unspecified dimensions and shadowed inputs vs supplied sets deviating in one respect: Run must accept exactly the conforming sets, reject others with an error, nil outputs, no node applied and no tensor touched; introspection methods must agree with what Run enforces. Exploration.",
    TRUST, "DESIGN.md §3 C13")
add("C14", "runtime monitoring: bounded-exhaustive differential execution of the real broadcast helpers against an independent index-map reference, plus deep before/after fingerprints of the sources",
    "Every ordered pair of shapes of rank 0..4 with extents 1..4 (116281 pairs) is pushed through both helpers and every output element is compared with the reference index map; incompatible pairs must yield an error; the sources are fingerprinted before and after. Exhaustive within that bound, sampled beyond it (thorough: all 14 element types, random larger shapes, and a pass in the -race/checkptr binary).",
    TRUST, "DESIGN.md §3 C14")

add("C15", "runtime monitoring: exhaustive enumeration of the finite gate space against the operators' declared constraints and an independent ONNX arity table; registry independence checks; proxy trace check 'no apply after a failed validate'",
    "All 55 operators x input counts 0..max+2 x each of 14 element types at each position x nil at each optional position are pushed through ValidateInputs (8446 cases, complete), plus registry lookups (independence of instances, foreign names) and model-level 'gate before compute' traces. Exhaustive over the stated finite space.",
    TRUST, "DESIGN.md §3 C15")
add("C16", "runtime monitoring: metamorphic relations on the real code (batch decomposition, permutation, sub-selection)",
    "Per-sample models (dense chains, Conv, RNN/GRU/LSTM, sample models) are run on a batch and on its rows/permutations/sub-selections; every sample's result must be the same up to rounding and success/failure must agree. Exploration.",
    TRUST, "DESIGN.md §3 C16")
add("C17", "Go race detector (-race build of the harness and of /repo) over stress workloads with injected yields, plus in-process monitors: sequential-baseline value comparison and weight fingerprints at quiescence",
    "Besides the warm trials there is a pass of cold-start trials, one per fresh process, whose concurrent Runs are the first thing the library does in that process. 2..16 goroutines run a shared Model concurrently (own inputs, start barrier, loaders in parallel, PRNG-chosen yields at node boundaries, GOMAXPROCS rotated); the race detector log is parsed for reports, every result is compared bit for bit with its sequential baseline and weights are fingerprinted at quiescence. Held on the executions and interleavings listed in the evidence only.",
    TRUST + " The race detector reports only races between accesses that were executed.", "DESIGN.md §3 C17")
add("C18", "runtime monitoring: robustness oracle over hostile byte strings with recover() in-process and child-process isolation (write-ahead case log, memory cap, watchdog) for process-fatal failures; errors.Is classification; proxy trace check for foreign operators",
    "Truncation of the small sample models at every offset (complete), byte-level and structured mutations of sample and generated models, random byte strings, opset lists and foreign operator types: loading must return a model or an error (never panic, abort or hang), unsupported opsets/operators must be refused with the dedicated errors and nothing may run after a foreign node. Exploration.",
    TRUST, "DESIGN.md §3 C18")

ALL = ["C%02d" % i for i in range(1, 19)]

def main():
    checks = []
    for pid in ALL:
        if pid not in BUILT:
            continue
        tech, text, note, ref = BUILT[pid]
        checks.append({
            "property_id": pid,
            "quick_cmd": "./check.sh %s quick" % pid,
            "thorough_cmd": "./check.sh %s thorough" % pid,
            "evidence_file": "evidence/%s.json" % pid,
            "replay_cmd_template": "./check.sh %s --replay {path}" % pid,
            "engine": "verifcheck",
            "level_claimed": {"category": "exploration", "text": text + BUILD_NOTE, "design_ref": ref + "; §8"},
            "level_note": note,
            "technique": tech,
        })
    hooks_commits = subprocess.run(["git", "-C", "/repo", "log", "--format=%H", "--grep=^verif hooks"], capture_output=True, text=True).stdout.split()
    man = {
        "version": 1,
        "setup_cmd": "./check.sh build",
        "hooks": {
            "guard": "verif",
            "enable": "go build -tags verif (the harness module replaces github.com/advancedclimatesystems/gonnx by /repo, so every check rebuilds from /repo's working tree)",
            "baseline_off_cmd": "cd /repo && GOFLAGS=-mod=mod GOPROXY=off GOSUMDB=off GOTOOLCHAIN=local go test -json -vet=off -count=1 -timeout 25m ./...",
            "source_commits": hooks_commits,
            "add_only": True,
        },
        "engines": [{
            "name": "verifcheck",
            "path": "harness/cmd/verifcheck",
            "serves_properties": sorted(BUILT),
            "kind_free_text": "Go supervisor/worker binary: seeded workload generators, reference-model oracle, deep tensor fingerprints, operator proxy on Model.GetOperator, child-process isolation with write-ahead case log, Go race detector build for the concurrency property and the thorough tiers",
        }],
        "checks": checks,
        "notes": "All checks are runtime monitors over executions of the real code (see DESIGN.md). known_findings.json lists genuine defects that are recorded rather than repaired; fixes are 'fix:' commits in /repo.",
        "not_applicable": [{"property_id": pid, "reason": "check not built yet in this session (planned: DESIGN.md §3 %s); not claimed until it exists" % pid} for pid in ALL if pid not in BUILT],
    }
    json.dump(man, open("/verif/MANIFEST.json", "w"), indent=1)
    print("wrote MANIFEST.json with", len(checks), "checks")

if __name__ == "__main__":
    main()
