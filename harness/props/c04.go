package props

import (
	"fmt"
	"math"

	"verif/harness/gen"
	"verif/harness/mon"
	"verif/harness/ref"
)

// C04 — MatMul, Gemm, LinearRegressor, Scaler.

func init() {
	Register(&Property{
		ID:    "C04",
		Title: "MatMul, Gemm, LinearRegressor and Scaler compute their algebraic definitions",
		Cases: func(tier string) int {
			switch tier {
			case "thorough":
				return 8000000
			case "race":
				return 30000
			}
			return 800000
		},
		Run:            c04Run,
		Floor:          func(tier string) int { return 4000 },
		Rule:           "(Scaler attribute lists of every wrong length and identity values; LinearRegressor without targets) MatMul over operand ranks 1..5 on both sides, extents {1,2,3,5}, broadcastable and non-broadcastable batch shapes, vector operands with batches; Gemm over the 4 transpose combinations x alpha, beta in {0, 1, -1, 0.5, 2.5, random} (attributes given or defaulted) x C in {absent, skipped by \"\", scalar, (N), (1,N), (M,1), (M,N), incompatible}; LinearRegressor over targets 1..4 x features 1..5 x intercepts present/absent; Scaler over feature counts with scalar or per-feature offset/scale; asymmetric integer-and-fraction data so that transposition and layout mistakes change the result; operator API plus every 4th case through Run. float32 MUST_EQUAL within the dot-product rounding bound 2(K+4)u*sum|a_i b_i| of the float64 reference; other accepted element types MAY_REFUSE; inner-dimension, batch or bias mismatch MUST_ERROR. Non-trivial = M, N, K not all equal to 1 (or invalid); distinct = (operator, dtype, shapes, attributes)." + ruleShared + ruleReused,
		RaceInThorough: true,
		Technique:      "runtime monitoring: differential execution against a float64 reference with a sound, order-independent dot-product error bound",
		Assumptions:    []string{"forward error bound gamma_K doubled (valid for any summation order, blocking or FMA use)", "values bounded (|x| <= 16) so that no intermediate overflows"},
	})
	validGens["MatMul"] = func(r *gen.R, _ bool) (mon.OpReq, Expect, bool) { return genMatMul(r, true) }
	validGens["Gemm"] = func(r *gen.R, _ bool) (mon.OpReq, Expect, bool) { return genGemm(r, true) }
	validGens["LinearRegressor"] = func(r *gen.R, _ bool) (mon.OpReq, Expect, bool) { return genLinReg(r, true) }
	validGens["Scaler"] = func(r *gen.R, _ bool) (mon.OpReq, Expect, bool) { return genScaler(r, true) }
}

func numTensor(r *gen.R, dt ref.DType, shape []int) *ref.T {
	t := ref.New(dt, shape...)
	for i := range t.Bits {
		var v float64
		switch {
		case dt.IsFloat() && r.Chance(0.5):
			v = float64(r.Range(-32, 32)) / 4
		case dt.IsFloat():
			v = r.Uniform(-8, 8)
		case dt.IsUnsigned():
			v = float64(r.Range(0, 9))
		default:
			v = float64(r.Range(-9, 9))
		}
		t.Bits[i] = ref.EncF(dt, v)
	}
	return t
}

func numExpect(a *ref.Approx, err error, dt ref.DType, must bool) Expect {
	if err != nil {
		return Expect{Kind: MustError, Why: err.Error()}
	}
	k, why := MayRefuse, "valid request; this element type may be refused"
	if must {
		k, why = MustEqual, "valid float32 request"
	}
	mode := CmpTol
	if a.Tol == nil {
		mode = CmpBits
	}
	return Expect{Kind: k, Want: []*ref.Approx{a}, Mode: mode, Why: why}
}

func pickNumDT(r *gen.R, validOnly bool) ref.DType {
	if validOnly || r.Chance(0.75) {
		return ref.F32
	}
	return r.PickDT(ref.F64, ref.I32, ref.I64, ref.U32, ref.U64)
}

func genMatMul(r *gen.R, validOnly bool) (mon.OpReq, Expect, bool) {
	dt := pickNumDT(r, validOnly)
	ext := func() int { return r.PickInt(1, 1, 2, 2, 3, 5) }
	m, k, n := ext(), ext(), ext()
	ra, rb := r.Range(1, 5), r.Range(1, 5)
	if validOnly {
		ra, rb = r.Range(1, 4), r.Range(1, 4)
	}
	// batch shapes
	maxB := ra - 2
	if rb-2 > maxB {
		maxB = rb - 2
	}
	var full []int
	for i := 0; i < maxB; i++ {
		full = append(full, r.PickInt(1, 2, 3))
	}
	mkBatch := func(rank int) []int {
		nb := rank - 2
		if nb <= 0 {
			return nil
		}
		b := append([]int{}, full[len(full)-nb:]...)
		for i := range b {
			if r.Chance(0.3) {
				b[i] = 1
			}
		}
		return b
	}
	ba, bb := mkBatch(ra), mkBatch(rb)
	sa := append(append([]int{}, ba...), m, k)
	sb := append(append([]int{}, bb...), k, n)
	if ra == 1 {
		sa = []int{k}
	}
	if rb == 1 {
		sb = []int{k}
	}
	if !validOnly && r.Chance(0.15) {
		switch r.Intn(2) {
		case 0: // inner mismatch
			sb[maxInt(len(sb)-2, 0)] = k + r.Range(1, 2)
		case 1: // batch mismatch
			if len(ba) > 0 && len(bb) > 0 {
				ba[len(ba)-1], bb[len(bb)-1] = 2, 3
				sa = append(append([]int{}, ba...), m, k)
				sb = append(append([]int{}, bb...), k, n)
			}
		}
	}
	if ref.NumElems(sa) > 400 || ref.NumElems(sb) > 400 {
		return mon.OpReq{}, Expect{}, false
	}
	a, b := numTensor(r, dt, sa), numTensor(r, dt, sb)
	want, err := ref.MatMul(a, b)
	req := mon.OpReq{Op: "MatMul", Inputs: []*ref.T{a, b}}
	return req, numExpect(want, err, dt, dt == ref.F32), true
}

func maxInt(a, b int) int {
	if a > b {
		return a
	}
	return b
}

func genGemm(r *gen.R, validOnly bool) (mon.OpReq, Expect, bool) {
	dt := ref.F32
	if !validOnly && r.Chance(0.15) {
		dt = ref.F64
	}
	ext := func() int { return r.PickInt(1, 2, 3, 4, 5) }
	m, k, n := ext(), ext(), ext()
	transA, transB := r.Bool(), r.Bool()
	sa, sb := []int{m, k}, []int{k, n}
	if transA {
		sa = []int{k, m}
	}
	if transB {
		sb = []int{n, k}
	}
	if !validOnly && r.Chance(0.08) {
		sb[0]++ // inner (or outer) mismatch
		if transB {
			sb[0]--
			sb[1]++
		}
	}
	a, b := numTensor(r, dt, sa), numTensor(r, dt, sb)
	alpha, beta := 1.0, 1.0
	req := mon.OpReq{Op: "Gemm"}
	pick := func() float64 {
		v := r.PickFloat(0, 1, -1, 0.5, 2.5, 99, 98)
		if v == 99 {
			v = float64(float32(r.Uniform(-3, 3)))
		}
		if v == 98 { // a factor a few float32 steps away from one is not one
			k := float64(r.Range(3, 16))
			if r.Bool() {
				k = -k
			}
			v = float64(float32(1 + k/8388608))
		}
		return v
	}
	if r.Chance(0.7) {
		alpha = pick()
		req.Attrs = append(req.Attrs, mon.AttrF("alpha", float32(alpha)))
	}
	if r.Chance(0.7) {
		beta = pick()
		req.Attrs = append(req.Attrs, mon.AttrF("beta", float32(beta)))
	}
	flag := func(on bool) int64 { // any non-zero value means "transposed"
		if on && !validOnly && r.Chance(0.25) {
			return int64(r.PickInt(2, -1, 255, 1<<31))
		}
		return b2i(on)
	}
	if transA || r.Chance(0.3) {
		req.Attrs = append(req.Attrs, mon.AttrI("transA", flag(transA)))
	}
	if transB || r.Chance(0.3) {
		req.Attrs = append(req.Attrs, mon.AttrI("transB", flag(transB)))
	}
	var c *ref.T
	cm := r.Intn(8)
	if validOnly && cm == 7 {
		cm = 4
	}
	switch cm {
	case 0: // absent (2 inputs)
	case 1: // skipped by ""
	case 2:
		c = numTensor(r, dt, []int{})
	case 3:
		c = numTensor(r, dt, []int{n})
	case 4:
		c = numTensor(r, dt, []int{1, n})
	case 5:
		c = numTensor(r, dt, []int{m, 1})
	case 6:
		c = numTensor(r, dt, []int{m, n})
	case 7: // incompatible
		c = numTensor(r, dt, r.PickShape([]int{n + 1}, []int{m + 1, n}, []int{m, n + 1}, []int{1, m, n}, []int{2, 1}))
		if ref.UniBroadcastable([]int{m, n}, c.Shape) {
			c = numTensor(r, dt, []int{1, 1, m, n})
		}
	}
	req.Inputs = []*ref.T{a, b}
	if cm != 0 {
		req.Inputs = append(req.Inputs, c)
	}
	want, err := ref.Gemm(a, b, c, alpha, beta, transA, transB)
	return req, numExpect(want, err, dt, dt == ref.F32), true
}

func b2i(b bool) int64 {
	if b {
		return 1
	}
	return 0
}

func f32s(r *gen.R, n int) ([]float32, []float64) {
	f := make([]float32, n)
	d := make([]float64, n)
	for i := range f {
		f[i] = float32(r.Range(-24, 24)) / 4
		if r.Chance(0.3) {
			f[i] = float32(r.Uniform(-5, 5))
		}
		d[i] = float64(f[i])
	}
	return f, d
}

func genLinReg(r *gen.R, validOnly bool) (mon.OpReq, Expect, bool) {
	dt := ref.F32
	if !validOnly && r.Chance(0.2) {
		dt = r.PickDT(ref.F64, ref.I32, ref.I64)
	}
	n, c, t := r.Range(1, 4), r.Range(1, 5), r.Range(1, 4)
	x := numTensor(r, dt, []int{n, c})
	coef32, coef := f32s(r, t*c)
	req := mon.OpReq{Op: "LinearRegressor", Inputs: []*ref.T{x}}
	req.Attrs = append(req.Attrs, mon.AttrFloats("coefficients", coef32))
	var icpt []float64
	if validOnly || r.Chance(0.75) {
		i32, i64 := f32s(r, t)
		icpt = i64
		req.Attrs = append(req.Attrs, mon.AttrFloats("intercepts", i32))
	}
	tRef := t
	if !validOnly && t >= 2 && r.Chance(0.08) {
		// targets left out although the coefficient and intercept lists are laid out for several:
		// the default is one target, the lists do not fit it
		tRef = 1
	} else if t != 1 || r.Bool() {
		req.Attrs = append(req.Attrs, mon.AttrI("targets", int64(t)))
	}
	if !validOnly && r.Chance(0.08) { // coefficients that do not match the feature count
		x = numTensor(r, dt, []int{n, c + 1})
		req.Inputs[0] = x
	}
	if !validOnly && t >= 2 && r.Chance(0.06) { // a coefficient count that is not a multiple of targets
		extra := r.Range(1, t-1)
		c32b, cb := f32s(r, extra)
		coef32, coef = append(coef32, c32b...), append(coef, cb...)
		req.Attrs[0] = mon.AttrFloats("coefficients", coef32)
	}
	if r.Bool() { // attribute order must not matter
		for i, j := 0, len(req.Attrs)-1; i < j; i, j = i+1, j-1 {
			req.Attrs[i], req.Attrs[j] = req.Attrs[j], req.Attrs[i]
		}
	}
	want, err := ref.LinearRegressor(x, coef, icpt, tRef)
	return req, numExpect(want, err, dt, dt == ref.F32), true
}

func genScaler(r *gen.R, validOnly bool) (mon.OpReq, Expect, bool) {
	dt := ref.F32
	if !validOnly && r.Chance(0.2) {
		dt = r.PickDT(ref.F64, ref.I32, ref.I64)
	}
	c := r.Range(1, 5)
	shape := []int{r.Range(1, 4), c}
	if r.Chance(0.2) {
		shape = []int{c}
	}
	x := numTensor(r, dt, shape)
	no, ns := c, c
	if r.Chance(0.25) {
		no = 1
	}
	if r.Chance(0.25) {
		ns = 1
	}
	if !validOnly && r.Chance(0.12) && c > 1 {
		// an attribute list that fits neither one entry nor the feature count
		wrong := r.PickInt(c+1, c+1, c-1, 2*c, 2)
		if wrong == c || wrong < 2 {
			wrong = c + 1
		}
		if r.Chance(0.7) {
			no = wrong
		} else {
			ns = wrong
		}
	}
	o32, o64 := f32s(r, no)
	s32, s64 := f32s(r, ns)
	if dt == ref.F32 && r.Chance(0.12) {
		// features with a large mean and a small spread (what a scaler is for): x close to its
		// offset, so that forming x*scale and offset*scale separately would cancel
		big := []float64{1e3, 1e5, 1e6, 3e4}[r.Intn(4)]
		for i := range o32 {
			o64[i] = float64(float32(big * (1 + 0.37*float64(i))))
			o32[i] = float32(o64[i])
		}
		for i := range x.Bits {
			o := o64[(i%c)%len(o64)]
			x.Bits[i] = ref.EncF(ref.F32, o*(1+float64(r.Range(-40, 40))*1e-6))
		}
		for i := range s32 {
			s64[i] = float64(float32(r.PickFloat(0.1, 0.3, -0.7, 1.7)))
			s32[i] = float32(s64[i])
		}
	}
	if r.Chance(0.15) { // attribute values for which a step "does nothing": offsets of (signed) zero, scales of one
		for i := range o32 {
			o32[i], o64[i] = 0, 0
			if r.Chance(0.2) {
				o32[i], o64[i] = float32(math.Copysign(0, -1)), math.Copysign(0, -1)
			}
		}
	}
	if r.Chance(0.1) {
		for i := range s32 {
			s32[i], s64[i] = 1, 1
		}
	}
	req := mon.OpReq{Op: "Scaler", Inputs: []*ref.T{x}, Attrs: []*mon.Attr{mon.AttrFloats("offset", o32), mon.AttrFloats("scale", s32)}}
	if r.Bool() {
		req.Attrs[0], req.Attrs[1] = req.Attrs[1], req.Attrs[0]
	}
	want, err := ref.Scaler(x, o64, s64)
	return req, numExpect(want, err, dt, dt == ref.F32), true
}

func c04Run(c *Ctx) {
	if c.Idx%16 == 9 {
		c04Shared(c)
		return
	}
	var req mon.OpReq
	var exp Expect
	ok := false
	switch c.R.Intn(10) {
	case 0, 1, 2, 3:
		req, exp, ok = genMatMul(c.R, false)
	case 4, 5, 6:
		req, exp, ok = genGemm(c.R, false)
	case 7, 8:
		req, exp, ok = genLinReg(c.R, false)
	default:
		req, exp, ok = genScaler(c.R, false)
	}
	if !ok {
		c.Skip("generator rejected the draw (too large)")
		return
	}
	c.SetCase("%s", req.Describe())
	shapes := ""
	nontrivial := exp.Kind == MustError
	for _, in := range req.Inputs {
		if in != nil {
			shapes += fmt.Sprint(in.Shape)
			if len(in.Bits) > 1 {
				nontrivial = true
			}
		}
	}
	if nontrivial {
		c.Nontrivial(fmt.Sprintf("%s|%v|%s|%s", req.Op, req.Inputs[0].DT, shapes, attrsString(req)))
	}
	c.Distinct("operator-dtype", req.Op+"/"+req.Inputs[0].DT.String())
	c.Count("class:"+req.Op+"/"+exp.Kind.String(), 1)
	mo := mon.ModelOpts{InitMask: uint64(c.R.Intn(8)), RawInits: c.R.Bool(), Truncate: c.R.Bool(), DynamicIn: c.R.Chance(0.3)}
	CheckOp(c, req, exp, c.Idx%4 == 0, mo, nil)
	if c.Idx%6000 == 19 {
		s := map[string]any{"request": trunc(req.Describe(), 300), "expectation": exp.Kind.String(), "why": exp.Why}
		if len(exp.Want) > 0 && exp.Want[0] != nil {
			s["expected"] = trunc(exp.Want[0].T.String(), 200)
		}
		c.Sample(s)
	}
}
