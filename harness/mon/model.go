package mon

import (
	"encoding/binary"
	"fmt"
	"math"

	"github.com/advancedclimatesystems/gonnx/onnx"
	"google.golang.org/protobuf/proto"

	"verif/harness/ref"
)

// Attribute constructors.

// AttrI builds an int attribute.
func AttrI(name string, v int64) *onnx.AttributeProto {
	return &onnx.AttributeProto{Name: name, Type: onnx.AttributeProto_INT, I: v}
}

// AttrF builds a float attribute.
func AttrF(name string, v float32) *onnx.AttributeProto {
	return &onnx.AttributeProto{Name: name, Type: onnx.AttributeProto_FLOAT, F: v}
}

// AttrS builds a string attribute.
func AttrS(name, v string) *onnx.AttributeProto {
	return &onnx.AttributeProto{Name: name, Type: onnx.AttributeProto_STRING, S: []byte(v)}
}

// AttrInts builds an int-list attribute.
func AttrInts(name string, v []int64) *onnx.AttributeProto {
	return &onnx.AttributeProto{Name: name, Type: onnx.AttributeProto_INTS, Ints: append([]int64{}, v...)}
}

// AttrIntsI builds an int-list attribute from []int.
func AttrIntsI(name string, v []int) *onnx.AttributeProto {
	w := make([]int64, len(v))
	for i, x := range v {
		w[i] = int64(x)
	}
	return AttrInts(name, w)
}

// AttrFloats builds a float-list attribute.
func AttrFloats(name string, v []float32) *onnx.AttributeProto {
	return &onnx.AttributeProto{Name: name, Type: onnx.AttributeProto_FLOATS, Floats: append([]float32{}, v...)}
}

// AttrStrings builds a string-list attribute.
func AttrStrings(name string, v []string) *onnx.AttributeProto {
	b := make([][]byte, len(v))
	for i, s := range v {
		b[i] = []byte(s)
	}
	return &onnx.AttributeProto{Name: name, Type: onnx.AttributeProto_STRINGS, Strings: b}
}

// AttrT builds a tensor attribute.
func AttrT(name string, t *onnx.TensorProto) *onnx.AttributeProto {
	return &onnx.AttributeProto{Name: name, Type: onnx.AttributeProto_TENSOR, T: t}
}

// RawBytes is the little-endian raw_data encoding of a value.
func RawBytes(t *ref.T) []byte {
	sz := t.DT.Size()
	out := make([]byte, sz*len(t.Bits))
	for i, b := range t.Bits {
		switch sz {
		case 1:
			out[i] = byte(b)
		case 2:
			binary.LittleEndian.PutUint16(out[2*i:], uint16(b))
		case 4:
			binary.LittleEndian.PutUint32(out[4*i:], uint32(b))
		case 8:
			binary.LittleEndian.PutUint64(out[8*i:], b)
		}
	}
	return out
}

// TensorProto encodes a value, either as raw bytes or in the typed field that
// ONNX prescribes for its element type.
func TensorProto(name string, t *ref.T, raw bool) *onnx.TensorProto {
	tp := &onnx.TensorProto{Name: name, DataType: t.DT.OnnxCode()}
	for _, e := range t.Shape {
		tp.Dims = append(tp.Dims, int64(e))
	}
	if raw {
		tp.RawData = RawBytes(t)
		return tp
	}
	switch t.DT {
	case ref.F32:
		for _, b := range t.Bits {
			tp.FloatData = append(tp.FloatData, math.Float32frombits(uint32(b)))
		}
	case ref.F64:
		for _, b := range t.Bits {
			tp.DoubleData = append(tp.DoubleData, math.Float64frombits(b))
		}
	case ref.I64:
		for _, b := range t.Bits {
			tp.Int64Data = append(tp.Int64Data, int64(b))
		}
	case ref.U32, ref.U64:
		tp.Uint64Data = append(tp.Uint64Data, t.Bits...)
	case ref.U8, ref.U16, ref.Bool:
		for _, b := range t.Bits {
			tp.Int32Data = append(tp.Int32Data, int32(b))
		}
	default: // I8 I16 I32
		for _, b := range t.Bits {
			tp.Int32Data = append(tp.Int32Data, int32(int64(b)))
		}
	}
	return tp
}

// Dim is one declared dimension of a graph input/output.
type Dim struct {
	Value int64  // > 0: fixed
	Param string // symbolic name (when Value == 0)
	Unset bool   // neither value nor param
}

// FixedDims declares every extent of a shape as fixed.
func FixedDims(shape []int) []Dim {
	d := make([]Dim, len(shape))
	for i, e := range shape {
		d[i] = Dim{Value: int64(e)}
	}
	return d
}

// GInput declares a graph input or output.
type GInput struct {
	Name    string
	DT      ref.DType
	Dims    []Dim
	NoType  bool // omit the type altogether
	NoShape bool // type without shape
	NoElem  bool // tensor type whose elem_type is left out (0 = UNDEFINED); the shape is declared all the same
}

// GInit is an initializer.
type GInit struct {
	Name string
	T    *ref.T
	Raw  bool
}

// GNode is a graph node.
type GNode struct {
	Op      string
	Name    string
	Inputs  []string
	Outputs []string
	Attrs   []*onnx.AttributeProto
	Domain  string // NodeProto.domain ("" = default; "ai.onnx" is the other spelling of the default domain)
}

// Graph is a neutral description of a model that can be rendered to ONNX bytes.
type Graph struct {
	Inputs       []GInput
	Inits        []GInit
	Nodes        []GNode
	Outputs      []GInput
	Opsets       []*onnx.OperatorSetIdProto // nil = [{"", 13}]
	IR           int64                      // ir_version; 0 = 7
	ValueInfos   []GInput                   // graph.value_info entries (annotations of values; they declare no inputs)
	NoNames      bool                       // nodes without a name (the field is optional)
	SpellDomains bool                       // every node carries its domain explicitly (ai.onnx / ai.onnx.ml)
}

// ValueInfo renders a declaration.
func ValueInfo(in GInput) *onnx.ValueInfoProto {
	vi := &onnx.ValueInfoProto{Name: in.Name}
	if in.NoType {
		return vi
	}
	tt := &onnx.TypeProto_Tensor{ElemType: in.DT.OnnxCode()}
	if in.NoElem {
		tt.ElemType = 0
	}
	if !in.NoShape {
		sh := &onnx.TensorShapeProto{}
		for _, d := range in.Dims {
			dim := &onnx.TensorShapeProto_Dimension{}
			switch {
			case d.Unset:
			case d.Value != 0:
				dim.Value = &onnx.TensorShapeProto_Dimension_DimValue{DimValue: d.Value}
			default:
				dim.Value = &onnx.TensorShapeProto_Dimension_DimParam{DimParam: d.Param}
			}
			sh.Dim = append(sh.Dim, dim)
		}
		tt.Shape = sh
	}
	vi.Type = &onnx.TypeProto{Value: &onnx.TypeProto_TensorType{TensorType: tt}}
	return vi
}

// Proto renders the graph as a ModelProto.
func (g *Graph) Proto() *onnx.ModelProto {
	gp := &onnx.GraphProto{Name: "verif"}
	for _, in := range g.Inputs {
		gp.Input = append(gp.Input, ValueInfo(in))
	}
	for _, o := range g.Outputs {
		gp.Output = append(gp.Output, ValueInfo(o))
	}
	for _, v := range g.ValueInfos {
		gp.ValueInfo = append(gp.ValueInfo, ValueInfo(v))
	}
	for _, it := range g.Inits {
		gp.Initializer = append(gp.Initializer, TensorProto(it.Name, it.T, it.Raw))
	}
	for i, n := range g.Nodes {
		name := n.Name
		if name == "" && !g.NoNames {
			name = fmt.Sprintf("n%d", i)
		}
		domain := n.Domain
		if domain == "" && g.SpellDomains {
			// the default domain spelled out; the two ONNX-ML operators under their own domain
			domain = "ai.onnx"
			if n.Op == "Scaler" || n.Op == "LinearRegressor" {
				domain = "ai.onnx.ml"
			}
		}
		gp.Node = append(gp.Node, &onnx.NodeProto{OpType: n.Op, Name: name, Input: n.Inputs, Output: n.Outputs, Attribute: n.Attrs, Domain: domain})
	}
	ops := g.Opsets
	if ops == nil {
		ops = []*onnx.OperatorSetIdProto{{Domain: "", Version: 13}}
	}
	ir := g.IR
	if ir == 0 {
		ir = 7
	}
	if ir < 0 {
		ir = 0 // explicitly absent
	}
	return &onnx.ModelProto{IrVersion: ir, ProducerName: "verif", Graph: gp, OpsetImport: ops}
}

// Bytes renders the graph as the bytes a user would load.
func (g *Graph) Bytes() []byte {
	b, err := proto.Marshal(g.Proto())
	if err != nil {
		panic(err)
	}
	return b
}

// Attr is the ONNX attribute message.
type Attr = onnx.AttributeProto
