#!/bin/bash
# seedmatrix.sh [seed dirs...] — for every kept seeded change: apply it to /repo,
# run the quick check of the property it targets, revert; prints one line per
# seed and writes SEEDMATRIX.md. /repo must be clean and nothing else may use it meanwhile.
set -u
export GOFLAGS=-mod=mod GOPROXY=off GOSUMDB=off GOTOOLCHAIN=local
cd /verif
if [ -n "$(git -C /repo status --short)" ]; then echo "/repo is not clean"; exit 3; fi
DIRS=${@:-$(cd /verif && ls -d seeded/C[0-9]*)}
OUT=/verif/SEEDMATRIX.md
{ echo "# Seeded changes x targeted quick check"; echo; echo "Regenerate with tools/seedmatrix.sh (applies each seeded/<id>/patch.diff to /repo, runs ./check.sh <property> quick, reverts)."; echo; echo "| seed | check | exit | first signature |"; echo "|---|---|---|---|"; } > $OUT.tmp
miss=0
for d in $DIRS; do
  id=$(basename $d); p=${id%%-*}
  # the check that is expected to catch it: the first entry of caught_by_quick_checks (the targeted
  # check, except for the few changes that only show under concurrency and are caught by C17)
  q=$(jq -r '.caught_by_quick_checks[0] // empty' $d/meta.json 2>/dev/null); [ -n "$q" ] && p=$q
  if ! git -C /repo apply /verif/$d/patch.diff 2>/dev/null; then echo "$id: PATCH DOES NOT APPLY"; echo "| $id | $p | n/a | patch does not apply to the current tree |" >> $OUT.tmp; continue; fi
  out=$(./check.sh $p quick 2>&1); rc=$?
  git -C /repo checkout -- .
  sig=$(echo "$out" | grep -v KNOWN | grep -m1 "signature=" | sed 's/^ *signature=//' | cut -d' ' -f1)
  echo "$id check=$p exit=$rc $sig"
  echo "| $id | $p | $rc | \`${sig:-none}\` |" >> $OUT.tmp
  [ $rc -eq 1 ] || miss=$((miss+1))
done
echo >> $OUT.tmp; echo "not caught by the targeted check: $miss" >> $OUT.tmp
mv $OUT.tmp $OUT
git -C /repo status --short | head -3
echo "not caught: $miss"
